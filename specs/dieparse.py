"""Specification of the parse of one debugging information entry (DWARF v5 7.5.2-7.5.6): attribute forms are
abstract operand parsers -- value and end position are functions of (bytes, position, form name, format, address
size, version); the form table itself is K2 -- and DW_FORM_indirect (7.5.3: a ULEB128 form code followed by the
value in that form, nesting allowed) is specified by the chain of form codes."""
import z3
from pyvc.vals import to_int, to_str, ArrS, IntS, StrS, BoolS
from pyvc.verify import register_recdef


def _native(f):
    f._native = True
    return f


_SORTS = [ArrS, IntS, StrS, IntS, IntS, IntS]
_fval = z3.Function('form.val', *(_SORTS + [IntS]))
_fend = z3.Function('form.end', *(_SORTS + [IntS]))
_uval = z3.Function('leb.u.val', ArrS, IntS, IntS)
_uend = z3.Function('leb.end', ArrS, IntS, IntS)
_iq = z3.Function('indirect.q', ArrS, IntS, IntS, IntS)


def _nm(form):
    from pyvc.vals import Code
    return to_str(form.name) if isinstance(form, Code) else to_str(form)


def _cfg(structs):
    return [to_int(structs.attrs[a]) for a in ('dwarf_format', 'address_size', 'dwarf_version')]


@_native
def form_val(I, B, p, form, structs):
    """value the operand parser of `form` yields at p"""
    return _fval(B.arr, to_int(p), _nm(form), *_cfg(structs))


@_native
def form_end(I, B, p, form, structs):
    """position after the operand of `form` that starts at p"""
    return _fend(B.arr, to_int(p), _nm(form), *_cfg(structs))


@_native
def uleb_val(I, B, p):
    return _uval(B.arr, to_int(p))


@_native
def uleb_next(I, B, p):
    return _uend(B.arr, to_int(p))


def _unfold_iq(t):
    arr, p, k = t.arg(0), t.arg(1), t.arg(2)
    return [_iq(arr, p, 0) == p, z3.Implies(k >= 1, t == _uend(arr, _iq(arr, p, k - 1)))]


register_recdef('indirect.q', _unfold_iq, forward=True)


@_native
def ind_q(I, B, p, k):
    """position of the k-th form code of an indirection chain that starts at p: codes are adjacent ULEB128 numbers"""
    return _iq(B.arr, to_int(p), to_int(k))


def form_name_of(code):
    """name of a form code (7.5.6): the library's DW_FORM_raw2name, itself checked against the registries (C17)"""
    from elftools.dwarf.enums import ENUM_DW_FORM
    items = [(v, k) for k, v in ENUM_DW_FORM.items() if k != '_default_']
    term = z3.StringVal('')
    for v, k in items:
        term = z3.If(code == v, z3.StringVal(k), term)
    return term


@_native
def form_name(I, code):
    return form_name_of(to_int(code))
