"""ARM EHABI unwind byte-code (IHI 0038, section 9.3 'Frame unwinding instructions'), transcribed
as a decoder independent of the library: for a byte array, the list of (bytes consumed, operation).
Operations are structured (kind, operand); the text is format(template, operands) with the templates
of LLVM's ARMEHABIPrinter quoted in the library's source."""

GPR = ("r0", "r1", "r2", "r3", "r4", "r5", "r6", "r7", "r8", "r9", "r10", "fp", "ip", "sp", "lr", "pc")


def _regs(mask, names=None, prefix=None):
    hits = []
    for i in range(32):
        if (mask >> i) & 1:
            hits.append(names[i] if names else prefix + str(i))
    return '{%s}' % ', '.join(hits)


def _range(start, count):
    """registers start .. start+count"""
    m = 0
    for i in range(start, start + count + 1):
        m |= 1 << i
    return m


def decode_one(code, i):
    """(length, text) of the instruction starting at code[i]; IndexError when truncated"""
    b = code[i]
    if b >> 6 == 0b00:
        return 1, 'vsp = vsp + %u' % (((b & 0x3f) << 2) + 4)
    if b >> 6 == 0b01:
        return 1, 'vsp = vsp - %u' % (((b & 0x3f) << 2) + 4)
    if b >> 4 == 0b1000:
        mask = ((b & 0x0f) << 12) | (code[i + 1] << 4)          # r4..r15
        return 2, ('refuse to unwind' if mask == 0 else 'pop %s' % _regs(mask, GPR))
    if b == 0x9d:
        return 1, 'reserved (ARM MOVrr)'
    if b == 0x9f:
        return 1, 'reserved (WiMMX MOVrr)'
    if b >> 4 == 0b1001:
        return 1, 'vsp = r%u' % (b & 0x0f)
    if b >> 3 == 0b10100:
        return 1, 'pop %s' % _regs(_range(4, b & 7), GPR)
    if b >> 3 == 0b10101:
        return 1, 'pop %s' % _regs(_range(4, b & 7) | (1 << 14), GPR)
    if b == 0xb0:
        return 1, 'finish'
    if b == 0xb1:
        op = code[i + 1]
        if op & 0xf0 or op == 0:
            return 2, 'spare'
        return 2, 'pop %s' % _regs(op & 0x0f, GPR)
    if b == 0xb2:
        # vsp = vsp + 0x204 + (uleb128 << 2); the operand is a standard ULEB128
        v, sh, n = 0, 0, 1
        while True:
            x = code[i + n]
            n += 1
            v |= (x & 0x7f) << sh
            sh += 7
            if not x & 0x80:
                break
        return n, 'vsp = vsp + %u' % (0x204 + (v << 2))
    if b == 0xb3:
        op = code[i + 1]
        return 2, 'pop %s' % _regs(_range(op >> 4, op & 0x0f), prefix='d')
    if b >> 2 == 0b101101:
        return 1, 'spare'
    if b >> 3 == 0b10111:
        return 1, 'pop %s' % _regs(_range(8, b & 7), prefix='d')
    if b == 0xc6:
        op = code[i + 1]
        return 2, 'pop %s' % _regs(_range(op >> 4, op & 0x0f), prefix='wR')
    if b == 0xc7:
        op = code[i + 1]
        if op & 0xf0 or op == 0:
            return 2, 'spare'
        return 2, 'pop %s' % _regs(op & 0x0f, prefix='wCGR')
    if b == 0xc8:
        op = code[i + 1]
        return 2, 'pop %s' % _regs(_range(16 + (op >> 4), op & 0x0f), prefix='d')
    if b == 0xc9:
        op = code[i + 1]
        return 2, 'pop %s' % _regs(_range(op >> 4, op & 0x0f), prefix='d')
    if b >> 3 == 0b11001:          # 11001yyy, yyy != 000, 001
        return 1, 'spare'
    if b >> 3 == 0b11000:          # 11000nnn, nnn != 110, 111
        return 1, 'pop %s' % _regs(_range(10, b & 7), prefix='wR')
    if b >> 3 == 0b11010:
        return 1, 'pop %s' % _regs(_range(8, b & 7), prefix='d')
    return 1, 'spare'              # 11xxxyyy


def decode(code):
    out, i = [], 0
    while i < len(code):
        n, text = decode_one(code, i)
        if i + n > len(code):
            raise IndexError('truncated instruction')
        out.append((list(code[i:i + n]), text))
        i += n
    return out
