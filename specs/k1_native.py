"""Native (CPython) side of the abstract layouts: the configuration of the run
is published here by pyvc.native before the executable contract is evaluated."""
from specs.elf_layouts import layouts

CFG = dict(little_endian=True, elfclass=64, e_type='ET_EXEC', e_machine='EM_NONE', osabi='ELFOSABI_SYSV')


def set_cfg_from(obj):
    """find an ELFStructs-like object among the arguments and adopt its configuration"""
    seen = set()

    def walk(v, d=0):
        if id(v) in seen or d > 4:
            return False
        seen.add(id(v))
        if type(v).__name__ == 'ELFStructs':
            CFG.update(little_endian=v.little_endian, elfclass=v.elfclass,
                       e_type=v.e_type or 'ET_EXEC', e_machine=v.e_machine or 'EM_NONE',
                       osabi=v.e_ident_osabi or 'ELFOSABI_SYSV')
            return True
        dd = getattr(v, '__dict__', None)
        if isinstance(dd, dict):
            for x in dd.values():
                if walk(x, d + 1):
                    return True
        return False
    for a in obj:
        if walk(a):
            return True
    return False


def current_cfg_layout(name):
    L, P = layouts(CFG['little_endian'], CFG['elfclass'], CFG['e_type'], CFG['e_machine'], CFG['osabi'])
    return L[name] if name in L else P[name]


def parsed(name, B, pos):
    from specs import sem
    v, _ = sem.decode(current_cfg_layout(name), B, pos, None)
    return v
