"""Specification helpers for DWARF expression parsing (7.7): the k-th operation starts where the operands of the
previous one end; operand extents come from the (separately decided) operand parser of each opcode."""
import z3
from pyvc.vals import to_int, ArrS, IntS
from pyvc.verify import register_recdef


def _native(f):
    f._native = True
    return f


_end = z3.Function('dw_op.end', ArrS, IntS, IntS, IntS)
_args = z3.Function('dw_op.args', ArrS, IntS, IntS, IntS)
_off = z3.Function('op_off', ArrS, IntS, IntS)


def _unfold(t):
    arr, k = t.arg(0), t.arg(1)
    prev = _off(arr, k - 1)
    return [_off(arr, 0) == 0, z3.Implies(k >= 1, t == _end(arr, prev + 1, z3.Select(arr, prev)))]


register_recdef('op_off', _unfold, forward=True)


@_native
def op_off(I, B, k):
    """offset of the k-th operation: the opcode byte, then the operands the opcode's parser reads"""
    return _off(B.arr, to_int(k))


@_native
def op_args(I, B, o):
    """operand list of the operation whose opcode byte is at o (abstract handle, see the dispatch-table obligations)"""
    return _args(B.arr, to_int(o) + 1, z3.Select(B.arr, to_int(o)))
