"""Call-frame instruction decoding (DWARF v5 6.4.2, 7.24; GNU extensions 0x2d/0x2e), one instruction: operand
count, operand values and the offset of the next instruction as functions of the bytes.  Operand kinds are the
transcription of the standard's table (the same table specs/cfi_spec.py encodes from): high two bits select the
three primary opcodes whose first operand is the low six bits; otherwise the byte is an extended opcode.
Written in the Python subset and evaluated symbolically; operand accessors are the abstract primitives shared
with the parser side (u8/u16/u32, ULEB128, SLEB128, address-sized word, DW_FORM_block)."""
from specs.lineprog import op8, U, UE, SV, u16, taddr
from specs.dieparse import form_val, form_end
import z3
from pyvc.vals import to_int, ArrS, IntS


def _native(f):
    f._native = True
    return f


@_native
def u32(I, B, p):
    return z3.Function('Dwarf_uint32', ArrS, IntS, IntS)(B.arr, to_int(p))


# extended opcodes by operand kinds (6.4.2)
NOARGS = (0x00, 0x0a, 0x0b, 0x2d)                    # nop, remember_state, restore_state, GNU_window_save / AARCH64_negate_ra_state
ONE_ULEB = (0x06, 0x07, 0x08, 0x0d, 0x0e, 0x2e)      # restore_extended, undefined, same_value, def_cfa_register, def_cfa_offset, GNU_args_size
TWO_ULEB = (0x05, 0x09, 0x0c, 0x14)                  # offset_extended, register, def_cfa, val_offset
ULEB_SLEB = (0x11, 0x12, 0x15)                       # offset_extended_sf, def_cfa_sf, val_offset_sf
ULEB_BLOCK = (0x10, 0x16)                            # expression, val_expression


def primary(B, o):
    return op8(B, o) // 64


def low6(B, o):
    return op8(B, o) % 64


def ext(B, o):
    return op8(B, o) if primary(B, o) == 0 else -1


def known(B, o):
    return primary(B, o) != 0 or ext(B, o) in NOARGS or ext(B, o) in ONE_ULEB or ext(B, o) in TWO_ULEB or ext(B, o) in ULEB_SLEB \
        or ext(B, o) in ULEB_BLOCK or ext(B, o) in (0x01, 0x02, 0x03, 0x04, 0x13, 0x0f)


def nargs(B, o):
    return (1 if (primary(B, o) == 1 or primary(B, o) == 3) else
            2 if primary(B, o) == 2 else
            0 if ext(B, o) in NOARGS else
            2 if (ext(B, o) in TWO_ULEB or ext(B, o) in ULEB_SLEB or ext(B, o) in ULEB_BLOCK) else 1)


def arg0(B, o, W, S):
    return (low6(B, o) if primary(B, o) != 0 else
            taddr(B, o + 1, W) if ext(B, o) == 0x01 else
            op8(B, o + 1) if ext(B, o) == 0x02 else
            u16(B, o + 1) if ext(B, o) == 0x03 else
            u32(B, o + 1) if ext(B, o) == 0x04 else
            SV(B, o + 1) if ext(B, o) == 0x13 else
            form_val(B, o + 1, 'DW_FORM_block', S) if ext(B, o) == 0x0f else
            U(B, o + 1))


def arg1(B, o, W, S):
    return (U(B, o + 1) if primary(B, o) == 2 else
            U(B, UE(B, o + 1)) if ext(B, o) in TWO_ULEB else
            SV(B, UE(B, o + 1)) if ext(B, o) in ULEB_SLEB else
            form_val(B, UE(B, o + 1), 'DW_FORM_block', S))


def next_off(B, o, W, S):
    return (o + 1 if (primary(B, o) == 1 or primary(B, o) == 3 or ext(B, o) in NOARGS) else
            UE(B, o + 1) if primary(B, o) == 2 else
            o + 1 + W if ext(B, o) == 0x01 else
            o + 2 if ext(B, o) == 0x02 else
            o + 3 if ext(B, o) == 0x03 else
            o + 5 if ext(B, o) == 0x04 else
            form_end(B, o + 1, 'DW_FORM_block', S) if ext(B, o) == 0x0f else
            UE(B, UE(B, o + 1)) if (ext(B, o) in TWO_ULEB or ext(B, o) in ULEB_SLEB) else
            form_end(B, UE(B, o + 1), 'DW_FORM_block', S) if ext(B, o) in ULEB_BLOCK else
            UE(B, o + 1))
