"""Call-frame instruction decoding (DWARF v5 6.4.2, 7.24; GNU extensions 0x2d/0x2e), one instruction: operand
count, operand values and the offset of the next instruction as functions of the bytes.  Operand kinds are the
transcription of the standard's table (the same table specs/cfi_spec.py encodes from): high two bits select the
three primary opcodes whose first operand is the low six bits; otherwise the byte is an extended opcode.
Written in the Python subset and evaluated symbolically; operand accessors are the abstract primitives shared
with the parser side (u8/u16/u32, ULEB128, SLEB128, address-sized word, DW_FORM_block)."""
from specs.lineprog import op8, U, UE, SV, u16, taddr
from specs.dieparse import form_val, form_end
import z3
from pyvc.vals import to_int, ArrS, IntS


def _native(f):
    f._native = True
    return f


@_native
def u32(I, B, p):
    return z3.Function('Dwarf_uint32', ArrS, IntS, IntS)(B.arr, to_int(p))


# extended opcodes by operand kinds (6.4.2)
NOARGS = (0x00, 0x0a, 0x0b, 0x2d)                    # nop, remember_state, restore_state, GNU_window_save / AARCH64_negate_ra_state
ONE_ULEB = (0x06, 0x07, 0x08, 0x0d, 0x0e, 0x2e)      # restore_extended, undefined, same_value, def_cfa_register, def_cfa_offset, GNU_args_size
TWO_ULEB = (0x05, 0x09, 0x0c, 0x14)                  # offset_extended, register, def_cfa, val_offset
ULEB_SLEB = (0x11, 0x12, 0x15)                       # offset_extended_sf, def_cfa_sf, val_offset_sf
ULEB_BLOCK = (0x10, 0x16)                            # expression, val_expression


def primary(B, o):
    return op8(B, o) // 64


def low6(B, o):
    return op8(B, o) % 64


def ext(B, o):
    return op8(B, o) if primary(B, o) == 0 else -1


def known(B, o):
    return primary(B, o) != 0 or ext(B, o) in NOARGS or ext(B, o) in ONE_ULEB or ext(B, o) in TWO_ULEB or ext(B, o) in ULEB_SLEB \
        or ext(B, o) in ULEB_BLOCK or ext(B, o) in (0x01, 0x02, 0x03, 0x04, 0x13, 0x0f)


def nargs(B, o):
    return (1 if (primary(B, o) == 1 or primary(B, o) == 3) else
            2 if primary(B, o) == 2 else
            0 if ext(B, o) in NOARGS else
            2 if (ext(B, o) in TWO_ULEB or ext(B, o) in ULEB_SLEB or ext(B, o) in ULEB_BLOCK) else 1)


def set_loc_arg(B, o, W, E, A):
    """operand of DW_CFA_set_loc at o: a target address; in the FDEs of .eh_frame (E = the FDE pointer encoding of the CIE,
    A = section address) a pointer in that encoding, relative to the operand's own address under the pcrel modifier"""
    return (taddr(B, o + 1, W) if E is None else
            pe_val(B, o + 1, E % 16, W) + ((A + o + 1) if E // 16 == 1 else 0))


def arg0(B, o, W, S, E=None, A=0):
    return (low6(B, o) if primary(B, o) != 0 else
            set_loc_arg(B, o, W, E, A) if ext(B, o) == 0x01 else
            op8(B, o + 1) if ext(B, o) == 0x02 else
            u16(B, o + 1) if ext(B, o) == 0x03 else
            u32(B, o + 1) if ext(B, o) == 0x04 else
            SV(B, o + 1) if ext(B, o) == 0x13 else
            form_val(B, o + 1, 'DW_FORM_block', S) if ext(B, o) == 0x0f else
            U(B, o + 1))


def arg1(B, o, W, S):
    return (U(B, o + 1) if primary(B, o) == 2 else
            U(B, UE(B, o + 1)) if ext(B, o) in TWO_ULEB else
            SV(B, UE(B, o + 1)) if ext(B, o) in ULEB_SLEB else
            form_val(B, UE(B, o + 1), 'DW_FORM_block', S))


def next_off(B, o, W, S, E=None):
    return (o + 1 if (primary(B, o) == 1 or primary(B, o) == 3 or ext(B, o) in NOARGS) else
            UE(B, o + 1) if primary(B, o) == 2 else
            (o + 1 + W if E is None else pe_end(B, o + 1, E % 16, W)) if ext(B, o) == 0x01 else
            o + 2 if ext(B, o) == 0x02 else
            o + 3 if ext(B, o) == 0x03 else
            o + 5 if ext(B, o) == 0x04 else
            form_end(B, o + 1, 'DW_FORM_block', S) if ext(B, o) == 0x0f else
            UE(B, UE(B, o + 1)) if (ext(B, o) in TWO_ULEB or ext(B, o) in ULEB_SLEB) else
            form_end(B, UE(B, o + 1), 'DW_FORM_block', S) if ext(B, o) in ULEB_BLOCK else
            UE(B, o + 1))


# ---------------------------------------------------------------- .eh_frame pointer encodings (LSB 10.5.1)
from pyvc.vals import BoolS

_W = z3.Function('Dwarf_word', ArrS, IntS, IntS, IntS)
_FIX = {n: z3.Function(n, ArrS, IntS, IntS) for n in ('Dwarf_uint16', 'Dwarf_uint32', 'Dwarf_uint64', 'Dwarf_int16', 'Dwarf_int32',
                                                       'Dwarf_int64')}
_ULEB, _SLEB, _LEBEND = (z3.Function('leb.u.val', ArrS, IntS, IntS), z3.Function('leb.s.val', ArrS, IntS, IntS),
                         z3.Function('leb.end', ArrS, IntS, IntS))
# DW_EH_PE basic encodings: value format (low four bits of the encoding byte)
PE_FIXED = {0x02: ('Dwarf_uint16', 2), 0x03: ('Dwarf_uint32', 4), 0x04: ('Dwarf_uint64', 8),
            0x0a: ('Dwarf_int16', 2), 0x0b: ('Dwarf_int32', 4), 0x0c: ('Dwarf_int64', 8)}


@_native
def pe_known(I, basic):
    """the basic encoding is one of absptr, uleb128, udata2/4/8, sleb128, sdata2/4/8"""
    b = to_int(basic)
    return z3.Or(*[b == k for k in (0x00, 0x01, 0x09) + tuple(PE_FIXED)])


@_native
def pe_val(I, B, p, basic, asz):
    """the value a pointer of the given basic encoding holds at position p: an address-sized word (absptr), an
    unsigned / signed LEB128 number, or an unsigned / signed 2-, 4- or 8-byte word"""
    arr, p, b, a = B.arr, to_int(p), to_int(basic), to_int(asz)
    v = _W(arr, p, a)
    v = z3.If(b == 0x01, _ULEB(arr, p), z3.If(b == 0x09, _SLEB(arr, p), v))
    for k, (n, _sz) in PE_FIXED.items():
        v = z3.If(b == k, _FIX[n](arr, p), v)
    return v


@_native
def pe_end(I, B, p, basic, asz):
    """the position following a pointer of the given basic encoding at p"""
    arr, p, b, a = B.arr, to_int(p), to_int(basic), to_int(asz)
    e = p + a
    e = z3.If(z3.Or(b == 0x01, b == 0x09), _LEBEND(arr, p), e)
    for k, (_n, sz) in PE_FIXED.items():
        e = z3.If(b == k, p + sz, e)
    return e


@_native
def il_val(I, B, p):
    """value of the initial length at p (7.4): the first word, or the following 8-byte word after the 0xffffffff escape"""
    w = z3.Function('Dwarf_uint32', ArrS, IntS, IntS)(B.arr, to_int(p))
    return z3.If(w == 0xffffffff, z3.Function('Dwarf_uint64', ArrS, IntS, IntS)(B.arr, to_int(p) + 4), w)


@_native
def il_size(I, B, p):
    w = z3.Function('Dwarf_uint32', ArrS, IntS, IntS)(B.arr, to_int(p))
    return z3.If(w == 0xffffffff, 12, 4)


@_native
def sized_word(I, B, p, size):
    """format- or address-sized unsigned word at p"""
    return _W(B.arr, to_int(p), to_int(size))


@_native
def fde_leaf(I, B, off, name):
    """member `name` of the fixed .debug_frame FDE header (Dwarf_FDE_header: length, CIE_pointer, initial_location,
    address_range; tied to 6.4.1 by its K2 obligation) whose initial length starts at off"""
    return z3.Function('Dwarf_FDE_header.%s' % name, ArrS, IntS, IntS)(B.arr, to_int(off))


@_native
def cie_leaf(I, B, off, eh, name):
    """member `name` of the CIE header (6.4.1 / LSB 10.6.1.1; K2 ties the construct to the layout) starting at off"""
    from pyvc.vals import to_bool
    a = z3.Function('EH_CIE_header.%s' % name, ArrS, IntS, IntS)(B.arr, to_int(off))
    b = z3.Function('Dwarf_CIE_header.%s' % name, ArrS, IntS, IntS)(B.arr, to_int(off))
    e = to_bool(eh)
    if isinstance(e, bool):
        return a if e else b
    return z3.If(e, a, b)


@_native
def cls_is(I, obj, name):
    """the object is an instance of exactly the named class"""
    return getattr(obj, 'cls', None) == name
