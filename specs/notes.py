"""Specification of the note walk (gABI, 'Note Section')."""
import z3
from pyvc.vals import to_int, IntS, ArrS, SRec
from pyvc.verify import register_recdef
from pyvc.calls import UFMaker, LAYOUTS


def ru4(n):
    """padding of name and descriptor sizes to 4 bytes"""
    return ((n + 3) // 4) * 4


def _native(f):
    f._native = True
    return f


@_native
def nhdr(I, B, o):
    """the decoded note header at offset o (abstract Elf_Nhdr layout; K2 ties it to the bytes)"""
    arr = B.arr if hasattr(B, 'arr') else B
    mk = UFMaker(I.ctx, arr, to_int(o), 'Elf_Nhdr')
    lay = LAYOUTS['Elf_Nhdr']
    return SRec({k: s.make(mk, 'Elf_Nhdr.%s' % k) for k, s in lay.fields.items()})


_note_off = z3.Function('note_off', ArrS, IntS, IntS, IntS)
_namesz = z3.Function('Elf_Nhdr.n_namesz', ArrS, IntS, IntS)
_descsz = z3.Function('Elf_Nhdr.n_descsz', ArrS, IntS, IntS)


@_native
def note_off(I, B, o0, k):
    arr = B.arr if hasattr(B, 'arr') else B
    return _note_off(arr, to_int(o0), to_int(k))


def _ru4(t):
    return ((t + 3) / 4) * 4


def _unfold(t):
    arr, o0, k = t.arg(0), t.arg(1), t.arg(2)
    f = _note_off
    prev = f(arr, o0, k - 1)
    return [f(arr, o0, 0) == o0,
            z3.Implies(k >= 1, f(arr, o0, k) == prev + 12 + _ru4(_namesz(arr, prev)) + _ru4(_descsz(arr, prev)))]


register_recdef('note_off', _unfold)


# native (CPython) versions for replay / cross-check
def _nhdr_py(B, o):
    from specs import sem
    from specs.k1_native import current_cfg_layout
    nf = current_cfg_layout('Elf_Nhdr')
    v, _ = sem.decode(nf, B, o, None)
    return v


def _note_off_py(B, o0, k):
    o = o0
    for _ in range(k):
        h = _nhdr_py(B, o)
        o = o + 12 + ru4(h['n_namesz']) + ru4(h['n_descsz'])
    return o


nhdr.py = _nhdr_py
note_off.py = _note_off_py
