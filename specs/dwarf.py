"""Specification helpers for the DWARF side."""
import z3
from pyvc import shapes as S
from pyvc.vals import to_int, ArrS, IntS, BoolS

SecT = S.Rec('DebugSectionDescriptor', stream=S.Stream, name=S.Str, global_offset=S.Nat, size=S.Nat, address=S.Nat)
CUHeaderT = S.Rec(unit_length=S.Nat, version=S.U16, debug_abbrev_offset=S.Nat, address_size=S.U8)
StructsT = S.StructsT('DWARFStructs', little_endian=S.Bool, dwarf_format=S.Choice(32, 64), address_size=S.Choice(4, 8), dwarf_version=S.U16)  # DWARFStructs.__init__ asserts the address size
CUT = S.Obj('CompileUnit', cu_offset=S.Nat, cu_die_offset=S.Nat, header=CUHeaderT, structs=StructsT)


def _native(f):
    f._native = True
    return f


def _leaf(n):
    return z3.Function('Dwarf_CU_header.' + n, ArrS, IntS, IntS)


# the observable fields of the unit whose header starts at an offset: the leaves of the K1 layout of
# Dwarf_CU_header (K2 ties the real construct tree to the 7.5.1 layout), the end of the header, and the
# format announced by the first word (7.4)
_F = {n: _leaf(n) for n in ('unit_length', 'version', 'debug_abbrev_offset', 'address_size')}
_F['die_offset'] = z3.Function('end!Dwarf_CU_header', ArrS, IntS, IntS)
_first = z3.Function('Dwarf_uint32', ArrS, IntS, IntS)
_F['format'] = lambda arr, o: z3.If(_first(arr, o) == 0xFFFFFFFF, 64, 32)


@_native
def cu_at(I, cu, B, off):
    """cu is the unit whose header starts at off: every observable field is the function of
    (section bytes, offset) that a fresh parse computes"""
    arr, o = B.arr, to_int(off)
    h = cu.attrs['header'].fields
    return z3.And(to_int(cu.attrs['cu_offset']) == o,
                  to_int(cu.attrs['cu_die_offset']) == _F['die_offset'](arr, o),
                  to_int(cu.attrs['structs'].attrs['dwarf_format']) == _F['format'](arr, o),
                  to_int(cu.attrs['structs'].attrs['dwarf_version']) == _F['version'](arr, o),
                  to_int(cu.attrs['structs'].attrs['address_size']) == _F['address_size'](arr, o),
                  *[to_int(h[k]) == _F[k](arr, o) for k in ('unit_length', 'version', 'debug_abbrev_offset', 'address_size')])


# version 4 type units (.debug_types): the leaves of the K1 layout of Dwarf_TU_header
_T = {n: z3.Function('Dwarf_TU_header.' + n, ArrS, IntS, IntS)
      for n in ('unit_length', 'version', 'debug_abbrev_offset', 'address_size', 'signature', 'type_offset')}
_T['die_offset'] = z3.Function('end!Dwarf_TU_header', ArrS, IntS, IntS)
_T['format'] = _F['format']


@_native
def tu_at(I, tu, B, off):
    """tu is the type unit whose header starts at off in .debug_types: every observable field is the function of
    (section bytes, offset) that a fresh parse computes"""
    arr, o = B.arr, to_int(off)
    h = tu.attrs['header'].fields
    return z3.And(to_int(tu.attrs['tu_offset']) == o,
                  to_int(tu.attrs['tu_die_offset']) == _T['die_offset'](arr, o),
                  to_int(tu.attrs['structs'].attrs['dwarf_format']) == _T['format'](arr, o),
                  to_int(tu.attrs['structs'].attrs['dwarf_version']) == _T['version'](arr, o),
                  to_int(tu.attrs['structs'].attrs['address_size']) == _T['address_size'](arr, o),
                  *[to_int(h[k]) == _T[k](arr, o) for k in ('unit_length', 'version', 'debug_abbrev_offset', 'address_size',
                                                           'signature', 'type_offset')])


_tuoff = z3.Function('tunit_off', ArrS, IntS, IntS, IntS)


@_native
def tunit_off(I, B, start, k):
    """offset of the k-th type unit from `start` in .debug_types: next = this + unit_length + initial length size"""
    return _tuoff(B.arr, to_int(start), to_int(k))


def _unfold_tuoff(t):
    arr, s0, k = t.arg(0), t.arg(1), t.arg(2)
    prev = _tuoff(arr, s0, k - 1)
    return [_tuoff(arr, s0, 0) == s0,
            z3.Implies(k >= 1, t == prev + _T['unit_length'](arr, prev) + z3.If(_T['format'](arr, prev) == 32, 4, 12))]


_uoff = z3.Function('unit_off', ArrS, IntS, IntS, IntS)


@_native
def unit_off(I, B, start, k):
    """offset of the k-th unit from `start`: next = this + unit_length + size of the initial length field"""
    return _uoff(B.arr, to_int(start), to_int(k))


def _unfold_uoff(t):
    arr, s0, k = t.arg(0), t.arg(1), t.arg(2)
    prev = _uoff(arr, s0, k - 1)
    return [_uoff(arr, s0, 0) == s0,
            z3.Implies(k >= 1, t == prev + _F['unit_length'](arr, prev) + z3.If(_F['format'](arr, prev) == 32, 4, 12))]


from pyvc.verify import register_recdef
register_recdef('unit_off', _unfold_uoff)
register_recdef('tunit_off', _unfold_tuoff)


@_native
def tuple_word(I, B, o, size, little):
    """address-sized word of an aranges tuple"""
    f4 = z3.Function('Dwarf_uint32', ArrS, IntS, IntS)
    f8 = z3.Function('Dwarf_uint64', ArrS, IntS, IntS)
    sz = to_int(size)
    return z3.If(sz == 4, f4(B.arr, to_int(o)), f8(B.arr, to_int(o)))


@_native
def types_wellformed(I, B):
    """well-formedness of .debug_types used by the lookup of a type entry: in every type unit header the type_offset
    designates a position at or after the unit's first entry"""
    o = z3.Int('o!twf')
    return z3.ForAll([o], _T['type_offset'](B.arr, o) + o >= _T['die_offset'](B.arr, o))
