"""Specification of the debugging-information-entry tree (DWARF v5 2.3, 7.5.3): every observable of
the entry at an offset is a function of (section bytes, unit offset, entry offset); the tree
structure is defined from entry sizes, child flags and null entries only (never from DW_AT_sibling)."""
import z3
from pyvc.vals import to_int, to_str, ArrS, IntS, BoolS, StrS, SRec, SObj, Code
from pyvc.verify import register_recdef


def _native(f):
    f._native = True
    return f


def _f(name, *sorts):
    return z3.Function('die.' + name, *sorts)


D_size = _f('size', ArrS, IntS, IntS, IntS)
_leb_u = z3.Function('leb.u.val', ArrS, IntS, IntS)


def D_code(arr, cuo, off):
    """abbreviation code of the entry at off: the ULEB128 number there (7.5.2), as DIE._parse_DIE is proved to read it"""
    return _leb_u(arr, off)
D_kids = _f('has_children', ArrS, IntS, IntS, BoolS)
D_tag_isname = _f('tag.isname', ArrS, IntS, IntS, BoolS)
D_tag_name = _f('tag.name', ArrS, IntS, IntS, StrS)
D_tag_raw = _f('tag.raw', ArrS, IntS, IntS, IntS)
A_has = _f('attr.has', ArrS, IntS, IntS, StrS, BoolS)
A_form = _f('attr.form', ArrS, IntS, IntS, StrS, StrS)
A_value = _f('attr.value', ArrS, IntS, IntS, StrS, IntS)
A_raw = _f('attr.raw', ArrS, IntS, IntS, StrS, IntS)
_child = _f('child', ArrS, IntS, IntS, IntS, IntS)
_nk = _f('nchildren', ArrS, IntS, IntS, IntS)

NAMES_OF_INTEREST = ('DW_AT_sibling', 'DW_AT_stmt_list', 'DW_AT_rnglists_base', 'DW_AT_loclists_base', 'DW_AT_str_offsets_base',
                     'DW_AT_addr_base', 'DW_AT_import')
REF_FORMS = ('DW_FORM_ref1', 'DW_FORM_ref2', 'DW_FORM_ref4', 'DW_FORM_ref8', 'DW_FORM_ref', 'DW_FORM_ref_udata')


def _ctx(cu):
    """(section bytes, unit offset) of a unit object"""
    if cu.cls == 'TypeUnit':
        # a version 4 type unit: the same entry encoding, read from .debug_types at the unit's offset there
        sec = cu.attrs['dwarfinfo'].attrs['debug_types_sec']
        return sec.fields['stream'].arr, to_int(cu.attrs['tu_offset'])
    sec = cu.attrs['dwarfinfo'].attrs['debug_info_sec']
    return sec.fields['stream'].arr, to_int(cu.attrs['cu_offset'])


def null_at(arr, cuo, off):
    return D_code(arr, cuo, off) == 0


def term_of(arr, cuo, off):
    """offset of the null entry closing the children list of the entry at off"""
    return _child(arr, cuo, off, _nk(arr, cuo, off))


def subtree_end_of(arr, cuo, off):
    t = term_of(arr, cuo, off)
    return z3.If(D_kids(arr, cuo, off), t + D_size(arr, cuo, t), off + D_size(arr, cuo, off))


def _unfold_child(t):
    arr, cuo, off, k = t.arg(0), t.arg(1), t.arg(2), t.arg(3)
    prev = _child(arr, cuo, off, k - 1)
    return [_child(arr, cuo, off, 0) == off + D_size(arr, cuo, off),
            z3.Implies(k >= 1, t == subtree_end_of(arr, cuo, prev))]


register_recdef('die.child', _unfold_child, forward=True)


@_native
def child_off(I, cu, off, k):
    """offset of the k-th child of the entry at off: the first child follows its parent, each next
    one follows the whole subtree of the previous"""
    arr, cuo = _ctx(cu)
    return _child(arr, cuo, to_int(off), to_int(k))


@_native
def is_null_at(I, cu, off):
    arr, cuo = _ctx(cu)
    return null_at(arr, cuo, to_int(off))


@_native
def term_off(I, cu, off):
    arr, cuo = _ctx(cu)
    return term_of(arr, cuo, to_int(off))


@_native
def subtree_end(I, cu, off):
    arr, cuo = _ctx(cu)
    return subtree_end_of(arr, cuo, to_int(off))


@_native
def nchildren_def(I, cu, off):
    """definition of the number of children (the least index whose entry is null), stated for the
    lists that have a null entry at all: conservative extension, no claim for unterminated lists"""
    arr, cuo = _ctx(cu)
    off = to_int(off)
    k, j = z3.Int('k!nk'), z3.Int('j!nk')
    n = _nk(arr, cuo, off)
    return z3.ForAll([k], z3.Implies(z3.And(k >= 0, null_at(arr, cuo, _child(arr, cuo, off, k))),
                                     z3.And(n >= 0, n <= k, null_at(arr, cuo, _child(arr, cuo, off, n)),
                                            z3.ForAll([j], z3.Implies(z3.And(j >= 0, j < n),
                                                                      z3.Not(null_at(arr, cuo, _child(arr, cuo, off, j))))))),
                     patterns=[_child(arr, cuo, off, k)])


@_native
def size_at(I, cu, off):
    arr, cuo = _ctx(cu)
    return D_size(arr, cuo, to_int(off))


@_native
def has_children_at(I, cu, off):
    arr, cuo = _ctx(cu)
    return D_kids(arr, cuo, to_int(off))


@_native
def attr_has(I, cu, off, name):
    arr, cuo = _ctx(cu)
    return A_has(arr, cuo, to_int(off), to_str(name))


@_native
def attr_form(I, cu, off, name):
    arr, cuo = _ctx(cu)
    return A_form(arr, cuo, to_int(off), to_str(name))


@_native
def attr_value(I, cu, off, name):
    arr, cuo = _ctx(cu)
    return A_value(arr, cuo, to_int(off), to_str(name))


@_native
def attr_raw(I, cu, off, name):
    arr, cuo = _ctx(cu)
    return A_raw(arr, cuo, to_int(off), to_str(name))


@_native
def die_at(I, die, cu, off):
    """die is the entry of unit cu at offset off: offset, size, abbreviation code, tag, child flag and
    the attributes (presence, final form, raw and resolved value) are the functions of
    (section bytes, unit, offset) a fresh parse computes; a recorded terminator is the null entry
    closing the children list"""
    if die is None:
        return False
    arr, cuo = _ctx(cu)
    off = to_int(off)
    a = die.attrs
    cs = [to_int(a['offset']) == off, to_int(a['size']) == D_size(arr, cuo, off), to_int(a['size']) >= 1,
          to_int(a['abbrev_code']) == D_code(arr, cuo, off)]
    isnull = null_at(arr, cuo, off)
    from pyvc.vals import SOpt, to_bool

    def opt(v):
        """(is None, value) of an optional component"""
        if isinstance(v, SOpt):
            return v.isnone, v.val
        return (v is None), v
    tn, tag = opt(a['tag'])
    kn, kids = opt(a['has_children'])
    cs.append(to_bool(tn) == isnull)
    cs.append(to_bool(kn) == isnull)
    if tag is not None:
        cs.append(z3.Implies(z3.Not(isnull), z3.And(tag.isname == D_tag_isname(arr, cuo, off), tag.name == D_tag_name(arr, cuo, off),
                                                     tag.raw == D_tag_raw(arr, cuo, off))))
    if kids is not None:
        cs.append(z3.Implies(z3.Not(isnull), to_bool(kids) == D_kids(arr, cuo, off)))
    attrs = a['attributes']
    for n in NAMES_OF_INTEREST:
        has = attrs.has(n)
        v = attrs.get(n)
        cs.append(has == A_has(arr, cuo, off, z3.StringVal(n)))
        cs.append(z3.Implies(has, z3.And(to_str(v.fields['form']) == A_form(arr, cuo, off, z3.StringVal(n)),
                                         to_int(v.fields['value']) == A_value(arr, cuo, off, z3.StringVal(n)),
                                         to_int(v.fields['raw_value']) == A_raw(arr, cuo, off, z3.StringVal(n)))))
    cs.append(z3.Implies(isnull, z3.Not(D_kids(arr, cuo, off))))
    tnone, t = opt(a.get('_terminator'))
    if t is not None:
        to = term_of(arr, cuo, off)
        cs.append(z3.Implies(z3.Not(to_bool(tnone)),
                             z3.And(to_int(t.attrs['offset']) == to, to_int(t.attrs['size']) == D_size(arr, cuo, to),
                                    null_at(arr, cuo, to), D_kids(arr, cuo, off))))
    return z3.And(*cs)


@_native
def siblings_wellformed(I, cu):
    """well-formed input (2.3): a DW_AT_sibling attribute refers to the entry that follows the
    owner's subtree -- unit-relative in the ref1/2/4/8/udata forms, section-relative in ref_addr --
    and children follow their parent in the section"""
    arr, cuo = _ctx(cu)
    c = z3.Int('c!sib')
    sib = z3.StringVal('DW_AT_sibling')
    form = A_form(arr, cuo, c, sib)
    val = A_value(arr, cuo, c, sib)
    rel = z3.Or(*[form == z3.StringVal(f) for f in REF_FORMS])
    k = z3.Int('k!sib')
    return z3.And(
        z3.ForAll([c], z3.Implies(z3.And(A_has(arr, cuo, c, sib), D_kids(arr, cuo, c)),
                                  z3.And(z3.Implies(rel, val + cuo == subtree_end_of(arr, cuo, c)),
                                         z3.Implies(form == z3.StringVal('DW_FORM_ref_addr'), val == subtree_end_of(arr, cuo, c)))),
                  patterns=[A_has(arr, cuo, c, sib)]),
        # the encoded tree is laid out forwards: the children of an entry lie after it
        z3.ForAll([c, k], z3.Implies(k >= 0, _child(arr, cuo, c, k) > c), patterns=[_child(arr, cuo, c, k)]))


@_native
def unit_stream(I, cu):
    """the stream the unit's entries are read from: .debug_types for a version 4 type unit, else .debug_info"""
    sec = cu.attrs['dwarfinfo'].attrs['debug_types_sec' if cu.cls == 'TypeUnit' else 'debug_info_sec']
    return sec.fields['stream']


@_native
def unit_die_offset(I, cu):
    """section offset of the unit's root entry"""
    return cu.attrs['tu_die_offset' if cu.cls == 'TypeUnit' else 'cu_die_offset']


@_native
def has_top(I, cu):
    """the unit's root entry is already in the entry cache (reads the representation field: specification only)"""
    return to_int(cu.attrs['_diemap'].n) > 0
