"""Line-number programs: encoder (header versions 2-5, both DWARF formats) and the state machine
of DWARF v5 6.2.5 as an interpreter over the encoded instructions - the oracle of the bounded
differential for C05 (header tables, program extent, rows)."""
from specs.dwarf_ops import _uleb, _sleb


def machine(h, instrs):
    """rows produced by the instruction list [(kind, ...)] under header h (dict)"""
    def fresh():
        return dict(address=0, op_index=0, file=1, line=1, column=0, is_stmt=bool(h['default_is_stmt']), basic_block=False,
                    end_sequence=False, prologue_end=False, epilogue_begin=False, isa=0, discriminator=0)
    r = fresh()
    rows = []

    def advance(n):
        r['address'] += h['min_inst'] * ((r['op_index'] + n) // h['max_ops'])
        r['op_index'] = (r['op_index'] + n) % h['max_ops']

    def emit():
        rows.append(dict(r))
        r['discriminator'] = 0
        r['basic_block'] = r['prologue_end'] = r['epilogue_begin'] = False
    for ins in instrs:
        k = ins[0]
        if k == 'special':
            a = ins[1] - h['opcode_base']
            advance(a // h['line_range'])
            r['line'] += h['line_base'] + a % h['line_range']
            emit()
        elif k == 'copy':
            emit()
        elif k == 'advance_pc':
            advance(ins[1])
        elif k == 'advance_line':
            r['line'] += ins[1]
        elif k == 'set_file':
            r['file'] = ins[1]
        elif k == 'set_column':
            r['column'] = ins[1]
        elif k == 'negate_stmt':
            r['is_stmt'] = not r['is_stmt']
        elif k == 'set_basic_block':
            r['basic_block'] = True
        elif k == 'const_add_pc':
            advance((255 - h['opcode_base']) // h['line_range'])
        elif k == 'fixed_advance_pc':
            r['address'] += ins[1]
            r['op_index'] = 0
        elif k == 'set_prologue_end':
            r['prologue_end'] = True
        elif k == 'set_epilogue_begin':
            r['epilogue_begin'] = True
        elif k == 'set_isa':
            r['isa'] = ins[1]
        elif k == 'end_sequence':
            r['end_sequence'] = True
            emit()
            r = fresh()
        elif k == 'set_address':
            r['address'] = ins[1]
            r['op_index'] = 0
        elif k == 'set_discriminator':
            r['discriminator'] = ins[1]
        elif k in ('unknown_ext', 'unknown_std', 'define_file'):
            pass
    return rows


STD = {'copy': 1, 'advance_pc': 2, 'advance_line': 3, 'set_file': 4, 'set_column': 5, 'negate_stmt': 6, 'set_basic_block': 7,
       'const_add_pc': 8, 'fixed_advance_pc': 9, 'set_prologue_end': 10, 'set_epilogue_begin': 11, 'set_isa': 12}


def gen_program(rng, h, le, asz, n):
    bo = 'little' if le else 'big'
    raw, ins = b'', []
    kinds = ['special'] * 4 + list(STD) + ['end_sequence', 'set_address', 'set_discriminator', 'unknown_ext', 'define_file']
    if h['opcode_base'] > 13:
        kinds.append('unknown_std')
    if h['version'] >= 5:
        kinds.remove('define_file')       # DW_LNE_define_file is not part of DWARF v5
    std_ok = [k for k in STD if STD[k] < h['opcode_base']]
    for i in range(n):
        k = rng.choice(kinds)
        if k in STD and k not in std_ok:
            k = 'special'
        if k == 'special':
            op = rng.randrange(h['opcode_base'], 256)
            raw += bytes([op])
            ins.append(('special', op))
        elif k in ('copy', 'negate_stmt', 'set_basic_block', 'const_add_pc', 'set_prologue_end', 'set_epilogue_begin'):
            raw += bytes([STD[k]])
            ins.append((k,))
        elif k in ('advance_pc', 'set_file', 'set_column', 'set_isa'):
            v = rng.choice([0, 1, 3, 127, 128, 1000])
            raw += bytes([STD[k]]) + _uleb(v)
            ins.append((k, v))
        elif k == 'advance_line':
            v = rng.choice([0, 1, -1, 10, -10, 64, -65, 1000])
            raw += bytes([STD[k]]) + _sleb(v)
            ins.append((k, v))
        elif k == 'fixed_advance_pc':
            v = rng.randrange(0, 65536)
            raw += bytes([STD[k]]) + v.to_bytes(2, bo)
            ins.append((k, v))
        elif k == 'end_sequence':
            raw += bytes([0, 1, 1])
            ins.append((k,))
        elif k == 'set_address':
            v = rng.randrange(0, 1 << (8 * asz))
            raw += bytes([0]) + _uleb(1 + asz) + bytes([2]) + v.to_bytes(asz, bo)
            ins.append((k, v))
        elif k == 'set_discriminator':
            v = rng.choice([0, 1, 5, 200])
            body = _uleb(v)
            raw += bytes([0]) + _uleb(1 + len(body)) + bytes([4]) + body
            ins.append((k, v))
        elif k == 'define_file':
            body = b'f.c\x00' + _uleb(1) + _uleb(2) + _uleb(3)
            raw += bytes([0]) + _uleb(1 + len(body)) + bytes([3]) + body
            ins.append((k,))
        elif k == 'unknown_ext':
            # an unknown extended opcode is skipped by its length: short bodies, bodies that need a two-byte length, and
            # (legal) lengths written as padded ULEB128 numbers
            body = bytes(rng.randrange(256) for _ in range(rng.choice([0, 1, 2, 3, 4, 130, 200])))
            ln = _uleb(1 + len(body))
            if rng.random() < 0.25:
                ln = ln[:-1] + bytes([ln[-1] | 0x80, 0x00])
            raw += bytes([0]) + ln + bytes([0x80 + rng.randrange(0, 16)]) + body
            ins.append((k,))
        elif k == 'unknown_std':
            op = rng.randrange(13, h['opcode_base'])
            nargs = h['std_lengths'][op - 1]
            raw += bytes([op]) + b''.join(_uleb(rng.choice([0, 5, 300])) for _ in range(nargs))
            ins.append((k,))
    return raw, ins


# the two string sections of the version 5 path forms: the same names at different offsets
STR = b'\x00zzz\x00/usr/src\x00inc\x00a.c\x00b.h\x00'
LINE_STR = b'\x00b.h\x00qq\x00a.c\x00inc\x00x\x00/usr/src\x00'


def gen_unit(rng, le, fmt, asz, version):
    """(bytes of one line-number unit, header dict, instruction list)"""
    bo = 'little' if le else 'big'
    offw = 4 if fmt == 32 else 8
    opcode_base = rng.choice([13, 13, 10, 4, 1, 14, 17])
    std_lengths = [0, 1, 1, 1, 1, 0, 0, 0, 1, 0, 0, 1][:opcode_base - 1]
    while len(std_lengths) < opcode_base - 1:
        std_lengths.append(rng.choice([0, 1, 2]))
    h = dict(version=version, min_inst=rng.choice([1, 2, 4]), max_ops=(rng.choice([1, 1, 2, 4]) if version >= 4 else 1),
             default_is_stmt=rng.choice([0, 1]), line_base=rng.choice([-5, -3, 0, 1]), line_range=rng.choice([14, 12, 9, 1, 10]),
             opcode_base=opcode_base, std_lengths=std_lengths)
    body = b''
    if version >= 5:
        body += bytes([asz, 0])
    rest = bytes([h['min_inst']])
    if version >= 4:
        rest += bytes([h['max_ops']])
    rest += bytes([h['default_is_stmt']]) + (h['line_base'] % 256).to_bytes(1, bo) + bytes([h['line_range'], opcode_base]) + bytes(std_lengths)
    dirs = [b'/usr/src', b'inc']
    files = [(b'a.c', 0, 5, 6), (b'b.h', 1, 0, 0)]
    if version >= 5:
        # 6.2.4.1: each table is described by an entry format (content type code, form) and every entry follows it.
        # Paths are inline strings or offsets into .debug_str (DW_FORM_strp) / .debug_line_str (DW_FORM_line_strp);
        # the two string sections hold the names at different offsets (STR / LINE_STR below).
        def path(form, name):
            if form == 0x08:
                return name + b'\x00'
            table = STR if form == 0x0e else LINE_STR
            return table.index(b'\x00' + name + b'\x00').__add__(1).to_bytes(offw, bo)

        def num(form, v):
            return {0x0f: _uleb(v), 0x0b: v.to_bytes(1, bo), 0x05: v.to_bytes(2, bo), 0x06: v.to_bytes(4, bo)}[form]
        dform = rng.choice([0x08, 0x0e, 0x1f])
        rest += bytes([1]) + _uleb(1) + _uleb(dform)
        rest += _uleb(len(dirs)) + b''.join(path(dform, d) for d in dirs)
        fmt_fields = [(1, rng.choice([0x08, 0x0e, 0x1f])), (2, rng.choice([0x0f, 0x0b, 0x05]))]
        if rng.random() < 0.4:
            fmt_fields.append((3, rng.choice([0x0f, 0x06])))          # DW_LNCT_timestamp
        if rng.random() < 0.4:
            fmt_fields.append((4, rng.choice([0x0f, 0x0b, 0x05])))    # DW_LNCT_size
        if rng.random() < 0.4:
            fmt_fields.append((5, 0x1e))                              # DW_LNCT_MD5 as DW_FORM_data16
        if rng.random() < 0.35:
            fmt_fields.append((0x2001, rng.choice([0x08, 0x0e, 0x1f])))   # a vendor string content type (DW_LNCT_LLVM_source): resolved like a path
        rng.shuffle(fmt_fields)
        if rng.random() < 0.3:
            # entry formats that agree in their FORMS and differ in the content types the forms carry: the path first, then
            # directory index, timestamp and size in any order, all as DW_FORM_udata (what an entry means is decided by the
            # content type code, never by the form)
            nums = [(2, 0x0f), (3, 0x0f), (4, 0x0f)]
            rng.shuffle(nums)
            fmt_fields = [(1, 0x1f)] + nums
        rest += bytes([len(fmt_fields)]) + b''.join(_uleb(c) + _uleb(f) for c, f in fmt_fields)
        ents = b''
        for f in files:
            for c, form in fmt_fields:
                if c == 1:
                    ents += path(form, f[0])
                elif c == 2:
                    ents += num(form, f[1])
                elif c == 3:
                    ents += num(form, f[2])
                elif c == 4:
                    ents += num(form, f[3])
                elif c == 0x2001:
                    ents += path(form, b'inc' if f[0] == b'a.c' else b'/usr/src')
                else:
                    ents += bytes(rng.randrange(256) for _ in range(16))
        rest += _uleb(len(files)) + ents
        h['entry_formats'] = (dform, fmt_fields)
    else:
        rest += b''.join(d + b'\x00' for d in dirs) + b'\x00'
        rest += b''.join(f[0] + b'\x00' + _uleb(f[1]) + _uleb(f[2]) + _uleb(f[3]) for f in files) + b'\x00'
    body += len(rest).to_bytes(offw, bo) + rest
    prog, ins = gen_program(rng, h, le, asz, rng.randrange(0, 25))
    after_len = version.to_bytes(2, bo) + body + prog
    unit = (len(after_len).to_bytes(4, bo) if fmt == 32 else b'\xff\xff\xff\xff' + len(after_len).to_bytes(8, bo)) + after_len
    h['dirs'], h['files'] = dirs, files
    h['program_len'] = len(prog)
    return unit, h, ins
