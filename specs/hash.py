"""Specification of the ELF hash functions (gABI 'Hash Table' for the SysV function on 32-bit
words; the GNU function is dl_new_hash: h = h*33 + c on uint32 starting from 5381)."""
import z3
from pyvc.vals import to_int, IntS, ArrS
from pyvc.verify import register_recdef


def _native(f):
    f._native = True
    return f


def nibxor(a, b):
    """4-bit exclusive or, bit by bit"""
    return (((a % 2) + (b % 2)) % 2 + 2 * (((a // 2) % 2 + (b // 2) % 2) % 2)
            + 4 * (((a // 4) % 2 + (b // 4) % 2) % 2) + 8 * (((a // 8) % 2 + (b // 8) % 2) % 2))


def elf_step(h, c):
    """one character of the gABI function on a 32-bit word h:
       h = (h << 4) + c;  g = h & 0xf0000000;  if (g) h ^= g >> 24;  h &= ~g"""
    h1 = (h * 16 + c) % 2**32
    g = h1 // 2**28                      # top nibble
    lo = (h1 // 16) % 16                 # bits 4..7, xor-ed with g
    h2 = h1 + (nibxor(lo, g) - lo) * 16
    return h2 - g * 2**28


_elfhash = z3.Function('elfhash32', ArrS, IntS, IntS, IntS)   # (array, offset, k characters)
_gnuhash = z3.Function('gnuhash32', ArrS, IntS, IntS, IntS)


@_native
def elfhash32(I, b, k):
    return _elfhash(b.arr, to_int(b.off), to_int(k))


@_native
def gnuhash32(I, b, k):
    return _gnuhash(b.arr, to_int(b.off), to_int(k))


def _z_nibxor(a, b):
    return (((a % 2) + (b % 2)) % 2 + 2 * (((a / 2) % 2 + (b / 2) % 2) % 2)
            + 4 * (((a / 4) % 2 + (b / 4) % 2) % 2) + 8 * (((a / 8) % 2 + (b / 8) % 2) % 2))


def _unfold_elf(t):
    arr, off, k = t.arg(0), t.arg(1), t.arg(2)
    prev = _elfhash(arr, off, k - 1)
    c = z3.Select(arr, off + k - 1)
    h1 = (prev * 16 + c) % 2**32
    g = (h1 / 2**28) % 16
    lo = (h1 / 16) % 16
    h2 = h1 + (_z_nibxor(lo, g) - lo) * 16
    return [_elfhash(arr, off, 0) == 0, z3.Implies(k >= 1, t == h2 - g * 2**28)]


def _unfold_gnu(t):
    arr, off, k = t.arg(0), t.arg(1), t.arg(2)
    prev = _gnuhash(arr, off, k - 1)
    c = z3.Select(arr, off + k - 1)
    return [_gnuhash(arr, off, 0) == 5381, z3.Implies(k >= 1, t == (prev * 33 + c) % 2**32)]


register_recdef('elfhash32', _unfold_elf)
register_recdef('gnuhash32', _unfold_gnu)


def _elf_py(b, k):
    h = 0
    for c in bytes(b)[:k]:
        h = elf_step(h, c)
    return h


def _gnu_py(b, k):
    h = 5381
    for c in bytes(b)[:k]:
        h = (h * 33 + c) % 2**32
    return h


elfhash32.py = _elf_py
gnuhash32.py = _gnu_py


@_native
def u32at(I, B, o, little):
    """the 32-bit word at offset o in the file's byte order"""
    from pyvc.calls import rd_int
    from pyvc.vals import is_sym
    arr = B.arr if hasattr(B, 'arr') else B
    if isinstance(little, bool):
        return rd_int(arr, o, 4, little, False)
    return z3.If(little, rd_int(arr, o, 4, True, False), rd_int(arr, o, 4, False, False))


u32at.py = lambda B, o, little: int.from_bytes(bytes(B[o:o + 4]), 'little' if little else 'big')
