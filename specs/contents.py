"""Specifications for section/segment contents (C02)."""
import z3
from pyvc.vals import to_int, IntS, ArrS, SBytes
from elftools.elf.constants import SH_FLAGS

SHF_ALLOC = 0x2
SHF_TLS = 0x400


def u64(x):
    return x % 2**64


def in_segment_spec(ph, sh):
    """ELF_SECTION_IN_SEGMENT_1(sec_hdr, segment, check_vma=1, strict=1), binutils
    include/elf/internal.h, restricted to the four groups of the C02 statement:
      1. TLS sections only in PT_TLS/PT_GNU_RELRO/PT_LOAD; non-TLS sections not in PT_TLS/PT_PHDR
      2. PT_LOAD, PT_DYNAMIC, PT_GNU_EH_FRAME, PT_GNU_STACK, PT_GNU_RELRO contain only SHF_ALLOC sections
      3. file extent (unless SHT_NOBITS): sh_offset >= p_offset, (strict) sh_offset - p_offset <= p_filesz - 1
         in unsigned arithmetic, sh_offset - p_offset + sh_size <= p_filesz
      4. address extent (if SHF_ALLOC): the same three clauses with sh_addr/p_vaddr/p_memsz
    """
    tls = (sh.sh_flags // SHF_TLS) % 2 == 1
    alloc = (sh.sh_flags // SHF_ALLOC) % 2 == 1
    c1 = ((tls and ph.p_type in ('PT_TLS', 'PT_GNU_RELRO', 'PT_LOAD')) or
          ((not tls) and ph.p_type not in ('PT_TLS', 'PT_PHDR')))
    c2 = not ((not alloc) and ph.p_type in ('PT_LOAD', 'PT_DYNAMIC', 'PT_GNU_EH_FRAME', 'PT_GNU_STACK',
                                            'PT_GNU_RELRO'))
    c3 = (sh.sh_type == 'SHT_NOBITS' or
          (sh.sh_offset >= ph.p_offset and
           u64(sh.sh_offset - ph.p_offset) <= u64(ph.p_filesz - 1) and
           sh.sh_offset - ph.p_offset + sh.sh_size <= ph.p_filesz))
    c4 = ((not alloc) or
          (sh.sh_addr >= ph.p_vaddr and
           u64(sh.sh_addr - ph.p_vaddr) <= u64(ph.p_memsz - 1) and
           sh.sh_addr - ph.p_vaddr + sh.sh_size <= ph.p_memsz))
    return c1 and c2 and c3 and c4


def _native(f):
    f._native = True
    return f


@_native
def cstr_end(I, B, p):
    """position of the first NUL at or after p (pyvc.calls.nulpos)"""
    from pyvc.calls import nul_axioms
    arr = B.arr if hasattr(B, 'arr') else B
    return nul_axioms(I, arr, p)


cstr_end.py = lambda B, p: bytes(B).find(b'\x00', p)


@_native
def chunks_view(I, chunks, B, lo, hi):
    """the chunk list concatenates to B[lo : min(hi, len(B))]"""
    from pyvc.methods import ChunkList
    from pyvc.models import zmin, zmax
    arr = B.arr
    end = zmax(lo, zmin(hi, B.n))
    if isinstance(chunks, list):
        if not chunks:
            return to_int(end) == to_int(lo)
        raise NotImplementedError('chunks_view of a non-empty concrete list')
    v = chunks.view
    return z3.And(to_int(v.off) == to_int(lo), to_int(v.n) == to_int(end) - to_int(lo)) if v.arr.eq(arr) else False


chunks_view.py = lambda chunks, B, lo, hi: b''.join(chunks) == bytes(B[lo:max(lo, min(hi, len(B)))])


@_native
def decode_utf8(I, b):
    """strict UTF-8 decoding of a bytes view (abstract text determined by the bytes)"""
    f = z3.Function('decode!utf-8!strict', ArrS, IntS, IntS, z3.StringSort())
    from pyvc.vals import view_args
    return f(*view_args(b))


decode_utf8.py = lambda b: bytes(b).decode('utf-8')


@_native
def inflated(I, b, limit):
    """first `limit` bytes (0: all) of the zlib-inflated payload b (RFC 1950/1951; abstract)"""
    from pyvc.calls import inflate_arr, inflate_len
    from pyvc.vals import is_sym
    from pyvc.vals import view_args
    a = view_args(b)
    total = inflate_len(*a)
    lim = to_int(limit)
    n = z3.If(lim == 0, total, z3.If(total < lim, total, lim))
    return SBytes(inflate_arr(*a), 0, n)


def _inflated_py(b, limit):
    import zlib
    return zlib.decompressobj().decompress(bytes(b), limit)


inflated.py = _inflated_py


@_native
def inflatable(I, b):
    from pyvc.calls import inflate_ok
    from pyvc.vals import view_args
    return inflate_ok(*view_args(b))


def _inflatable_py(b):
    import zlib
    try:
        zlib.decompressobj().decompress(bytes(b))
        return True
    except zlib.error:
        return False


inflatable.py = _inflatable_py


@_native
def zeros(I, n):
    return SBytes(z3.K(IntS, z3.IntVal(0)), 0, z3.If(to_int(n) < 0, 0, to_int(n)))


zeros.py = lambda n: b'\0' * n


@_native
def crc32_of(I, B, lo, hi, init):
    """running CRC-32 of B[lo:hi] from the initial value (abstract; binascii.crc32 assumed to compute it)"""
    from pyvc.calls import crc_fn
    r = crc_fn(B.arr, to_int(lo), to_int(hi), to_int(init))
    I.ctx.assume(z3.Implies(to_int(lo) == to_int(hi), r == to_int(init)))      # the checksum of no bytes is the initial value
    return r


def _crc32_py(B, lo, hi, init):
    import binascii
    return binascii.crc32(bytes(B[lo:hi]), init)


crc32_of.py = _crc32_py


@_native
def view_at(I, d, B, lo):
    """d is the slice of B that starts at lo (by position, not only by content)"""
    if isinstance(d, bytes):
        d = I.models.to_sbytes(I, d)
        if len(d if isinstance(d, bytes) else b'') == 0 and not hasattr(d, 'arr'):
            return True
    if not d.arr.eq(B.arr):
        return z3.And(to_int(d.n) == 0)       # only the empty value is a slice of another array at any position
    return z3.Or(to_int(d.n) == 0, to_int(d.off) == to_int(B.off) + to_int(lo))


view_at.py = lambda d, B, lo: bytes(d) == bytes(B[lo:lo + len(d)])


@_native
def field_at(I, B, off, size):
    """value of the unsigned field of `size` bytes (1, 2, 4, 8) at offset off in the file's byte order: the leaf of the
    K2-checked layouts Elf_byte / Elf_half / Elf_word / Elf_word64"""
    import z3
    from pyvc.vals import ArrS, IntS, to_int
    name = {1: 'Elf_byte', 2: 'Elf_half', 4: 'Elf_word', 8: 'Elf_word64'}[size]
    return z3.Function(name, ArrS, IntS, IntS)(B.arr, to_int(off))


@_native
def inflated_len(I, b):
    """length of the whole inflated stream (whatever limit a reader passes)"""
    from pyvc.calls import inflate_len
    from pyvc.vals import view_args
    return inflate_len(*view_args(b))
