"""Minimal independent ELF writer (gABI 4.1 file header, section header table, section-name string
table; gABI compression header; legacy GNU .zdebug framing; .gnu_debuglink with the CRC of the linked
file) used to build container variants of the same debug payload for the C11 differential."""
import struct
import zlib
import binascii

SHT_PROGBITS, SHT_STRTAB = 1, 3
SHF_COMPRESSED = 0x800


def _ehdr(cls, le, shoff, shnum, shstrndx, machine=62):
    e = '<' if le else '>'
    ident = b'\x7fELF' + bytes([1 if cls == 32 else 2, 1 if le else 2, 1, 0]) + b'\x00' * 8
    if cls == 64:
        return ident + struct.pack(e + 'HHIQQQIHHHHHH', 1, machine, 1, 0, 0, shoff, 0, 64, 0, 0, 64, shnum, shstrndx)
    return ident + struct.pack(e + 'HHIIIIIHHHHHH', 1, machine, 1, 0, 0, shoff, 0, 52, 0, 0, 40, shnum, shstrndx)


def _shdr(cls, le, name, typ, flags, addr, off, size, link=0, info=0, align=1, entsize=0):
    e = '<' if le else '>'
    if cls == 64:
        return struct.pack(e + 'IIQQQQIIQQ', name, typ, flags, addr, off, size, link, info, align, entsize)
    return struct.pack(e + 'IIIIIIIIII', name, typ, flags, addr, off, size, link, info, align, entsize)


def chdr(cls, le, size, align=1):
    e = '<' if le else '>'
    if cls == 64:
        return struct.pack(e + 'IIQQ', 1, 0, size, align)
    return struct.pack(e + 'III', 1, size, align)


def write_elf(cls, le, sections, machine=None):
    """sections: list of (name, data, flags); returns the file bytes"""
    machine = machine if machine is not None else (62 if cls == 64 else 3)
    names = b'\x00'
    offs = {}
    for n, _d, _f in sections + [('.shstrtab', b'', 0)]:
        offs[n] = len(names)
        names += n.encode() + b'\x00'
    hsz = 64 if cls == 64 else 52
    body, table = b'', [_shdr(cls, le, 0, 0, 0, 0, 0, 0)]
    pos = hsz
    for n, d, f in sections + [('.shstrtab', names, 0)]:
        typ = SHT_STRTAB if n == '.shstrtab' else SHT_PROGBITS
        table.append(_shdr(cls, le, offs[n], typ, f, 0, pos, len(d)))
        body += d
        pos += len(d)
    pad = (-pos) % 8
    shoff = pos + pad
    return _ehdr(cls, le, shoff, len(table), len(table) - 1, machine) + body + b'\x00' * pad + b''.join(table)


def plain(payload):
    return [(n, d, 0) for n, d in payload]


def gabi_compressed(payload, cls, le, level, only=None):
    out = []
    for n, d in payload:
        if n.startswith('.debug_') and (only is None or n in only):
            out.append((n, chdr(cls, le, len(d)) + zlib.compress(d, level), SHF_COMPRESSED))
        else:
            out.append((n, d, 0))
    return out


def zdebug(payload, level):
    out = []
    for n, d in payload:
        if n.startswith('.debug_'):
            out.append(('.z' + n[1:], b'ZLIB' + struct.pack('>Q', len(d)) + zlib.compress(d, level), 0))
        else:
            out.append((n, d, 0))
    return out


def debuglink_section(filename, target_bytes, le, wrong=False):
    crc = binascii.crc32(target_bytes) & 0xffffffff
    if wrong:
        crc ^= 0x1
    name = filename + b'\x00'
    name += b'\x00' * ((-len(name)) % 4)
    return name + struct.pack('<I' if le else '>I', crc)
