"""Minimal independent ELF writer (gABI 4.1 file header, section header table, section-name string
table; gABI compression header; legacy GNU .zdebug framing; .gnu_debuglink with the CRC of the linked
file) used to build container variants of the same debug payload for the C11 differential."""
import struct
import zlib
import binascii

SHT_PROGBITS, SHT_STRTAB = 1, 3
SHF_COMPRESSED = 0x800


def _ehdr(cls, le, shoff, shnum, shstrndx, machine=62):
    e = '<' if le else '>'
    ident = b'\x7fELF' + bytes([1 if cls == 32 else 2, 1 if le else 2, 1, 0]) + b'\x00' * 8
    if cls == 64:
        return ident + struct.pack(e + 'HHIQQQIHHHHHH', 1, machine, 1, 0, 0, shoff, 0, 64, 0, 0, 64, shnum, shstrndx)
    return ident + struct.pack(e + 'HHIIIIIHHHHHH', 1, machine, 1, 0, 0, shoff, 0, 52, 0, 0, 40, shnum, shstrndx)


def _shdr(cls, le, name, typ, flags, addr, off, size, link=0, info=0, align=1, entsize=0):
    e = '<' if le else '>'
    if cls == 64:
        return struct.pack(e + 'IIQQQQIIQQ', name, typ, flags, addr, off, size, link, info, align, entsize)
    return struct.pack(e + 'IIIIIIIIII', name, typ, flags, addr, off, size, link, info, align, entsize)


def chdr(cls, le, size, align=1):
    e = '<' if le else '>'
    if cls == 64:
        return struct.pack(e + 'IIQQ', 1, 0, size, align)
    return struct.pack(e + 'III', 1, size, align)


def write_elf(cls, le, sections, machine=None):
    """sections: list of (name, data, flags); returns the file bytes"""
    machine = machine if machine is not None else (62 if cls == 64 else 3)
    names = b'\x00'
    offs = {}
    for n, _d, _f in sections + [('.shstrtab', b'', 0)]:
        offs[n] = len(names)
        names += n.encode() + b'\x00'
    hsz = 64 if cls == 64 else 52
    body, table = b'', [_shdr(cls, le, 0, 0, 0, 0, 0, 0)]
    pos = hsz
    for n, d, f in sections + [('.shstrtab', names, 0)]:
        typ = SHT_STRTAB if n == '.shstrtab' else SHT_PROGBITS
        table.append(_shdr(cls, le, offs[n], typ, f, 0, pos, len(d)))
        body += d
        pos += len(d)
    pad = (-pos) % 8
    shoff = pos + pad
    return _ehdr(cls, le, shoff, len(table), len(table) - 1, machine) + body + b'\x00' * pad + b''.join(table)


def plain(payload):
    return [(n, d, 0) for n, d in payload]


def gabi_compressed(payload, cls, le, level, only=None):
    out = []
    for n, d in payload:
        if n.startswith('.debug_') and (only is None or n in only):
            out.append((n, chdr(cls, le, len(d)) + zlib.compress(d, level), SHF_COMPRESSED))
        else:
            out.append((n, d, 0))
    return out


def zdebug(payload, level):
    out = []
    for n, d in payload:
        if n.startswith('.debug_'):
            out.append(('.z' + n[1:], b'ZLIB' + struct.pack('>Q', len(d)) + zlib.compress(d, level), 0))
        else:
            out.append((n, d, 0))
    return out


def debuglink_section(filename, target_bytes, le, wrong=False):
    crc = binascii.crc32(target_bytes) & 0xffffffff
    if wrong:
        crc ^= 0x1
    name = filename + b'\x00'
    name += b'\x00' * ((-len(name)) % 4)
    return name + struct.pack('<I' if le else '>I', crc)


# ---------------------------------------------------------------- relocatable objects (C08 differential)
SHT_SYMTAB, SHT_RELA, SHT_REL = 2, 4, 9


def sym_entry(cls, le, name, value, size=0, info=0, other=0, shndx=1):
    e = '<' if le else '>'
    if cls == 64:
        return struct.pack(e + 'IBBHQQ', name, info, other, shndx, value, size)
    return struct.pack(e + 'IIIBBH', name, value, size, info, other, shndx)


def rel_entry(cls, le, offset, sym, typ, addend=None, mips64=False):
    e = '<' if le else '>'
    if cls == 64:
        if mips64:
            # MIPS64 r_info: sym (32 bits), ssym, type3, type2, type (one byte each), in the file's byte order
            info = struct.pack(e + 'IBBBB', sym, 0, 0, 0, typ) if not le else struct.pack('<IBBBB', sym, 0, 0, 0, typ)
            head = struct.pack(e + 'Q', offset) + info
        else:
            head = struct.pack(e + 'QQ', offset, (sym << 32) | typ)
        return head + (struct.pack(e + 'q', addend) if addend is not None else b'')
    return struct.pack(e + 'II', offset, (sym << 8) | typ) + (struct.pack(e + 'i', addend) if addend is not None else b'')


def write_object(cls, le, machine, target_name, target_data, relocs, symbols, rela):
    """relocatable object: [null, target section, symtab, strtab, .rel[a]<target>, shstrtab]
    relocs: [(offset, symbol index, type, addend)], symbols: [value] (index 0 is the null symbol)"""
    e = '<' if le else '>'
    strtab = b'\x00sym\x00'
    symtab = sym_entry(cls, le, 0, 0, shndx=0) + b''.join(sym_entry(cls, le, 1, v) for v in symbols[1:])
    mips64 = (machine == 8 and cls == 64)
    relbytes = b''.join(rel_entry(cls, le, o, s, t, a if rela else None, mips64) for (o, s, t, a) in relocs)
    relname = ('.rela' if rela else '.rel') + target_name
    secs = [(target_name, SHT_PROGBITS, target_data, 0, 0, 0),
            ('.symtab', SHT_SYMTAB, symtab, 3, 1, 24 if cls == 64 else 16),
            ('.strtab', SHT_STRTAB, strtab, 0, 0, 0),
            (relname, SHT_RELA if rela else SHT_REL, relbytes, 2, 1, len(relbytes) // max(1, len(relocs)) if relocs else 0)]
    names = b'\x00'
    offs = {}
    for n, *_ in secs + [('.shstrtab', 0, b'', 0, 0, 0)]:
        offs[n] = len(names)
        names += n.encode() + b'\x00'
    secs.append(('.shstrtab', SHT_STRTAB, names, 0, 0, 0))
    hsz = 64 if cls == 64 else 52
    body, table, pos = b'', [_shdr(cls, le, 0, 0, 0, 0, 0, 0)], hsz
    for n, typ, d, link, info, entsize in secs:
        table.append(_shdr(cls, le, offs[n], typ, 0, 0, pos, len(d), link, info, 1, entsize))
        body += d
        pos += len(d)
    pad = (-pos) % 8
    return _ehdr(cls, le, pos + pad, len(table), len(table) - 1, machine) + body + b'\x00' * pad + b''.join(table)


# ---------------------------------------------------------------- section-less executables with a dynamic segment (C09)
PT_LOAD, PT_DYNAMIC = 1, 2
DT = dict(DT_NULL=0, DT_NEEDED=1, DT_PLTRELSZ=2, DT_HASH=4, DT_DEBUG=21, DT_STRTAB=5, DT_SYMTAB=6, DT_RELA=7, DT_RELASZ=8, DT_RELAENT=9, DT_STRSZ=10,
          DT_SYMENT=11, DT_SONAME=14, DT_RPATH=15, DT_REL=17, DT_RELSZ=18, DT_RELENT=19, DT_PLTREL=20, DT_JMPREL=23, DT_RUNPATH=29,
          DT_RELRSZ=35, DT_RELR=36, DT_RELRENT=37, DT_GNU_HASH=0x6ffffef5)


def _phdr(cls, le, typ, off, vaddr, filesz, flags=4):
    e = '<' if le else '>'
    if cls == 64:
        return struct.pack(e + 'IIQQQQQQ', typ, flags, off, vaddr, vaddr, filesz, filesz, 8)
    return struct.pack(e + 'IIIIIIII', typ, off, vaddr, vaddr, filesz, filesz, flags, 8)


def write_dynamic_exec(cls, le, machine, blobs, tags, base=0x10000, split=None):
    """ET_DYN image without section headers: [Ehdr | Phdrs | blobs... | dynamic array]; one PT_LOAD maps the whole
    file at `base` -- or, with split=k, two PT_LOADs: the first maps the headers and the first k blobs at `base`, the second
    the remaining blobs and the dynamic array at another address bias -- and PT_DYNAMIC designates the dynamic array.
    blobs: [(key, bytes)]; tags: [(tag name, value or ('ptr', key) for the virtual address of a blob)].  Returns
    (image, {key: file offset, '@' + key: virtual address})."""
    e = '<' if le else '>'
    hsz, psz = (64, 56) if cls == 64 else (52, 32)
    nph = 2 if split is None else 3
    pos = hsz + nph * psz
    offs, body = {}, b''
    split_off = None
    for i, (k, d) in enumerate(blobs):
        pad = (-pos) % 8
        body += b'\x00' * pad
        pos += pad
        if split is not None and i == split:
            split_off = pos
        offs[k] = pos
        body += d
        pos += len(d)
    pad = (-pos) % 8
    body += b'\x00' * pad
    pos += pad
    dyn_off = pos
    if split is not None and split_off is None:
        split_off = dyn_off
    bias2 = 0x200000

    def vaddr(o):
        return base + o if split_off is None or o < split_off else base + bias2 + o
    for k, _d in blobs:
        offs['@' + k] = vaddr(offs[k])
    dyn = b''
    for t, v in tags:
        val = offs['@' + v[1]] if isinstance(v, tuple) else v
        dyn += struct.pack(e + ('qQ' if cls == 64 else 'iI'), DT[t] if DT[t] < 2 ** 31 else DT[t] - (2 ** 64 if cls == 64 else 2 ** 32), val)
    total = dyn_off + len(dyn)
    ident = b'\x7fELF' + bytes([1 if cls == 32 else 2, 1 if le else 2, 1, 0]) + b'\x00' * 8
    if cls == 64:
        eh = ident + struct.pack(e + 'HHIQQQIHHHHHH', 3, machine, 1, 0, hsz, 0, 0, 64, 56, nph, 64, 0, 0)
    else:
        eh = ident + struct.pack(e + 'HHIIIIIHHHHHH', 3, machine, 1, 0, hsz, 0, 0, 52, 32, nph, 40, 0, 0)
    if split_off is None:
        ph = _phdr(cls, le, PT_LOAD, 0, base, total, 5)
    else:
        ph = _phdr(cls, le, PT_LOAD, 0, base, split_off, 5) + _phdr(cls, le, PT_LOAD, split_off, vaddr(split_off), total - split_off, 6)
    ph += _phdr(cls, le, PT_DYNAMIC, dyn_off, vaddr(dyn_off), len(dyn), 6)
    return eh + ph + body + dyn, offs
