"""Specification layouts of the DWARF structures (DWARF v2-v5: 7.4 initial
length, 7.5.1 unit headers, 7.5.3 abbreviations, 7.5.6 forms, 6.2.4 line header,
6.4.1 CIE/FDE, 6.1 lookup tables, 7.25-7.29 v5 list sections) as normal forms of
pyvc.k2 for cfg = (little_endian, dwarf_format, address_size, dwarf_version)."""
from pyvc.k2 import FnSpec
from pyvc import shapes as S
import elftools.dwarf.enums as E


def layouts(little_endian, dwarf_format, address_size, dwarf_version):
    en = 'le' if little_endian else 'be'

    def u(n):
        return ('int', n, False, en if n > 1 else 'le')

    def s(n):
        return ('int', n, True, en if n > 1 else 'le')

    OFF = u(4 if dwarf_format == 32 else 8)
    ADDR = u(address_size)
    U, SL = ('uleb',), ('sleb',)
    ctx_first = S.Rec(first=S.U32)
    IL = ('initial_length', en, FnSpec('ctx.first == 0xFFFFFFFF', shapes=dict(ctx=ctx_first)))

    def enum(sub, d):
        return ('enum', sub, d, '_default_' in d)

    def block(lensub):
        return ('prefixed', lensub, u(1))

    def iff(text, shapes, then, els=('const', None)):
        return ('ifthenelse', FnSpec(text, shapes=shapes), then, els)

    L = {}
    # ---- unit headers (7.5.1.1-7.5.1.3)
    vctx = dict(ctx=S.Rec(unit_length=S.Nat, version=S.U16))
    v4 = ('struct', [('debug_abbrev_offset', OFF), ('address_size', u(1))])
    cp = ('struct', [('address_size', u(1)), ('debug_abbrev_offset', OFF)])
    ss = ('struct', [('address_size', u(1)), ('debug_abbrev_offset', OFF), ('dwo_id', u(8))])
    ts = ('struct', [('address_size', u(1)), ('debug_abbrev_offset', OFF), ('type_signature', u(8)),
                     ('type_offset', OFF)])
    utctx = dict(ctx=S.Rec(unit_length=S.Nat, version=S.U16, unit_type=S.CodeT(8)))
    v5 = ('struct', [('unit_type', enum(u(1), E.ENUM_DW_UT)),
                     ('<embed>', ('switch', FnSpec('ctx.unit_type', shapes=utctx), {
                         'DW_UT_compile': cp, 'DW_UT_partial': cp, 'DW_UT_skeleton': ss,
                         'DW_UT_split_compile': ss, 'DW_UT_type': ts, 'DW_UT_split_type': ts}, None))])
    L['Dwarf_CU_header'] = ('struct', [('unit_length', IL), ('version', u(2)),
                                       ('<embed>', ('ifthenelse', FnSpec("ctx['version'] >= 5", shapes=vctx), v5, v4))])
    L['Dwarf_TU_header'] = ('struct', [('unit_length', IL), ('version', u(2)), ('debug_abbrev_offset', OFF),
                                       ('address_size', u(1)), ('signature', u(8)), ('type_offset', OFF)])
    # ---- abbreviation declaration (7.5.3)
    actx = dict(obj=S.Rec(name=S.CodeT(64), form=S.CodeT(64), value=S.Any), ctx=S.Any)
    fctx = dict(ctx=S.Rec(name=S.CodeT(64), form=S.CodeT(64)))
    L['Dwarf_abbrev_declaration'] = ('struct', [
        ('tag', enum(U, E.ENUM_DW_TAG)),
        ('children_flag', enum(u(1), E.ENUM_DW_CHILDREN)),
        ('attr_spec', ('until', FnSpec("obj.name == 'DW_AT_null' and obj.form == 'DW_FORM_null'",
                                       params=('obj', 'ctx'), shapes=actx),
                       ('struct', [('name', enum(U, E.ENUM_DW_AT)), ('form', enum(U, E.ENUM_DW_FORM)),
                                   ('value', iff("ctx['form'] == 'DW_FORM_implicit_const'", fctx, SL))]), False))])
    L['Dwarf_debugsup'] = ('struct', [('version', s(2)), ('is_supplementary', u(1)),
                                      ('sup_filename', ('cstring', b'\x00', None))])
    L['Dwarf_debugaltlink'] = ('struct', [('sup_filename', ('cstring', b'\x00', None)),
                                          ('sup_checksum', ('string', 20, None, None, None))])
    # ---- lookup-table and table headers
    L['Dwarf_aranges_header'] = ('struct', [('unit_length', IL), ('version', u(2)), ('debug_info_offset', OFF),
                                            ('address_size', u(1)), ('segment_size', u(1))])
    L['Dwarf_nameLUT_header'] = ('struct', [('unit_length', IL), ('version', u(2)), ('debug_info_offset', OFF),
                                            ('debug_info_length', OFF)])
    L['Dwarf_string_offsets_table_header'] = ('struct', [('unit_length', IL), ('version', u(2)), ('padding', u(2))])
    L['Dwarf_address_table_header'] = ('struct', [('unit_length', IL), ('version', u(2)), ('address_size', u(1)),
                                                  ('segment_selector_size', u(1))])
    # ---- line program header (6.2.4)
    nctx = dict(ctx=S.Rec(name=S.Bytes))
    L['Dwarf_lineprog_file_entry'] = ('struct', [
        ('name', ('cstring', b'\x00', None)),
        ('<embed>', iff('len(ctx.name) != 0', nctx,
                        ('struct', [('dir_index', U), ('mtime', U), ('length', U)])))])
    hv = dict(ctx=S.Rec(unit_length=S.Nat, version=S.U16))
    hob = dict(ctx=S.Rec(unit_length=S.Nat, version=S.U16, opcode_base=S.U8))
    fmt = ('struct', [('content_type', enum(U, E.ENUM_DW_LNCT)), ('form', enum(U, E.ENUM_DW_FORM))])
    L['Dwarf_lineprog_header'] = ('struct', [
        ('unit_length', IL), ('version', u(2)),
        ('address_size', iff('ctx.version >= 5', hv, u(1))),
        ('segment_selector_size', iff('ctx.version >= 5', hv, u(1))),
        ('header_length', OFF), ('minimum_instruction_length', u(1)),
        ('maximum_operations_per_instruction', iff('ctx.version >= 4', hv, u(1), ('const', 1))),
        ('default_is_stmt', u(1)), ('line_base', s(1)), ('line_range', u(1)), ('opcode_base', u(1)),
        ('standard_opcode_lengths', ('array', FnSpec('ctx.opcode_base - 1', shapes=hob), u(1))),
        ('directory_entry_format', iff('ctx.version >= 5', hv, ('prefixed', u(1), fmt))),
        ('directories', iff('ctx.version >= 5', hv, ('prefixed', U, ('formatted', 'directory_entry_format')))),
        ('file_name_entry_format', iff('ctx.version >= 5', hv, ('prefixed', u(1), fmt))),
        ('file_names', iff('ctx.version >= 5', hv, ('prefixed', U, ('formatted', 'file_name_entry_format')))),
        ('include_directory', iff('ctx.version < 5', hv,
                                  ('until', FnSpec("len(obj) == 0", params=('obj', 'ctx'),
                                                   shapes=dict(obj=S.Bytes, ctx=S.Any)),
                                   ('cstring', b'\x00', None), False))),
        ('file_entry', iff('ctx.version < 5', hv,
                           ('until', FnSpec("len(obj.name) == 0", params=('obj', 'ctx'),
                                            shapes=dict(obj=S.Rec(name=S.Bytes), ctx=S.Any)),
                            L['Dwarf_lineprog_file_entry'], False)))])
    # ---- call frame entries (6.4.1; version 1: return register is a ubyte; 4: address/segment size)
    cv = dict(ctx=S.Rec(length=S.Nat, CIE_id=S.Nat, version=S.U8, augmentation=S.Bytes))
    L['Dwarf_CIE_header'] = ('struct', [
        ('length', IL), ('CIE_id', OFF), ('version', u(1)), ('augmentation', ('cstring', b'\x00', None)),
        ('address_size', iff('ctx.version >= 4', cv, u(1))),
        ('segment_size', iff('ctx.version >= 4', cv, u(1))),
        ('code_alignment_factor', U), ('data_alignment_factor', SL),
        ('return_address_register', ('ifthenelse', FnSpec('ctx.version > 1', shapes=cv), U, u(1)))])
    L['EH_CIE_header'] = L['Dwarf_CIE_header']
    L['Dwarf_FDE_header'] = ('struct', [('length', IL), ('CIE_pointer', OFF), ('initial_location', ADDR),
                                        ('address_range', ADDR)])
    # ---- v5 list sections (7.28, 7.29; entries 7.7.3 and 7.25)
    is64 = S.Rec(cu_offset=S.Nat, unit_length=S.Nat, is64=S.Bool)
    for nm in ('Dwarf_loclists_CU_header', 'Dwarf_rnglists_CU_header'):
        L[nm] = ('struct', [('cu_offset', ('offset',)), ('unit_length', IL),
                            ('is64', ('value', FnSpec('ctx.is64', shapes=dict(ctx=is64)))),
                            ('offset_after_length', ('offset',)), ('version', u(2)), ('address_size', u(1)),
                            ('segment_selector_size', u(1)), ('offset_count', u(4)),
                            ('offset_table_offset', ('offset',))])
    cld = block(U)
    L['Dwarf_loclists_counted_location_description'] = cld
    ectx = dict(ctx=S.Rec(entry_offset=S.Nat, entry_type=S.CodeT(8)))
    lenctx = dict(ctx=S.Rec(entry_offset=S.Nat, entry_type=S.CodeT(8), entry_end_offset=S.Nat))
    lle = {
        'DW_LLE_end_of_list': ('struct', []),
        'DW_LLE_base_addressx': ('struct', [('index', U)]),
        'DW_LLE_startx_endx': ('struct', [('start_index', U), ('end_index', U), ('loc_expr', cld)]),
        'DW_LLE_startx_length': ('struct', [('start_index', U), ('length', U), ('loc_expr', cld)]),
        'DW_LLE_offset_pair': ('struct', [('start_offset', U), ('end_offset', U), ('loc_expr', cld)]),
        'DW_LLE_default_location': ('struct', [('loc_expr', cld)]),
        'DW_LLE_base_address': ('struct', [('address', ADDR)]),
        'DW_LLE_start_end': ('struct', [('start_address', ADDR), ('end_address', ADDR), ('loc_expr', cld)]),
        'DW_LLE_start_length': ('struct', [('start_address', ADDR), ('length', U), ('loc_expr', cld)]),
    }
    rle = {
        'DW_RLE_end_of_list': ('struct', []),
        'DW_RLE_base_addressx': ('struct', [('index', U)]),
        'DW_RLE_startx_endx': ('struct', [('start_index', U), ('end_index', U)]),
        'DW_RLE_startx_length': ('struct', [('start_index', U), ('length', U)]),
        'DW_RLE_offset_pair': ('struct', [('start_offset', U), ('end_offset', U)]),
        'DW_RLE_base_address': ('struct', [('address', ADDR)]),
        'DW_RLE_start_end': ('struct', [('start_address', ADDR), ('end_address', ADDR)]),
        'DW_RLE_start_length': ('struct', [('start_address', ADDR), ('length', U)]),
    }
    for nm, cases, d, endname in (('Dwarf_loclists_entries', lle, E.ENUM_DW_LLE, 'DW_LLE_end_of_list'),
                                  ('Dwarf_rnglists_entries', rle, E.ENUM_DW_RLE, 'DW_RLE_end_of_list')):
        L[nm] = ('until', FnSpec("obj.entry_type == '%s'" % endname, params=('obj', 'ctx'),
                                 shapes=dict(obj=S.Rec(entry_type=S.CodeT(8)), ctx=S.Any)),
                 ('struct', [('entry_offset', ('offset',)), ('entry_type', enum(u(1), d)),
                             ('<embed>', ('switch', FnSpec('ctx.entry_type', shapes=ectx), cases, None)),
                             ('entry_end_offset', ('offset',)),
                             ('entry_length', ('value', FnSpec('ctx.entry_end_offset - ctx.entry_offset',
                                                               shapes=lenctx)))]), False)
    L['Dwarf_locview_pair'] = ('struct', [('entry_offset', ('offset',)), ('begin', U), ('end', U)])

    # ---- attribute forms (7.5.6, table 7.5/7.6) + GNU forms
    F = {
        'DW_FORM_addr': ADDR, 'DW_FORM_addrx': U, 'DW_FORM_addrx1': u(1), 'DW_FORM_addrx2': u(2),
        'DW_FORM_addrx3': ('int24', en), 'DW_FORM_addrx4': u(4),
        'DW_FORM_block1': block(u(1)), 'DW_FORM_block2': block(u(2)), 'DW_FORM_block4': block(u(4)),
        'DW_FORM_block': block(U), 'DW_FORM_exprloc': block(U),
        'DW_FORM_data1': u(1), 'DW_FORM_data2': u(2), 'DW_FORM_data4': u(4), 'DW_FORM_data8': u(8),
        'DW_FORM_data16': ('array', 16, u(1)), 'DW_FORM_sdata': SL, 'DW_FORM_udata': U,
        'DW_FORM_string': ('cstring', b'\x00', None),
        'DW_FORM_strp': OFF, 'DW_FORM_line_strp': OFF, 'DW_FORM_strp_sup': OFF, 'DW_FORM_sec_offset': OFF,
        'DW_FORM_strx': U, 'DW_FORM_strx1': u(1), 'DW_FORM_strx2': u(2), 'DW_FORM_strx3': ('int24', en),
        'DW_FORM_strx4': u(4),
        'DW_FORM_flag': u(1), 'DW_FORM_flag_present': ('bytes', 0),
        'DW_FORM_ref1': u(1), 'DW_FORM_ref2': u(2), 'DW_FORM_ref4': u(4), 'DW_FORM_ref8': u(8),
        'DW_FORM_ref_udata': U, 'DW_FORM_ref_sig8': u(8), 'DW_FORM_ref_sup4': u(4), 'DW_FORM_ref_sup8': u(8),
        'DW_FORM_ref_addr': ADDR if dwarf_version == 2 else OFF,
        'DW_FORM_indirect': U, 'DW_FORM_implicit_const': None,
        'DW_FORM_loclistx': U, 'DW_FORM_rnglistx': U,
        'DW_FORM_GNU_strp_alt': OFF, 'DW_FORM_GNU_ref_alt': OFF,
    }
    P = {'Dwarf_uint8': u(1), 'Dwarf_uint16': u(2), 'Dwarf_uint24': ('int24', en), 'Dwarf_uint32': u(4),
         'Dwarf_uint64': u(8), 'Dwarf_int8': s(1), 'Dwarf_int16': s(2), 'Dwarf_int32': s(4), 'Dwarf_int64': s(8),
         'Dwarf_offset': OFF, 'Dwarf_length': OFF, 'Dwarf_target_addr': ADDR, 'Dwarf_uleb128': U,
         'Dwarf_sleb128': SL, 'Dwarf_initial_length': IL}
    THE = {'the_Dwarf_offset': OFF, 'the_Dwarf_target_addr': ADDR, 'the_Dwarf_uint32': u(4), 'the_Dwarf_uint16': u(2),
           'the_Dwarf_uint8': u(1), 'the_Dwarf_uleb128': U, 'the_Dwarf_sleb128': SL}
    return L, F, P, THE
