"""Independent encoder of location / range lists (DWARF v5 2.6.2, 2.17.3, 7.7.3, 7.25, 7.28, 7.29; pre-v5
.debug_loc / .debug_ranges) together with the minimal .debug_info / .debug_abbrev / .debug_addr needed to
reach them (one root entry per unit carrying the base attributes and index-form references), used as
the oracle of the C07 bounded differential.  Imports nothing from the library."""
from specs.die_spec import uleb, code, Cfg

RLE = dict(end_of_list=0, base_addressx=1, startx_endx=2, startx_length=3, offset_pair=4, base_address=5, start_end=6, start_length=7)
LLE = dict(end_of_list=0, base_addressx=1, startx_endx=2, startx_length=3, offset_pair=4, default_location=5, base_address=6,
           start_end=7, start_length=8)


def _expr(rng):
    n = rng.choice([0, 1, 2, 5, 130])
    return bytes(rng.randrange(256) for _ in range(n))


def gen_v5_list(rng, cfg, addrs, loc, start):
    """(bytes, expected translated entries, raw kinds) of one v5 list placed at section offset `start`"""
    out, exp, raw = bytearray(), [], []
    kinds = [k for k in (LLE if loc else RLE) if k != 'end_of_list']
    for _ in range(rng.choice([0, 1, 2, 4, 7])):
        k = rng.choice(kinds)
        off = start + len(out)
        b = bytearray([(LLE if loc else RLE)[k]])
        a = rng.randrange(1 << (8 * cfg.asz))
        a2 = rng.randrange(1 << (8 * cfg.asz))
        i, j = rng.randrange(len(addrs)), rng.randrange(len(addrs))
        u1, u2 = rng.choice([0, 1, 127, 128, 70000]), rng.choice([0, 5, 300, 2 ** 33])
        ex = _expr(rng) if loc and k not in ('base_addressx', 'base_address') else None
        if k == 'base_addressx':
            b += uleb(i)
            ent = ('base', addrs[i])
        elif k == 'startx_endx':
            b += uleb(i) + uleb(j)
            ent = ('range', addrs[i], addrs[j], True)
        elif k == 'startx_length':
            b += uleb(i) + uleb(u2)
            ent = ('range', addrs[i], addrs[i] + u2, True)
        elif k == 'offset_pair':
            b += uleb(u1) + uleb(u2)
            ent = ('range', u1, u2, False)
        elif k == 'default_location':
            ent = ('range', -1, -1, True)
        elif k == 'base_address':
            b += cfg.u(a, cfg.asz)
            ent = ('base', a)
        elif k == 'start_end':
            b += cfg.u(a, cfg.asz) + cfg.u(a2, cfg.asz)
            ent = ('range', a, a2, True)
        elif k == 'start_length':
            b += cfg.u(a, cfg.asz) + uleb(u2)
            ent = ('range', a, a + u2, True)
        if ex is not None:
            b += uleb(len(ex)) + ex
        out += b
        exp.append(dict(kind=ent[0], entry_offset=off, entry_length=len(b), vals=ent[1:], expr=None if ex is None else list(ex)))
        raw.append(('DW_LLE_' if loc else 'DW_RLE_') + k)
    out += b'\x00'
    return bytes(out), exp, raw


def gen_v5_block(rng, cfg, addrs, loc, section_offset):
    """one unit block of .debug_rnglists / .debug_loclists at section_offset:
    (bytes, dict(base=offset of the offset table, lists=[(offset, expected, raw)], offsets=[...], header fields))"""
    n = rng.choice([0, 1, 3])
    il = 4 if cfg.fmt == 32 else 12
    hdr_len = il + 2 + 1 + 1 + 4
    base = section_offset + hdr_len
    table_len = n * cfg.osz
    lists, body = [], bytearray()
    nl = max(n, rng.choice([1, 2, 4]))
    for _ in range(nl):
        start = base + table_len + len(body)
        b, exp, raw = gen_v5_list(rng, cfg, addrs, loc, start)
        lists.append((start, exp, raw))
        body += b
    offsets = [lists[i][0] - base for i in range(n)]
    table = b''.join(cfg.off(o) for o in offsets)
    rest = cfg.u(5, 2) + bytes([cfg.asz, 0]) + cfg.u(n, 4) + table + bytes(body)
    data = cfg.initial_length(len(rest)) + rest
    return data, dict(block_offset=section_offset, base=base, lists=lists, offsets=offsets, offset_count=n, unit_length=len(rest),
                      end=section_offset + len(data))


def gen_v4_list(rng, cfg, loc, start):
    """pre-v5 list: address pairs, base selection (first word all ones), terminator (0, 0)"""
    out, exp = bytearray(), []
    mx = (1 << (8 * cfg.asz)) - 1
    for _ in range(rng.choice([0, 1, 3, 6])):
        off = start + len(out)
        if rng.random() < 0.3:
            a = rng.randrange(1, mx)
            b = cfg.u(mx, cfg.asz) + cfg.u(a, cfg.asz)
            exp.append(dict(kind='base', entry_offset=off, entry_length=len(b), vals=(a,), expr=None))
        else:
            lo, hi = rng.randrange(0, mx), rng.randrange(0, mx + 1)
            if lo == 0 and hi == 0:
                hi = 1
            b = cfg.u(lo, cfg.asz) + cfg.u(hi, cfg.asz)
            ex = None
            if loc:
                ex = _expr(rng)
                b += cfg.u(len(ex), 2) + ex
            exp.append(dict(kind='range', entry_offset=off, entry_length=len(b), vals=(lo, hi, False), expr=None if ex is None else list(ex)))
        out += b
    out += b'\x00' * (2 * cfg.asz)
    return bytes(out), exp


def gen_case(rng, le):
    """sections + expectations: several units (v4 and v5, mixed formats / address sizes)"""
    units = []
    info = abbrev = addr = rng_v5 = loc_v5 = rng_v4 = loc_v4 = b''
    n_units = rng.choice([1, 2, 3])
    asz = rng.choice([4, 8])       # one address size per file: the list sections are read with the file-level size
    for _ in range(n_units):
        version = rng.choice([4, 5, 5])
        cfg = Cfg(le, rng.choice([32, 64]), asz, version)
        u = dict(cfg=cfg, version=version, cu_offset=len(info))
        attrs = []      # (attribute, form, encoded bytes)
        if version >= 5:
            addrs = [rng.randrange(1 << (8 * cfg.asz)) for _ in range(rng.choice([1, 2, 9]))]
            addr_base = len(addr) + 8
            addr += b'\x00' * 8 + b''.join(cfg.u(a, cfg.asz) for a in addrs)
            rb, rx = gen_v5_block(rng, cfg, addrs, False, len(rng_v5))
            rng_v5 += rb
            lb, lx = gen_v5_block(rng, cfg, addrs, True, len(loc_v5))
            loc_v5 += lb
            if rng.random() < 0.4:        # a gap between unit blocks is not allowed by 7.28; blocks are adjacent
                pass
            u.update(addrs=addrs, rng=rx, loc=lx)
            order = [('DW_AT_addr_base', 'DW_FORM_sec_offset', cfg.off(addr_base)),
                     ('DW_AT_rnglists_base', 'DW_FORM_sec_offset', cfg.off(rx['base'])),
                     ('DW_AT_loclists_base', 'DW_FORM_sec_offset', cfg.off(lx['base']))]
            rng.shuffle(order)
            attrs += order
            if rx['offset_count']:
                u['ranges_index'] = rng.randrange(rx['offset_count'])
                attrs.insert(rng.randrange(len(attrs) + 1), ('DW_AT_ranges', 'DW_FORM_rnglistx', uleb(u['ranges_index'])))
            if lx['offset_count']:
                u['loc_index'] = rng.randrange(lx['offset_count'])
                attrs.insert(rng.randrange(len(attrs) + 1), ('DW_AT_location', 'DW_FORM_loclistx', uleb(u['loc_index'])))
        else:
            lists_r, lists_l = [], []
            for _k in range(rng.choice([1, 2, 3])):
                b, exp = gen_v4_list(rng, cfg, False, len(rng_v4))
                lists_r.append((len(rng_v4), exp))
                rng_v4 += b
                b, exp = gen_v4_list(rng, cfg, True, len(loc_v4))
                lists_l.append((len(loc_v4), exp))
                loc_v4 += b
            u.update(rng4=lists_r, loc4=lists_l)
            attrs.append(('DW_AT_ranges', 'DW_FORM_sec_offset', cfg.off(lists_r[0][0])))
            attrs.append(('DW_AT_location', 'DW_FORM_sec_offset', cfg.off(lists_l[0][0])))
        aoff = len(abbrev)
        abbrev += uleb(1) + uleb(code('DW_TAG_compile_unit')) + b'\x00' + b''.join(uleb(code(a)) + uleb(code(f)) for a, f, _ in attrs) + b'\x00\x00\x00'
        die = uleb(1) + b''.join(b for _, _, b in attrs)
        if version >= 5:
            hdr = cfg.u(5, 2) + bytes([1, cfg.asz]) + cfg.off(aoff)
        else:
            hdr = cfg.u(version, 2) + cfg.off(aoff) + bytes([cfg.asz])
        info += cfg.initial_length(len(hdr) + len(die)) + hdr + die
        units.append(u)
    secs = dict(debug_info=info, debug_abbrev=abbrev, debug_addr=addr, debug_rnglists=rng_v5, debug_loclists=loc_v5,
                debug_ranges=rng_v4, debug_loc=loc_v4)
    return secs, units, asz
