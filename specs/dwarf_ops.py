"""DWARF expression operations and their operands (DWARF v5 7.7.1 table 7.9, plus the GNU and
WebAssembly extensions the library lists).  Operand kinds:
  ('u', n) / ('s', n) fixed-width unsigned / signed; 'ULEB'; 'SLEB'; 'ADDR' (address size of the unit);
  'OFF' (4 or 8 bytes by DWARF format); 'BLOCK' (ULEB n + n bytes); 'NESTED' (ULEB n + n bytes parsed
  as an expression); 'TYPEDBLOB' (ULEB type, u8 n, n bytes); 'WASM' (u8 kind; ULEB for 0-2, u32 for 3)."""

NOARG = ['deref', 'dup', 'drop', 'over', 'swap', 'rot', 'xderef', 'abs', 'and', 'div', 'minus', 'mod', 'mul', 'neg',
         'not', 'or', 'plus', 'shl', 'shr', 'shra', 'xor', 'eq', 'ge', 'gt', 'le', 'lt', 'ne', 'nop',
         'push_object_address', 'form_tls_address', 'call_frame_cfa', 'stack_value', 'GNU_push_tls_address',
         'GNU_uninit']

OPS = {}
for _n in NOARG:
    OPS['DW_OP_' + _n] = []
for _i in range(32):
    OPS['DW_OP_lit%d' % _i] = []
    OPS['DW_OP_reg%d' % _i] = []
    OPS['DW_OP_breg%d' % _i] = ['SLEB']
OPS.update({
    'DW_OP_addr': ['ADDR'],
    'DW_OP_const1u': [('u', 1)], 'DW_OP_const1s': [('s', 1)], 'DW_OP_const2u': [('u', 2)], 'DW_OP_const2s': [('s', 2)],
    'DW_OP_const4u': [('u', 4)], 'DW_OP_const4s': [('s', 4)], 'DW_OP_const8u': [('u', 8)], 'DW_OP_const8s': [('s', 8)],
    'DW_OP_constu': ['ULEB'], 'DW_OP_consts': ['SLEB'], 'DW_OP_pick': [('u', 1)], 'DW_OP_plus_uconst': ['ULEB'],
    'DW_OP_bra': [('s', 2)], 'DW_OP_skip': [('s', 2)], 'DW_OP_regx': ['ULEB'], 'DW_OP_fbreg': ['SLEB'],
    'DW_OP_bregx': ['ULEB', 'SLEB'], 'DW_OP_piece': ['ULEB'], 'DW_OP_deref_size': [('u', 1)],
    'DW_OP_xderef_size': [('u', 1)], 'DW_OP_call2': [('u', 2)], 'DW_OP_call4': [('u', 4)], 'DW_OP_call_ref': ['OFF'],
    'DW_OP_bit_piece': ['ULEB', 'ULEB'], 'DW_OP_implicit_value': ['BLOCK'],
    'DW_OP_implicit_pointer': ['OFF', 'SLEB'], 'DW_OP_addrx': ['ULEB'], 'DW_OP_constx': ['ULEB'],
    'DW_OP_entry_value': ['NESTED'], 'DW_OP_const_type': ['TYPEDBLOB'], 'DW_OP_regval_type': ['ULEB', 'ULEB'],
    'DW_OP_deref_type': [('u', 1), 'ULEB'], 'DW_OP_xderef_type': [('u', 1), 'ULEB'], 'DW_OP_convert': ['ULEB'],
    'DW_OP_reinterpret': ['ULEB'],
    'DW_OP_GNU_implicit_pointer': ['OFF', 'SLEB'], 'DW_OP_GNU_entry_value': ['NESTED'],
    'DW_OP_GNU_const_type': ['TYPEDBLOB'], 'DW_OP_GNU_regval_type': ['ULEB', 'ULEB'],
    'DW_OP_GNU_deref_type': [('u', 1), 'ULEB'], 'DW_OP_GNU_convert': ['ULEB'],
    'DW_OP_GNU_parameter_ref': [('u', 4)],        # a 4-byte unit-relative DIE offset (GCC, binutils)
    'DW_OP_WASM_location': ['WASM'],
})
RANGE_MARKERS = ('DW_OP_lo_user', 'DW_OP_hi_user')


def registry_opcodes():
    """operation name -> opcode numbers the vendored registries assign (LLVM Dwarf.def; the hand-entered GNU vendor
    block of registry/supplement.json): the independent source of the numbers, so that a library table that swaps
    the numbers of two operations is not its own oracle"""
    import json
    import os
    here = os.path.join(os.path.dirname(os.path.dirname(os.path.abspath(__file__))), 'registry')
    out = {}
    for f in ('llvm_dwarf.json', 'supplement.json'):
        for n, v in json.load(open(os.path.join(here, f)))['names'].items():
            if n.startswith('DW_OP_'):
                out.setdefault(n, set()).update(v)
    return out


def _uleb(v):
    out = bytearray()
    while True:
        b = v & 0x7f
        v >>= 7
        if v:
            out.append(b | 0x80)
        else:
            out.append(b)
            return bytes(out)


def _sleb(v):
    out = bytearray()
    while True:
        b = v & 0x7f
        v >>= 7
        if (v == 0 and not b & 0x40) or (v == -1 and b & 0x40):
            out.append(b)
            return bytes(out)
        out.append(b | 0x80)


def gen_operands(kinds, cfg, rng, depth=0):
    """(bytes, decoded args) for the operand list under cfg = (little_endian, format, address_size)"""
    le, fmt, asz = cfg
    bo = 'little' if le else 'big'
    raw, args = b'', []
    for k in kinds:
        if isinstance(k, tuple):
            sign, n = k
            v = rng.choice([0, 1, 127, 128, 200, 255, rng.randrange(0, 1 << (8 * n))]) % (1 << (8 * n))
            b = v.to_bytes(n, bo)
            raw += b
            args.append(int.from_bytes(b, bo, signed=(sign == 's')))
        elif k == 'ULEB':
            v = rng.choice([0, 1, 127, 128, 300, 1 << 20, rng.randrange(0, 1 << 35), (1 << 63), (1 << 64) - 1, rng.randrange(0, 1 << 64)])
            raw += _uleb(v)
            args.append(v)
        elif k == 'SLEB':
            # every width / sign boundary up to the 64-bit limits (INT64_MIN takes ten groups)
            v = rng.choice([0, 1, -1, 63, 64, -64, -65, 300, -300, rng.randrange(-(1 << 34), 1 << 34),
                            (1 << 63) - 1, -(1 << 63), -(1 << 62) - 1, (1 << 62), -(1 << 56) - 1, rng.randrange(-(1 << 63), 1 << 63)])
            raw += _sleb(v)
            args.append(v)
        elif k in ('ADDR', 'OFF'):
            n = asz if k == 'ADDR' else (4 if fmt == 32 else 8)
            v = rng.randrange(0, 1 << (8 * n))
            raw += v.to_bytes(n, bo)
            args.append(v)
        elif k == 'BLOCK':
            n = rng.choice([0, 1, 3, 127, 128, 200])
            blob = bytes(rng.randrange(256) for _ in range(n))
            raw += _uleb(n) + blob
            args.append(list(blob))
        elif k == 'TYPEDBLOB':
            t = rng.choice([1, 130, 5000])
            n = rng.choice([0, 1, 4, 8, 127, 128, 200, 255])
            blob = bytes(rng.randrange(256) for _ in range(n))
            raw += _uleb(t) + bytes([n]) + blob
            args.extend([t, list(blob)])
        elif k == 'NESTED':
            inner_raw, inner_ops = gen_expr(cfg, rng, depth + 1, rng.randrange(0, 3))
            raw += _uleb(len(inner_raw)) + inner_raw
            args.append(inner_ops)
        elif k == 'WASM':
            kind = rng.randrange(0, 4)
            if kind <= 2:
                v = rng.randrange(0, 1 << 20)
                raw += bytes([kind]) + _uleb(v)
            else:
                v = rng.randrange(0, 1 << 32)
                raw += bytes([kind]) + v.to_bytes(4, bo)
            args.extend([kind, v])
    return raw, args


def gen_expr(cfg, rng, depth, nops, names=None):
    """(bytes, [(opcode, name, args, offset)]) of a well-formed expression"""
    import elftools.dwarf.dwarf_expr as X
    names = names or [n for n in OPS if (depth == 0 or OPS[n] != ['NESTED'] or depth < 2)]
    raw, ops = b'', []
    for _ in range(nops):
        n = rng.choice(names)
        code = X.DW_OP_name2opcode.get(n)
        if code is None:
            continue
        b, a = gen_operands(OPS[n], cfg, rng, depth)
        ops.append((code, n, a, len(raw)))
        raw += bytes([code]) + b
    return raw, ops
