"""EHABI index-table specification (IHI 0038, 4.4.2 prel31, 5 index table entries, 6.3 compact
model table entries)."""
from specs.elf import P


def prel31(w, place):
    """place-relative 31-bit offset: sign taken from bit 30, result modulo 2^64"""
    return (place + ((w % 2**31) - 2**31 if (w % 2**31) >= 2**30 else (w % 2**31))) % 2**64


def entry_kind(B, o, w0, w1):
    return ('CorruptEHABIEntry' if w0 >= 2**31 else
            'CannotUnwindEHABIEntry' if w1 == 1 else
            (table_kind(P('EH_table_struct', B, prel31(w1, o + 4)).word0) if w1 < 2**31 else
             ('CorruptEHABIEntry' if (w1 // 2**24) % 128 != 0 else 'EHABIEntry')))


def table_kind(t0):
    """first word of a table entry: bit 31 clear = generic model (prel31 personality routine);
    bit 31 set = compact model, index in bits 24..27 (bits 28..30 must be zero), models 0..2 defined"""
    return ('GenericEHABIEntry' if t0 < 2**31 else
            'CorruptEHABIEntry' if (t0 // 2**28) % 8 != 0 else
            'EHABIEntry' if (t0 // 2**24) % 128 <= 2 else 'CorruptEHABIEntry')


def nth_opcode(word, i):
    """opcode i (0..3) of a table word: most significant byte first"""
    return ((word // 2**24) % 256 if i == 0 else (word // 2**16) % 256 if i == 1 else
            (word // 2**8) % 256 if i == 2 else word % 256)
