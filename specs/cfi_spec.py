"""Call-frame information per DWARF v5 6.4 / 7.24 and the LSB .eh_frame conventions, as an
independent encoder/decoder/interpreter used as the oracle of the C06 differential obligations.

Instruction operand kinds (DESIGN appendix A.3): 'U' ULEB128, 'S' SLEB128, 'u1'/'u2'/'u4' fixed,
'ADDR' address-sized, 'BLK' ULEB length + bytes.  Primary opcodes carry their first operand in the
low six bits."""
from specs.dwarf_ops import _uleb, _sleb

PRIMARY = {0x40: ('DW_CFA_advance_loc', []), 0x80: ('DW_CFA_offset', ['U']), 0xc0: ('DW_CFA_restore', [])}
EXTENDED = {
    0x00: ('DW_CFA_nop', []), 0x01: ('DW_CFA_set_loc', ['ADDR']), 0x02: ('DW_CFA_advance_loc1', ['u1']),
    0x03: ('DW_CFA_advance_loc2', ['u2']), 0x04: ('DW_CFA_advance_loc4', ['u4']),
    0x05: ('DW_CFA_offset_extended', ['U', 'U']), 0x06: ('DW_CFA_restore_extended', ['U']),
    0x07: ('DW_CFA_undefined', ['U']), 0x08: ('DW_CFA_same_value', ['U']), 0x09: ('DW_CFA_register', ['U', 'U']),
    0x0a: ('DW_CFA_remember_state', []), 0x0b: ('DW_CFA_restore_state', []), 0x0c: ('DW_CFA_def_cfa', ['U', 'U']),
    0x0d: ('DW_CFA_def_cfa_register', ['U']), 0x0e: ('DW_CFA_def_cfa_offset', ['U']),
    0x0f: ('DW_CFA_def_cfa_expression', ['BLK']), 0x10: ('DW_CFA_expression', ['U', 'BLK']),
    0x11: ('DW_CFA_offset_extended_sf', ['U', 'S']), 0x12: ('DW_CFA_def_cfa_sf', ['U', 'S']),
    0x13: ('DW_CFA_def_cfa_offset_sf', ['S']), 0x14: ('DW_CFA_val_offset', ['U', 'U']),
    0x15: ('DW_CFA_val_offset_sf', ['U', 'S']), 0x16: ('DW_CFA_val_expression', ['U', 'BLK']),
    0x2d: ('DW_CFA_GNU_window_save|DW_CFA_AARCH64_negate_ra_state', []),
    0x2e: ('DW_CFA_GNU_args_size', ['U']),
}


def gen_instruction(rng, asz, le, allow):
    """(bytes, opcode, args) of one random instruction from the allowed names"""
    bo = 'little' if le else 'big'
    choices = [(c, n, k) for c, (n, k) in list(PRIMARY.items()) + list(EXTENDED.items()) if n in allow]
    code, name, kinds = rng.choice(choices)
    args, raw = [], b''
    opcode = code
    if code in PRIMARY:
        low = rng.randrange(0, 64)
        opcode = code | low
        args.append(low)
    for k in kinds:
        if k == 'U':
            v = rng.choice([0, 1, 2, 7, 16, 31, 127, 128, 300])
            raw += _uleb(v)
            args.append(v)
        elif k == 'S':
            v = rng.choice([0, 1, -1, 2, -2, 8, -8, 63, 64, -64, -65, 300, -300])
            raw += _sleb(v)
            args.append(v)
        elif k in ('u1', 'u2', 'u4'):
            n = int(k[1])
            v = rng.choice([0, 1, 200, (1 << (8 * n)) - 1, rng.randrange(0, 1 << (8 * n))])
            raw += v.to_bytes(n, bo)
            args.append(v)
        elif k == 'ADDR':
            v = rng.randrange(0, 1 << (8 * asz))
            raw += v.to_bytes(asz, bo)
            args.append(v)
        elif k == 'BLK':
            n = rng.choice([0, 1, 3, 130])
            blob = bytes(rng.randrange(256) for _ in range(n))
            raw += _uleb(n) + blob
            args.append(list(blob))
    return bytes([opcode]) + raw, opcode, args


def name_of(opcode):
    if opcode & 0xc0:
        return PRIMARY[opcode & 0xc0][0]
    return EXTENDED[opcode][0]


REG_OPS = ('DW_CFA_undefined', 'DW_CFA_same_value', 'DW_CFA_offset', 'DW_CFA_offset_extended',
           'DW_CFA_offset_extended_sf', 'DW_CFA_val_offset', 'DW_CFA_val_offset_sf', 'DW_CFA_register',
           'DW_CFA_expression', 'DW_CFA_val_expression', 'DW_CFA_restore', 'DW_CFA_restore_extended')


def reg_order(instrs, inherited):
    """registers in order of first appearance: those of the CIE's initial instructions first"""
    order = list(inherited)
    for opcode, args in instrs:
        if name_of(opcode) in REG_OPS and args[0] not in order:
            order.append(args[0])
    return order


def interpret(instrs, code_align, data_align, initial_location, cie_rows, is_cie):
    """DWARF 6.4.2: rows of (pc, cfa, {reg: rule}) and register order.
    cfa = ('reg+off', reg, off) | ('expr', bytes); rule = (kind, arg)"""
    if is_cie:
        cur = dict(pc=0, cfa=('reg+off', None, 0), regs={})
        init = None
    else:
        if cie_rows:
            last = cie_rows[-1]
            cur = dict(pc=initial_location, cfa=last['cfa'], regs=dict(last['regs']))
            init = dict(last['regs'])
        else:
            cur = dict(pc=initial_location, cfa=('reg+off', None, 0), regs={})
            init = {}
    rows, stack = [], []

    def emit():
        rows.append(dict(pc=cur['pc'], cfa=cur['cfa'], regs=dict(cur['regs'])))
    for opcode, args in instrs:
        n = name_of(opcode)
        if n == 'DW_CFA_set_loc':
            emit()
            cur['pc'] = args[0]
        elif n.startswith('DW_CFA_advance_loc'):
            emit()
            cur['pc'] += args[0] * code_align
        elif n == 'DW_CFA_def_cfa':
            cur['cfa'] = ('reg+off', args[0], args[1])
        elif n == 'DW_CFA_def_cfa_sf':
            cur['cfa'] = ('reg+off', args[0], args[1] * data_align)
        elif n == 'DW_CFA_def_cfa_register':
            cur['cfa'] = ('reg+off', args[0], cur['cfa'][2] if cur['cfa'][0] == 'reg+off' else None)
        elif n == 'DW_CFA_def_cfa_offset':
            cur['cfa'] = ('reg+off', cur['cfa'][1] if cur['cfa'][0] == 'reg+off' else None, args[0])
        elif n == 'DW_CFA_def_cfa_offset_sf':
            cur['cfa'] = ('reg+off', cur['cfa'][1] if cur['cfa'][0] == 'reg+off' else None, args[0] * data_align)
        elif n == 'DW_CFA_def_cfa_expression':
            cur['cfa'] = ('expr', args[0])
        elif n == 'DW_CFA_undefined':
            cur['regs'][args[0]] = ('UNDEFINED', None)
        elif n == 'DW_CFA_same_value':
            cur['regs'][args[0]] = ('SAME_VALUE', None)
        elif n in ('DW_CFA_offset', 'DW_CFA_offset_extended', 'DW_CFA_offset_extended_sf'):
            cur['regs'][args[0]] = ('OFFSET', args[1] * data_align)
        elif n in ('DW_CFA_val_offset', 'DW_CFA_val_offset_sf'):
            cur['regs'][args[0]] = ('VAL_OFFSET', args[1] * data_align)
        elif n == 'DW_CFA_register':
            cur['regs'][args[0]] = ('REGISTER', args[1])
        elif n == 'DW_CFA_expression':
            cur['regs'][args[0]] = ('EXPRESSION', args[1])
        elif n == 'DW_CFA_val_expression':
            cur['regs'][args[0]] = ('VAL_EXPRESSION', args[1])
        elif n in ('DW_CFA_restore', 'DW_CFA_restore_extended'):
            if args[0] in init:
                cur['regs'][args[0]] = init[args[0]]
            else:
                cur['regs'].pop(args[0], None)
        elif n == 'DW_CFA_remember_state':
            stack.append((cur['cfa'], dict(cur['regs'])))
        elif n == 'DW_CFA_restore_state':
            cfa, regs = stack.pop()
            cur['cfa'], cur['regs'] = cfa, regs
    if cur['cfa'][0] == 'expr' or cur['cfa'][1] is not None or cur['regs']:
        emit()
    return rows


def real_rows(decoded):
    """rows of the library's DecodedCallFrameTable in the spec's representation"""
    rows = []
    for line in decoded.table:
        cfa = line['cfa']
        c = ('expr', cfa.expr) if cfa.expr is not None else ('reg+off', cfa.reg, cfa.offset)
        regs = {k: (v.type, v.arg) for k, v in line.items() if k not in ('pc', 'cfa')}
        rows.append(dict(pc=line['pc'], cfa=c, regs=regs))
    return rows
