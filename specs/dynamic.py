"""Specification helpers for the dynamic table (gABI 'Dynamic Section')."""
import z3
from pyvc.vals import to_int, ArrS, IntS
from specs.elf import P


def dyn(d, j):
    """entry j of the dynamic table"""
    return P('Elf_Dyn', d._stream.B, d._offset + j * d._tagsize)


def _native(f):
    f._native = True
    return f


@_native
def dynstr(I, B, o):
    """NUL-terminated string at o, decoded as UTF-8 with replacement -- the decoding of the section view's string table
    (specs/elf.py secname): C09 demands the SAME strings with and without section headers; '' when empty or unterminated"""
    from pyvc.calls import nul_axioms
    arr = B.arr
    o = to_int(o)
    q = nul_axioms(I, arr, o)
    dec = z3.Function('decode!utf-8!replace', ArrS, IntS, IntS, z3.StringSort())
    present = z3.And(q < to_int(B.n), z3.Select(arr, q) == 0, q > o)
    return z3.If(present, dec(arr, z3.If(q - o == 0, z3.IntVal(0), o), q - o), z3.StringVal(''))


def _dynstr_py(B, o):
    B = bytes(B)
    e = B.find(b'\x00', o)
    if e < 0 or o > len(B):
        return ''
    return B[o:e].decode('utf-8', errors='replace')


dynstr.py = _dynstr_py


_dynfirst = z3.Function('dynfirst', ArrS, IntS, IntS, z3.StringSort(), IntS)


@_native
def dynfirst(I, d, name):
    """index of the first entry whose tag is `name` or DT_NULL (the walk never looks past it)"""
    from pyvc.vals import to_str
    st = d.attrs['_stream']
    off, ts = to_int(d.attrs['_offset']), to_int(d.attrs['_tagsize'])
    nm = to_str(name)
    f = _dynfirst(st.arr, off, ts, nm)
    isn = z3.Function('Elf_Dyn.d_tag.isname', ArrS, IntS, z3.BoolSort())
    nmf = z3.Function('Elf_Dyn.d_tag.name', ArrS, IntS, z3.StringSort())

    def hit(j):
        p = off + j * ts
        return z3.And(isn(st.arr, p), z3.Or(nmf(st.arr, p) == nm, nmf(st.arr, p) == z3.StringVal('DT_NULL')))
    j = z3.Int('j!df')
    I.ctx.assume(f >= 0)
    I.ctx.assume(z3.ForAll([j], z3.Implies(z3.And(j >= 0, j < f), z3.Not(hit(j))), patterns=[isn(st.arr, off + j * ts)]))
    I.ctx.assume(z3.ForAll([j], z3.Implies(z3.And(j >= 0, hit(j)), z3.And(f <= j, hit(f))),
                           patterns=[isn(st.arr, off + j * ts)]))
    return f


def _dynfirst_py(d, name):
    j = 0
    while True:
        t = dyn(d, j).d_tag
        if t == name or t == 'DT_NULL':
            return j
        j += 1


dynfirst.py = _dynfirst_py
