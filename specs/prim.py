"""Specification functions for the primitive decoders (C16) and small integer helpers."""
import z3
from pyvc.calls import SpecFn
from pyvc.vals import to_int, IntS, ArrS
from pyvc import bitops


def _native(f):
    f._native = True
    return f


@_native
def pow2(I, k):
    if isinstance(k, int):
        return 2 ** k
    return bitops.pow2(to_int(k))


# uleb_partial(B, p, i) = sum_{j<i} (B[p+j] mod 128) * 128^j   (recursive definition,
# unfolded by the axioms below; DWARF v5 7.6)
_uleb_partial = z3.Function('uleb_partial', ArrS, IntS, IntS, IntS)


@_native
def uleb_partial(I, B, p, i):
    arr = B.arr if hasattr(B, 'arr') else B
    return _uleb_partial(arr, to_int(p), to_int(i))


def _unfold_uleb_partial(t):
    arr, p, i = t.arg(0), t.arg(1), t.arg(2)
    f = _uleb_partial
    return [f(arr, p, 0) == 0,
            z3.Implies(i >= 1, f(arr, p, i) == f(arr, p, i - 1) + (z3.Select(arr, p + i - 1) % 128) * bitops.pow2(7 * (i - 1)))]


from pyvc.verify import register_recdef
register_recdef('uleb_partial', _unfold_uleb_partial)


def sext31(w):
    """sign extension of the low 31 bits (ARM EHABI prel31: sign bit is bit 30)"""
    return (w % 2**31) - 2**31 if (w % 2**31) >= 2**30 else (w % 2**31)


def _uleb_partial_py(B, p, i):
    return sum((B[p + j] % 128) << (7 * j) for j in range(i))


uleb_partial.py = _uleb_partial_py
pow2.py = lambda k: 2 ** k
