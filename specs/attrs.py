"""Build-attribute value kinds (abstract primitives of the walkers)."""
import z3
from pyvc.vals import to_int, ArrS, IntS, BoolS, SBytes
from pyvc.verify import register_recdef
from pyvc.calls import UFMaker, LAYOUTS


def _native(f):
    f._native = True
    return f


_uval = z3.Function('leb.u.val', ArrS, IntS, IntS)
_uend = z3.Function('leb.end', ArrS, IntS, IntS)
_useq = z3.Function('useq_off', ArrS, IntS, IntS, IntS)


@_native
def uval(I, B, p):
    """value of the ULEB128 at p (byte-level definition: C16 contract of ULEB128._parse)"""
    return _uval(B.arr, to_int(p))


@_native
def uend(I, B, p):
    """position after the ULEB128 at p"""
    return _uend(B.arr, to_int(p))


@_native
def useq_off(I, B, start, k):
    """position of the k-th of a run of ULEB128 numbers starting at `start`"""
    return _useq(B.arr, to_int(start), to_int(k))


def _unfold_useq(t):
    arr, s0, k = t.arg(0), t.arg(1), t.arg(2)
    prev = _useq(arr, s0, k - 1)
    return [_useq(arr, s0, 0) == s0, z3.Implies(k >= 1, t == _uend(arr, prev)), _uend(arr, prev) > prev]


register_recdef('useq_off', _unfold_useq)


@_native
def tag_at(I, layout, B, p):
    """the tag (enum-coded ULEB128) at p"""
    from pyvc.vals import SRec
    mk = UFMaker(I.ctx, B.arr, to_int(p), layout)
    lay = LAYOUTS[layout]
    return lay.fields['tag'].make(mk, '%s.tag' % layout)


@_native
def tag_end(I, layout, B, p):
    return z3.Function('end!' + layout, ArrS, IntS, IntS)(B.arr, to_int(p))


@_native
def word_at(I, B, p, little):
    """Elf_word at p"""
    f = z3.Function('Elf_word', ArrS, IntS, IntS)
    return f(B.arr, to_int(p))


@_native
def ntbs_at(I, B, p):
    """NUL-terminated UTF-8 string at p"""
    from pyvc.calls import nul_axioms
    from pyvc.vals import view_args
    q = nul_axioms(I, B.arr, p)
    dec = z3.Function('decode!utf-8!strict', ArrS, IntS, IntS, z3.StringSort())
    return dec(*view_args(SBytes(B.arr, to_int(p), q - to_int(p))))


@_native
def ntbs_end(I, B, p):
    from pyvc.calls import nul_axioms
    return nul_axioms(I, B.arr, p)


_ssoff = {}


@_native
def subsub_off(I, layout, B, start, k):
    """offset of sub-subsection k: each starts with a File/Section/Symbol tag followed by its own
    32-bit byte size (counted from the sub-subsection's start)"""
    name = 'subsub_off!' + layout
    f = z3.Function(name, ArrS, IntS, IntS, IntS)
    if name not in _ssoff:
        word = z3.Function('Elf_word', ArrS, IntS, IntS)
        tend = z3.Function('end!' + layout, ArrS, IntS, IntS)

        def unfold(t, f=f):
            arr, s0, k = t.arg(0), t.arg(1), t.arg(2)
            prev = f(arr, s0, k - 1)
            return [f(arr, s0, 0) == s0, z3.Implies(k >= 1, t == prev + word(arr, tend(arr, prev)))]
        register_recdef(name, unfold)
        _ssoff[name] = f
    return f(B.arr, to_int(start), to_int(k))
