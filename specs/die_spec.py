"""Independent encoder of .debug_info / .debug_abbrev (DWARF v2-v5, 7.5) with the sections the
index forms need, used as the oracle of the C04 / C10 bounded differential obligations.

Nothing here imports the library: numbers come from the vendored registry (registry/llvm_dwarf.json),
encodings are written from the standard (7.5.1 unit headers, 7.5.3 abbreviations, 7.5.4-7.5.6 forms,
7.6 LEB128).  gen_section() returns the section bytes and, per unit, the expected entry sequence in
section order (null entries included) with the tree structure."""
import json
import os

_REG = json.load(open(os.path.join(os.path.dirname(os.path.dirname(os.path.abspath(__file__))), 'registry', 'llvm_dwarf.json')))['names']


def code(name):
    return _REG[name][0]


TAGS = ['DW_TAG_compile_unit', 'DW_TAG_subprogram', 'DW_TAG_variable', 'DW_TAG_base_type', 'DW_TAG_structure_type',
        'DW_TAG_member', 'DW_TAG_lexical_block', 'DW_TAG_formal_parameter', 'DW_TAG_typedef', 'DW_TAG_namespace']
ATTRS = ['DW_AT_name', 'DW_AT_byte_size', 'DW_AT_type', 'DW_AT_low_pc', 'DW_AT_high_pc', 'DW_AT_decl_file', 'DW_AT_decl_line',
         'DW_AT_external', 'DW_AT_location', 'DW_AT_frame_base', 'DW_AT_producer', 'DW_AT_language', 'DW_AT_comp_dir',
         'DW_AT_const_value', 'DW_AT_ranges', 'DW_AT_data_member_location', 'DW_AT_encoding', 'DW_AT_declaration']
UNKNOWN_TAG, UNKNOWN_ATTR = 0x3a7f, 0x2ef1          # numbers no registry defines: passed through as integers
SIBLING_FORMS = ['DW_FORM_ref4', 'DW_FORM_ref8', 'DW_FORM_ref_addr', 'DW_FORM_ref_udata']
V5_UNIT_TYPES = {'DW_UT_compile': 1, 'DW_UT_type': 2, 'DW_UT_partial': 3, 'DW_UT_skeleton': 4, 'DW_UT_split_compile': 5,
                 'DW_UT_split_type': 6}


def forms_for(version):
    f = ['DW_FORM_addr', 'DW_FORM_block1', 'DW_FORM_block2', 'DW_FORM_block4', 'DW_FORM_block', 'DW_FORM_data1', 'DW_FORM_data2',
         'DW_FORM_data4', 'DW_FORM_data8', 'DW_FORM_sdata', 'DW_FORM_udata', 'DW_FORM_string', 'DW_FORM_strp', 'DW_FORM_flag',
         'DW_FORM_ref1', 'DW_FORM_ref2', 'DW_FORM_ref4', 'DW_FORM_ref8', 'DW_FORM_ref_udata', 'DW_FORM_ref_addr', 'DW_FORM_indirect']
    if version >= 4:
        f += ['DW_FORM_sec_offset', 'DW_FORM_exprloc', 'DW_FORM_flag_present', 'DW_FORM_ref_sig8']
    if version >= 5:
        f += ['DW_FORM_strx', 'DW_FORM_strx1', 'DW_FORM_strx2', 'DW_FORM_strx3', 'DW_FORM_strx4', 'DW_FORM_addrx', 'DW_FORM_addrx1',
              'DW_FORM_addrx2', 'DW_FORM_addrx3', 'DW_FORM_addrx4', 'DW_FORM_data16', 'DW_FORM_line_strp', 'DW_FORM_implicit_const',
              'DW_FORM_loclistx', 'DW_FORM_rnglistx', 'DW_FORM_ref_sup4', 'DW_FORM_ref_sup8', 'DW_FORM_strp_sup']
    return f


def uleb(v, pad_to=0):
    out = bytearray()
    while True:
        b = v & 0x7f
        v >>= 7
        if v or len(out) + 1 < pad_to:
            out.append(b | 0x80)
        else:
            out.append(b)
            return bytes(out)


def sleb(v):
    out = bytearray()
    while True:
        b = v & 0x7f
        v >>= 7
        if (v == 0 and not b & 0x40) or (v == -1 and b & 0x40):
            out.append(b)
            return bytes(out)
        out.append(b | 0x80)


class Cfg:
    def __init__(self, le, fmt, asz, version, unit_type='DW_UT_compile'):
        self.le, self.fmt, self.asz, self.version, self.unit_type = le, fmt, asz, version, unit_type
        self.bo = 'little' if le else 'big'
        self.osz = 4 if fmt == 32 else 8

    def u(self, v, n):
        return int(v).to_bytes(n, self.bo)

    def off(self, v):
        return self.u(v, self.osz)

    def initial_length(self, n):
        return self.u(n, 4) if self.fmt == 32 else b'\xff\xff\xff\xff' + self.u(n, 8)


class Tables:
    """shared side sections; every unit appends its own contributions"""

    def __init__(self, rng):
        self.rng = rng
        words = [b'main', b'int', b'', b'a_rather_long_identifier_name_for_testing', b'x', b'/usr/src', b'\xc3\xa9t\xc3\xa9']
        self.str = b'\x00' + b'\x00'.join(words) + b'\x00'
        self.line_str = b'dir\x00file.c\x00\x00other.h\x00'
        self.addr = b''
        self.str_offsets = b''
        self.loclists = b''
        self.rnglists = b''

    def cstr_at(self, table, off):
        return table[off:table.index(b'\x00', off)]


def gen_value(rng, form, cfg, env, depth=0):
    """(encoded bytes, final form, raw value, resolved value, indirection length)"""
    r = rng
    if form == 'DW_FORM_addr':
        v = r.choice([0, 1, (1 << (8 * cfg.asz)) - 1, r.randrange(1 << (8 * cfg.asz))])
        return cfg.u(v, cfg.asz), form, v, v, 0
    if form.startswith('DW_FORM_addrx'):
        width = {'DW_FORM_addrx': None, 'DW_FORM_addrx1': 1, 'DW_FORM_addrx2': 2, 'DW_FORM_addrx3': 3, 'DW_FORM_addrx4': 4}[form]
        i = r.randrange(min(len(env['addrs']), 256 ** (width or 8)))
        return (uleb(i) if width is None else cfg.u(i, width)), form, i, env['addrs'][i], 0
    if form in ('DW_FORM_block1', 'DW_FORM_block2', 'DW_FORM_block4', 'DW_FORM_block', 'DW_FORM_exprloc'):
        n = r.choice([0, 1, 3, 130, 300]) if form not in ('DW_FORM_block1',) else r.choice([0, 1, 3, 200])
        blob = bytes(r.randrange(256) for _ in range(n))
        pre = {'DW_FORM_block1': lambda: cfg.u(n, 1), 'DW_FORM_block2': lambda: cfg.u(n, 2), 'DW_FORM_block4': lambda: cfg.u(n, 4)}
        head = pre[form]() if form in pre else uleb(n)
        return head + blob, form, list(blob), list(blob), 0
    if form in ('DW_FORM_data1', 'DW_FORM_data2', 'DW_FORM_data4', 'DW_FORM_data8', 'DW_FORM_ref1', 'DW_FORM_ref2', 'DW_FORM_ref4',
                'DW_FORM_ref8', 'DW_FORM_ref_sig8', 'DW_FORM_ref_sup4', 'DW_FORM_ref_sup8'):
        n = {'1': 1, '2': 2, '4': 4, '8': 8}[form[-1]]
        v = r.choice([0, 1, (1 << (8 * n)) - 1, r.randrange(1 << (8 * n))])
        return cfg.u(v, n), form, v, v, 0
    if form == 'DW_FORM_data16':
        blob = bytes(r.randrange(256) for _ in range(16))
        return blob, form, list(blob), list(blob), 0
    if form == 'DW_FORM_sdata':
        v = r.choice([0, -1, 1, 63, 64, -64, -65, 2 ** 31, -2 ** 63, r.randrange(-2 ** 40, 2 ** 40)])
        return sleb(v), form, v, v, 0
    if form in ('DW_FORM_udata', 'DW_FORM_ref_udata'):
        v = r.choice([0, 1, 127, 128, 16383, 16384, 2 ** 32, 2 ** 64 - 1, r.randrange(2 ** 50)])
        return uleb(v, r.choice([0, 0, 4])), form, v, v, 0
    if form == 'DW_FORM_string':
        s = r.choice([b'', b'v', b'some name', b'\xff\xfe'])
        return s + b'\x00', form, s, s, 0
    if form in ('DW_FORM_strp', 'DW_FORM_line_strp'):
        table = env['tables'].str if form == 'DW_FORM_strp' else env['tables'].line_str
        o = r.randrange(len(table) - 1)
        return cfg.off(o), form, o, env['tables'].cstr_at(table, o), 0
    if form in ('DW_FORM_strp_sup', 'DW_FORM_sec_offset', 'DW_FORM_GNU_strp_alt', 'DW_FORM_GNU_ref_alt'):
        v = r.choice([0, 1, (1 << (8 * cfg.osz)) - 1, r.randrange(1 << (8 * cfg.osz))])
        return cfg.off(v), form, v, v, 0
    if form == 'DW_FORM_ref_addr':
        n = cfg.asz if cfg.version == 2 else cfg.osz
        v = r.randrange(1 << (8 * n))
        return cfg.u(v, n), form, v, v, 0
    if form.startswith('DW_FORM_strx'):
        width = {'DW_FORM_strx': None, 'DW_FORM_strx1': 1, 'DW_FORM_strx2': 2, 'DW_FORM_strx3': 3, 'DW_FORM_strx4': 4}[form]
        i = r.randrange(min(len(env['stroffs']), 256 ** (width or 8)))
        return (uleb(i) if width is None else cfg.u(i, width)), form, i, env['tables'].cstr_at(env['tables'].str, env['stroffs'][i]), 0
    if form == 'DW_FORM_flag':
        v = r.choice([0, 1, 2, 255])
        return bytes([v]), form, v, v != 0, 0
    if form == 'DW_FORM_flag_present':
        return b'', form, b'', True, 0
    if form in ('DW_FORM_loclistx', 'DW_FORM_rnglistx'):
        key = 'locoffs' if form == 'DW_FORM_loclistx' else 'rngoffs'
        base = env['loc_base'] if form == 'DW_FORM_loclistx' else env['rng_base']
        i = r.randrange(len(env[key]))
        return uleb(i), form, i, base + env[key][i], 0
    if form == 'DW_FORM_indirect':
        real = r.choice([f for f in forms_for(cfg.version) if f != 'DW_FORM_implicit_const' and (depth < 2 or f != 'DW_FORM_indirect')])
        raw, ff, rv, val, ind = gen_value(r, real, cfg, env, depth + 1)
        return uleb(code(real)) + raw, ff, rv, val, ind + 1
    raise KeyError(form)


def gen_abbrevs(rng, cfg, n=7):
    """declarations: dict(code, tag, children, attrs=[(attr number, name-or-number, form, implicit value)])"""
    r = rng
    decls, codes = [], r.sample([1, 2, 3, 5, 8, 13, 100, 127, 128, 300, 70000], n)
    forms = forms_for(cfg.version)
    for i, c in enumerate(codes):
        tag = r.choice(TAGS + [UNKNOWN_TAG]) if i else 'DW_TAG_compile_unit'
        attrs, used = [], set()
        for _ in range(r.choice([0, 1, 2, 3, 5, 8])):
            a = r.choice(ATTRS + [UNKNOWN_ATTR])
            if a in used:
                continue
            used.add(a)
            f = r.choice(forms)
            if cfg.version >= 5 and r.random() < 0.15:
                f = 'DW_FORM_implicit_const'         # over-represented: the constant lives in the declaration (0 is a value like any other)
            attrs.append((a, f, r.choice([0, 0, -1, 5, 2 ** 40, -2 ** 33]) if f == 'DW_FORM_implicit_const' else None))
        kids = (i % 2 == 0)
        if kids and r.random() < 0.6:
            attrs.insert(r.randrange(len(attrs) + 1), ('DW_AT_sibling', r.choice(SIBLING_FORMS), None))
        decls.append(dict(code=c, tag=tag, children=kids, attrs=attrs))
    return decls


def enc_abbrevs(decls):
    out = b''
    for d in decls:
        out += uleb(d['code']) + uleb(code(d['tag']) if isinstance(d['tag'], str) else d['tag']) + bytes([1 if d['children'] else 0])
        for a, f, iv in d['attrs']:
            out += uleb(code(a) if isinstance(a, str) else a) + uleb(code(f))
            if f == 'DW_FORM_implicit_const':
                out += sleb(iv)
        out += b'\x00\x00'
    return out + b'\x00'


def gen_tree(rng, decls, depth, root=False):
    """node = (decl, [children]) ; a declaration with the children flag always gets a (possibly empty) list"""
    r = rng
    d = decls[0] if root else r.choice(decls[1:] if depth < 3 else [x for x in decls[1:] if not x['children']] or decls[1:])
    kids = []
    if d['children'] and depth < 4:
        for _ in range(r.choice([0, 1, 2, 3] if depth < 3 else [0, 1])):
            kids.append(gen_tree(r, decls, depth + 1))
    return (d, kids)


def gen_unit(rng, cfg, tables, info_offset, abbrev_offset, decls):
    """one unit at info_offset; returns (bytes, expected) where expected = dict(header fields, entries=[...], root=index)"""
    r = rng
    # per-unit contributions to the side tables
    env = dict(tables=tables)
    if cfg.version >= 5:
        env['addrs'] = [r.randrange(1 << (8 * cfg.asz)) for _ in range(r.choice([1, 3, 300]))]
        addr_base = len(tables.addr) + 8
        tables.addr += b'\x00' * 8 + b''.join(cfg.u(a, cfg.asz) for a in env['addrs'])
        starts = [i + 1 for i, b in enumerate(tables.str[:-1]) if b == 0] + [0]
        env['stroffs'] = [r.choice(starts) for _ in range(r.choice([1, 4, 260]))]
        hdr = 8 if cfg.fmt == 32 else 16
        stroffs_base = len(tables.str_offsets) + hdr
        tables.str_offsets += b'\x00' * hdr + b''.join(cfg.off(o) for o in env['stroffs'])
        env['locoffs'] = [r.randrange(1 << 20) for _ in range(r.choice([1, 3]))]
        env['loc_base'] = len(tables.loclists) + 12
        tables.loclists += b'\x00' * 12 + b''.join(cfg.off(o) for o in env['locoffs'])
        env['rngoffs'] = [r.randrange(1 << 20) for _ in range(r.choice([1, 3]))]
        env['rng_base'] = len(tables.rnglists) + 12
        tables.rnglists += b'\x00' * 12 + b''.join(cfg.off(o) for o in env['rngoffs'])
    # header
    ut = cfg.unit_type
    sig = toff = None
    if ut == 'TU4':
        # a type unit of the version 4 .debug_types section (7.5.1.2): the compilation unit header followed by the
        # 8-byte type signature and the offset-sized offset of the type's entry within the unit
        sig, toff = r.randrange(1 << 64), r.randrange(1 << 16)
        body_hdr = cfg.u(cfg.version, 2) + cfg.off(abbrev_offset) + bytes([cfg.asz]) + cfg.u(sig, 8) + cfg.off(toff)
    elif cfg.version >= 5:
        body_hdr = cfg.u(cfg.version, 2) + bytes([V5_UNIT_TYPES[ut], cfg.asz]) + cfg.off(abbrev_offset)
        if ut in ('DW_UT_skeleton', 'DW_UT_split_compile'):
            dwo = r.randrange(1 << 64)
            body_hdr += cfg.u(dwo, 8)
        elif ut in ('DW_UT_type', 'DW_UT_split_type'):
            sig, toff = r.randrange(1 << 64), r.randrange(1 << 16)
            body_hdr += cfg.u(sig, 8) + cfg.off(toff)
    else:
        body_hdr = cfg.u(cfg.version, 2) + cfg.off(abbrev_offset) + bytes([cfg.asz])
    il = 4 if cfg.fmt == 32 else 12
    die_off = info_offset + il + len(body_hdr)
    tree = gen_tree(r, decls, 0, root=True)
    # the root entry of a v5 unit carries the bases of the index forms (appended to its declaration's attributes is
    # not possible -- the declaration is fixed -- so the root declaration gets them up front, see gen_section)
    entries = []
    out = bytearray()
    patches = []        # (position in out, form, entry index) of DW_AT_sibling values

    def emit(node, parent):
        d, kids = node
        idx = len(entries)
        off = die_off + len(out)
        out.extend(uleb(d['code']))
        attrs = []
        for a, f, iv in d['attrs']:
            aoff = die_off + len(out)
            name = a
            if a == 'DW_AT_sibling':
                n = {'DW_FORM_ref4': 4, 'DW_FORM_ref8': 8, 'DW_FORM_ref_udata': 4,
                     'DW_FORM_ref_addr': (cfg.asz if cfg.version == 2 else cfg.osz)}[f]
                patches.append((len(out), f, n, idx, len(attrs)))
                out.extend(b'\x00' * n)
                attrs.append([name, f, None, None, aoff, 0])
                continue
            if f == 'DW_FORM_implicit_const':
                attrs.append([name, f, iv, iv, aoff, 0])
                continue
            base_val = env.get('bases', {}).get(a)
            if base_val is not None and f == 'DW_FORM_sec_offset':
                out.extend(cfg.off(base_val))
                attrs.append([name, f, base_val, base_val, aoff, 0])
                continue
            raw, ff, rv, val, ind = gen_value(r, f, cfg, env)
            out.extend(raw)
            attrs.append([name, ff, rv, val, aoff, ind])
        e = dict(offset=off, code=d['code'], tag=d['tag'], has_children=d['children'], attrs=attrs, parent=parent, children=[],
                 terminator=None)
        entries.append(e)
        e['size'] = die_off + len(out) - off
        if d['children']:
            for k in kids:
                e['children'].append(emit(k, idx))
            toff = die_off + len(out)
            # a null entry is the abbreviation code 0 as a ULEB128 number: one zero byte, or (legal, rare) a padded zero
            nul = r.choice([b'\x00'] * 5 + [b'\x80\x00', b'\x80\x80\x00'])
            out.extend(nul)
            entries.append(dict(offset=toff, code=0, tag=None, has_children=None, attrs=[], size=len(nul), parent=idx, children=[],
                                terminator=None, null=True))
            e['terminator'] = len(entries) - 1
            e['end'] = toff + len(nul)
        else:
            e['end'] = off + e['size']
        return idx
    env['bases'] = {}
    if cfg.version >= 5:
        env['bases'] = {'DW_AT_addr_base': addr_base, 'DW_AT_str_offsets_base': stroffs_base,
                        'DW_AT_loclists_base': env['loc_base'], 'DW_AT_rnglists_base': env['rng_base']}
    emit(tree, None)
    for pos, f, n, idx, ai in patches:
        target = entries[idx]['end']
        v = target if f == 'DW_FORM_ref_addr' else target - info_offset
        out[pos:pos + n] = uleb(v, 4) if f == 'DW_FORM_ref_udata' else cfg.u(v, n)
        entries[idx]['attrs'][ai][2] = entries[idx]['attrs'][ai][3] = v
    unit_length = len(body_hdr) + len(out)
    data = cfg.initial_length(unit_length) + body_hdr + bytes(out)
    exp = dict(cu_offset=info_offset, unit_length=unit_length, version=cfg.version, address_size=cfg.asz,
               debug_abbrev_offset=abbrev_offset, cu_die_offset=die_off, size=il + unit_length, entries=entries,
               unit_type=ut if cfg.version >= 5 else None, cfg=cfg, signature=sig, type_offset=toff)
    return data, exp


def gen_section(rng, cfgs, shared_abbrev=False, type_cfgs=()):
    """several units of the given configurations in one .debug_info (and, for type_cfgs -- version 4 configurations with
    unit_type 'TU4' -- type units in one .debug_types); returns (sections dict, [expected per unit]); the expectations of
    the type units follow those of the .debug_info units and carry section='debug_types'"""
    tables = Tables(rng)
    info, abbrev, exps = b'', b'', []
    types, texps = b'', []
    shared = None
    for cfg in list(cfgs) + list(type_cfgs):
        if shared_abbrev and shared is not None and shared[2] == cfg.version:
            aoff, decls = shared[0], shared[1]
        else:
            decls = gen_abbrevs(rng, cfg)
            if cfg.version >= 5:
                # the root declaration carries the bases the index forms of this unit refer to, at random positions
                for b in ('DW_AT_addr_base', 'DW_AT_str_offsets_base', 'DW_AT_loclists_base', 'DW_AT_rnglists_base'):
                    decls[0]['attrs'] = [x for x in decls[0]['attrs'] if x[0] != b]
                    decls[0]['attrs'].insert(rng.randrange(len(decls[0]['attrs']) + 1), (b, 'DW_FORM_sec_offset', None))
            aoff = len(abbrev) + rng.choice([0, 0, 3])
            abbrev += b'\x00' * (aoff - len(abbrev)) + enc_abbrevs(decls)
            shared = (aoff, decls, cfg.version)
        if cfg.unit_type == 'TU4':
            data, exp = gen_unit(rng, cfg, tables, len(types), aoff, decls)
            exp['section'] = 'debug_types'
            types += data
            texps.append(exp)
            continue
        data, exp = gen_unit(rng, cfg, tables, len(info), aoff, decls)
        info += data
        exps.append(exp)
    exps += texps
    secs = dict(debug_types=types, debug_info=info, debug_abbrev=abbrev, debug_str=tables.str, debug_line_str=tables.line_str, debug_addr=tables.addr,
                debug_str_offsets=tables.str_offsets, debug_loclists=tables.loclists, debug_rnglists=tables.rnglists)
    return secs, exps
