"""DWARF line-number state machine (DWARF v5 6.2.5.1-6.2.5.3, DESIGN appendix A.4), one step:
given the header h, the registers r (record), the program bytes B and the instruction offset o,
the new value of every register, whether a row is emitted, the emitted row and the next offset.
Operand accessors are the abstract primitives shared with the parser side (u8, ULEB128, SLEB128,
u16, address)."""
import z3
from pyvc.vals import to_int, ArrS, IntS

LNS_copy, LNS_advance_pc, LNS_advance_line, LNS_set_file, LNS_set_column, LNS_negate_stmt = 1, 2, 3, 4, 5, 6
LNS_set_basic_block, LNS_const_add_pc, LNS_fixed_advance_pc, LNS_set_prologue_end = 7, 8, 9, 10
LNS_set_epilogue_begin, LNS_set_isa = 11, 12
LNE_end_sequence, LNE_set_address, LNE_define_file, LNE_set_discriminator = 1, 2, 3, 4


def _native(f):
    f._native = True
    return f


def _uf(name):
    return z3.Function(name, ArrS, IntS, IntS)


@_native
def op8(I, B, p):
    return _uf('Dwarf_uint8')(B.arr, to_int(p))


@_native
def U(I, B, p):
    return _uf('leb.u.val')(B.arr, to_int(p))


@_native
def UE(I, B, p):
    return _uf('leb.end')(B.arr, to_int(p))


@_native
def SV(I, B, p):
    return _uf('leb.s.val')(B.arr, to_int(p))


@_native
def u16(I, B, p):
    return _uf('Dwarf_uint16')(B.arr, to_int(p))


@_native
def taddr(I, B, p, W):
    from specs.k1_layouts import dwarf_word
    return dwarf_word(B.arr, to_int(p), to_int(W))


def is_special(h, B, o):
    return op8(B, o) >= h.opcode_base


def is_ext(h, B, o):
    return op8(B, o) == 0


def std(h, B, o, code):
    """the instruction is the standard opcode `code` (only below opcode_base)"""
    return (not is_special(h, B, o)) and op8(B, o) == code


def exop(B, o):
    """extended opcode byte: after the 0 and the ULEB128 instruction length"""
    return op8(B, UE(B, o + 1))


def advance(h, B, o):
    """operation advance of the instruction (0 when it does not advance the address that way)"""
    return ((op8(B, o) - h.opcode_base) // h.line_range if is_special(h, B, o) else
            U(B, o + 1) if std(h, B, o, LNS_advance_pc) else
            (255 - h.opcode_base) // h.line_range if std(h, B, o, LNS_const_add_pc) else 0)


def advances(h, B, o):
    return is_special(h, B, o) or std(h, B, o, LNS_advance_pc) or std(h, B, o, LNS_const_add_pc)


def row_address(h, r, B, o, W):
    """address register after the instruction's own update (value recorded in an emitted row)"""
    return (r.address + h.minimum_instruction_length * ((r.op_index + advance(h, B, o)) // h.maximum_operations_per_instruction)
            if advances(h, B, o) else
            r.address + u16(B, o + 1) if std(h, B, o, LNS_fixed_advance_pc) else
            taddr(B, UE(B, o + 1) + 1, W) if (is_ext(h, B, o) and exop(B, o) == LNE_set_address) else
            r.address)


def row_op_index(h, r, B, o):
    return ((r.op_index + advance(h, B, o)) % h.maximum_operations_per_instruction if advances(h, B, o) else
            0 if std(h, B, o, LNS_fixed_advance_pc) else
            0 if (is_ext(h, B, o) and exop(B, o) == LNE_set_address) else
            r.op_index)


def row_line(h, r, B, o):
    return (r.line + h.line_base + (op8(B, o) - h.opcode_base) % h.line_range if is_special(h, B, o) else
            r.line + SV(B, o + 1) if std(h, B, o, LNS_advance_line) else r.line)


def emits(h, B, o):
    return is_special(h, B, o) or std(h, B, o, LNS_copy) or (is_ext(h, B, o) and exop(B, o) == LNE_end_sequence)


def ends(h, B, o):
    return is_ext(h, B, o) and exop(B, o) == LNE_end_sequence


def next_address(h, r, B, o, W):
    return 0 if ends(h, B, o) else row_address(h, r, B, o, W)


def next_op_index(h, r, B, o):
    return 0 if ends(h, B, o) else row_op_index(h, r, B, o)


def next_line(h, r, B, o):
    return 1 if ends(h, B, o) else row_line(h, r, B, o)


def next_file(h, r, B, o):
    return (1 if ends(h, B, o) else U(B, o + 1) if std(h, B, o, LNS_set_file) else r.file)


def next_column(h, r, B, o):
    return (0 if ends(h, B, o) else U(B, o + 1) if std(h, B, o, LNS_set_column) else r.column)


def next_isa(h, r, B, o):
    return (0 if ends(h, B, o) else U(B, o + 1) if std(h, B, o, LNS_set_isa) else r.isa)


def row_is_stmt(h, r, B, o):
    return r.is_stmt


def next_is_stmt_true(h, r, B, o):
    """truth of is_stmt after the step"""
    return (h.default_is_stmt != 0 if ends(h, B, o) else
            (not truthy(r.is_stmt)) if std(h, B, o, LNS_negate_stmt) else truthy(r.is_stmt))


def truthy(x):
    return x != 0 if not isinstance(x, bool) else x


def next_discriminator(h, r, B, o):
    return (0 if emits(h, B, o) else
            U(B, UE(B, o + 1) + 1) if (is_ext(h, B, o) and exop(B, o) == LNE_set_discriminator) else r.discriminator)


def next_basic_block(h, r, B, o):
    return (False if emits(h, B, o) else True if std(h, B, o, LNS_set_basic_block) else r.basic_block)


def next_prologue_end(h, r, B, o):
    return (False if emits(h, B, o) else True if std(h, B, o, LNS_set_prologue_end) else r.prologue_end)


def next_epilogue_begin(h, r, B, o):
    return (False if emits(h, B, o) else True if std(h, B, o, LNS_set_epilogue_begin) else r.epilogue_begin)


def has_uleb_operand(h, B, o):
    return (not is_special(h, B, o)) and op8(B, o) in (LNS_advance_pc, LNS_advance_line, LNS_set_file, LNS_set_column, LNS_set_isa)


def next_offset_known(h, B, o):
    """next instruction offset for the instructions whose operands the standard defines:
    special and operand-less standard opcodes: +1; one LEB128 operand: after it; fixed_advance_pc: +3;
    extended: after the ULEB128 length plus that many bytes"""
    return (o + 1 if is_special(h, B, o) else
            UE(B, o + 1) + U(B, o + 1) if is_ext(h, B, o) else
            UE(B, o + 1) if has_uleb_operand(h, B, o) else
            o + 3 if std(h, B, o, LNS_fixed_advance_pc) else
            o + 1)


@_native
def record(I, **fields):
    from pyvc.vals import SRec
    return SRec(fields)
