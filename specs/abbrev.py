"""Specification of an abbreviation table (DWARF v5 7.5.3): a sequence of (code as ULEB128, declaration) pairs that
ends at the first code 0.  The declaration is the abstract layout Dwarf_abbrev_declaration (value and end position
are functions of (bytes, position); the real construct tree is the K2 obligation of that name); the k-th pair starts
where the (k-1)-th declaration ended."""
import z3
from pyvc.vals import to_int, ArrS, IntS
from pyvc.verify import register_recdef


def _native(f):
    f._native = True
    return f


_uend = z3.Function('leb.end', ArrS, IntS, IntS)
_dend = z3.Function('end!Dwarf_abbrev_declaration', ArrS, IntS, IntS)     # the name pyvc/calls.py gives the end of a variable-size layout
_aoff = z3.Function('abbrev.off', ArrS, IntS, IntS, IntS)


def _unfold_aoff(t):
    arr, o, k = t.arg(0), t.arg(1), t.arg(2)
    prev = _aoff(arr, o, k - 1)
    return [_aoff(arr, o, 0) == o, z3.Implies(k >= 1, t == _dend(arr, _uend(arr, prev)))]


register_recdef('abbrev.off', _unfold_aoff, forward=True)


@_native
def abbr_off(I, B, o, k):
    """position of the k-th (code, declaration) pair of the table that starts at o"""
    return _aoff(B.arr, to_int(o), to_int(k))
