"""Specification helpers for the ELF-side contracts."""
import z3
from pyvc.vals import to_int, IntS, ArrS, SRec
from pyvc.calls import UFMaker, LAYOUTS


def _native(f):
    f._native = True
    return f


@_native
def P(I, name, B, o):
    """Sem(layout name, B, o).value : the record the specification layout `name`
    denotes at offset o (abstract in K1; K2 obligation `name` ties the real struct to it)"""
    arr = B.arr if hasattr(B, 'arr') else B
    mk = UFMaker(I.ctx, arr, to_int(o), name)
    lay = LAYOUTS[name]
    if isinstance(lay.fields, dict):
        return SRec({k: s.make(mk, '%s.%s' % (name, k)) for k, s in lay.fields.items()})
    return lay.fields.make(mk, name)


def _P_py(name, B, o):
    from specs.k1_native import parsed
    return parsed(name, B, o)


P.py = _P_py


@_native
def SZ(I, name, elfclass):
    """size of a fixed-size layout for the ELF class"""
    from specs.k1_layouts import SIZES
    a, b = SIZES[name]
    if isinstance(elfclass, int):
        return a if elfclass == 32 else b
    return z3.If(to_int(elfclass) == 32, a, b)


def _SZ_py(name, elfclass):
    from specs.k1_layouts import SIZES
    return SIZES[name][0 if elfclass == 32 else 1]


SZ.py = _SZ_py


@_native
def kind(I, obj):
    """class name of an object (concrete on every path)"""
    from pyvc.vals import SObj
    if isinstance(obj, SObj):
        return obj.cls
    if obj is None:
        return 'None'
    return type(obj).__name__


kind.py = lambda obj: type(obj).__name__


def section_kind(sh_type, name):
    """the specialised object kind a section type calls for (C01 statement; gABI section types,
    GNU/Solaris/ARM/RISC-V extensions the library supports)"""
    return ('StringTableSection' if sh_type == 'SHT_STRTAB' else
            'NullSection' if sh_type == 'SHT_NULL' else
            'SymbolTableSection' if sh_type in ('SHT_SYMTAB', 'SHT_DYNSYM', 'SHT_SUNW_LDYNSYM') else
            'SymbolTableIndexSection' if sh_type == 'SHT_SYMTAB_SHNDX' else
            'SUNWSyminfoTableSection' if sh_type == 'SHT_SUNW_syminfo' else
            'GNUVerNeedSection' if sh_type == 'SHT_GNU_verneed' else
            'GNUVerDefSection' if sh_type == 'SHT_GNU_verdef' else
            'GNUVerSymSection' if sh_type == 'SHT_GNU_versym' else
            'RelocationSection' if sh_type in ('SHT_REL', 'SHT_RELA') else
            'DynamicSection' if sh_type == 'SHT_DYNAMIC' else
            'NoteSection' if sh_type == 'SHT_NOTE' else
            'StabSection' if (sh_type == 'SHT_PROGBITS' and name == '.stab') else
            'ARMAttributesSection' if sh_type == 'SHT_ARM_ATTRIBUTES' else
            'RISCVAttributesSection' if sh_type == 'SHT_RISCV_ATTRIBUTES' else
            'ELFHashSection' if sh_type == 'SHT_HASH' else
            'GNUHashSection' if sh_type == 'SHT_GNU_HASH' else
            'RelrRelocationSection' if sh_type == 'SHT_RELR' else
            'Section')


def segment_kind(p_type):
    return ('InterpSegment' if p_type == 'PT_INTERP' else
            'DynamicSegment' if p_type == 'PT_DYNAMIC' else
            'NoteSegment' if p_type == 'PT_NOTE' else
            'Segment')


@_native
def secname(I, strtab, name_off):
    """StringTableSection semantics (gABI string table): the bytes from
    strtab.sh_offset + name_off up to the first NUL, decoded as UTF-8 with replacement;
    '' when the string is empty or no NUL follows before the end of the file"""
    from pyvc.calls import nul_axioms
    if strtab is None:
        return z3.StringVal('')
    st = strtab.attrs['stream']
    o = to_int(strtab.attrs['header'].fields['sh_offset']) + to_int(name_off)
    q = nul_axioms(I, st.arr, o)
    dec = z3.Function('decode!utf-8!replace', ArrS, IntS, IntS, z3.StringSort())
    present = z3.And(q < to_int(st.length), z3.Select(st.arr, q) == 0, q > o)
    return z3.If(present, dec(st.arr, z3.If(q - o == 0, z3.IntVal(0), o), q - o), z3.StringVal(''))


def _secname_py(strtab, name_off):
    if strtab is None:
        return ''
    B = strtab.stream.getvalue()
    o = strtab.header['sh_offset'] + name_off
    e = B.find(b'\x00', o)
    if e < 0 or o > len(B):
        return ''
    return B[o:e].decode('utf-8', errors='replace')


secname.py = _secname_py


def nsec(ef):
    """number of sections (gABI extended numbering)"""
    return (0 if ef.header.e_shoff == 0 else
            (P('Elf_Shdr', ef.stream.B, ef.header.e_shoff).sh_size if ef.header.e_shnum == 0 else ef.header.e_shnum))


def nseg(ef):
    return (ef.header.e_phnum if ef.header.e_phnum < 0xffff else
            P('Elf_Shdr', ef.stream.B, ef.header.e_shoff).sh_info)


def phdr(ef, j):
    """program header j of the file"""
    return P('Elf_Phdr', ef.stream.B, ef.header.e_phoff + j * ef.header.e_phentsize)


def loadseg(ef, j):
    return phdr(ef, j).p_type == 'PT_LOAD'


_chain_defs = {}


@_native
def chain_off(I, B, start, k, layout, field):
    """offset of element k of a displacement-linked chain: element 0 at `start`, element k+1 at
    element k + its `field` (the next displacement)"""
    from pyvc.verify import register_recdef
    name = 'chain!%s.%s' % (layout, field)
    f = z3.Function(name, ArrS, IntS, IntS, IntS)
    if name not in _chain_defs:
        nxt = z3.Function('%s.%s' % (layout, field), ArrS, IntS, IntS)

        def unfold(t, f=f, nxt=nxt):
            arr, s0, kk = t.arg(0), t.arg(1), t.arg(2)
            prev = f(arr, s0, kk - 1)
            return [f(arr, s0, 0) == s0, z3.Implies(kk >= 1, t == prev + nxt(arr, prev))]
        register_recdef(name, unfold)
        _chain_defs[name] = f
    arr = B.arr if hasattr(B, 'arr') else B
    return f(arr, to_int(start), to_int(k))


def _chain_off_py(B, start, k, layout, field):
    o = start
    for _ in range(k):
        o += P.py(layout, B, o)[field]
    return o


chain_off.py = _chain_off_py


@_native
def gen_len(I, g):
    from pyvc.vals import SGen
    return g.seq.n if isinstance(g, SGen) else g.n


@_native
def gen_elem(I, g, i):
    from pyvc.vals import SGen
    return (g.seq if isinstance(g, SGen) else g).elem(to_int(i))


gen_len.py = lambda g: len(g)
gen_elem.py = lambda g, i: g[i]
