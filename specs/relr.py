"""RELR decoding (generic ABI proposal 'SHT_RELR', as implemented by glibc/LLVM): words of the
address size W; an even word is an address A: relocate A, next = A + W; an odd word is a bitmap:
for bit i in 1..8W-1 set, relocate next + (i-1)*W; then next += (8W-1)*W."""
import z3
from pyvc.vals import to_int, ArrS, IntS
from pyvc.verify import register_recdef


def _native(f):
    f._native = True
    return f


_word = z3.Function('Elf_Relr.r_offset', ArrS, IntS, IntS)
_base = z3.Function('relr_base', ArrS, IntS, IntS, IntS, IntS)       # (arr, offset, W, w words consumed)


@_native
def relr_word(I, B, off, W, w):
    return _word(B.arr, to_int(off) + to_int(w) * to_int(W))


@_native
def relr_base(I, B, off, W, w):
    """`next` after w words"""
    return _base(B.arr, to_int(off), to_int(W), to_int(w))


def _unfold_base(t):
    arr, off, W, w = t.arg(0), t.arg(1), t.arg(2), t.arg(3)
    prev = _base(arr, off, W, w - 1)
    word = _word(arr, off + (w - 1) * W)
    return [z3.Implies(w >= 1, t == z3.If(word % 2 == 0, word + W, prev + (8 * W - 1) * W))]


register_recdef('relr_base', _unfold_base)


@_native
def relr_count(I, B, off, W, w):
    raise NotImplementedError


_shr = z3.Function('shr', IntS, IntS, IntS)


@_native
def shr(I, x, i):
    """x halved i times (binary digit i of x is shr(x, i) % 2)"""
    return _shr(to_int(x), to_int(i))


def _unfold_shr(t):
    x, i = t.arg(0), t.arg(1)
    return [_shr(x, 0) == x, z3.Implies(i >= 1, t == _shr(x, i - 1) / 2)]


register_recdef('shr', _unfold_shr)
shr.py = lambda x, i: x >> i
