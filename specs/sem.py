"""Sem(node, B, pos, ctx) = (value, pos') | fail : the meaning of a layout
normal form (DESIGN.md 2.8), executable.  Independent of the library's
construct interpreter: plain byte arithmetic.  Used (a) natively as the oracle
when a K2 mismatch is replayed on concrete bytes and in executable contracts
(`parsed(...)`), (b) as the definition the abstract K1 parse functions stand for.
"""
from pyvc.k2 import FnSpec


class Fail(Exception):
    pass


class DontCare(Exception):
    """the specification leaves this input unconstrained"""


class Rec(dict):
    """decoded record: item and attribute access coincide (like Container)"""
    __getattr__ = dict.__getitem__

    def __setattr__(self, k, v):
        self[k] = v


def _eval_fn(spec, ctx, extra=None):
    from pyvc.native import native_globals
    env = native_globals()
    env['ctx'] = ctx
    if extra:
        env.update(extra)
    return eval(spec.text, env)


def _num(x, ctx, extra=None):
    return _eval_fn(x, ctx, extra) if isinstance(x, FnSpec) else x


def uleb(B, p):
    v, sh = 0, 0
    while True:
        if p >= len(B):
            raise Fail('uleb: end of data')
        b = B[p]
        p += 1
        v += (b % 128) * (128 ** (sh // 7))
        sh += 7
        if b < 128:
            return v, p


def sleb(B, p):
    v, sh = 0, 0
    while True:
        if p >= len(B):
            raise Fail('sleb: end of data')
        b = B[p]
        p += 1
        v += (b % 128) * (128 ** (sh // 7))
        sh += 7
        if b < 128:
            if b & 0x40:
                v -= 128 ** (sh // 7)
            return v, p


def decode(nf, B, p, ctx=None):
    k = nf[0]
    if p < 0:
        raise Fail('negative position')
    if k == 'int':
        _, n, signed, en = nf
        if p + n > len(B):
            raise Fail('int: end of data')
        chunk = B[p:p + n]
        v = int.from_bytes(chunk, 'little' if en == 'le' else 'big', signed=signed)
        return v, p + n
    if k == 'int24':
        if p + 3 > len(B):
            raise Fail('int24')
        return int.from_bytes(B[p:p + 3], 'little' if nf[1] == 'le' else 'big'), p + 3
    if k == 'uleb':
        return uleb(B, p)
    if k == 'sleb':
        return sleb(B, p)
    if k == 'bytes':
        n = _num(nf[1], ctx)
        if n < 0 or p + n > len(B):
            raise Fail('bytes')
        return bytes(B[p:p + n]), p + n
    if k == 'enum':
        v, q = decode(nf[1], B, p, ctx)
        names = [n for n, x in nf[2].items() if x == v and n != '_default_']
        if names:
            return EnumNames(names), q
        if nf[3] is True:
            return v, q
        raise Fail('enum: unmapped value %r' % v)
    if k in ('struct', 'sequence'):
        rec = Rec()            # the object built
        cx = Rec()             # the parse context (object members + context-only entries such as is64)
        if ctx is not None:
            cx['_'] = ctx
        seq = []
        for name, sub in nf[1]:
            if name == '<embed>':
                p = decode_embedded(sub, B, p, rec, cx)
                continue
            v, p = decode(sub, B, p, cx)
            if k == 'sequence':
                seq.append(v)
            if name is not None and sub[0] != 'pad':
                rec[name] = v
                cx[name] = v
        return (seq if k == 'sequence' else rec), p
    if k == 'array':
        n = _num(nf[1], ctx)
        out = []
        for _ in range(n):
            v, p = decode(nf[2], B, p, ctx)
            out.append(v)
        return out, p
    if k == 'pad':
        n = _num(nf[1], ctx)
        if n < 0 or p + n > len(B):
            raise Fail('pad')
        if nf[3] and bytes(B[p:p + n]) != nf[2] * n:
            raise Fail('strict padding mismatch')
        return None, p + n
    if k == 'cstring':
        q = p
        while True:
            if q >= len(B):
                raise Fail('cstring: no terminator')
            if B[q:q + 1] in [nf[1][i:i + 1] for i in range(len(nf[1]))]:
                break
            q += 1
        raw = bytes(B[p:q])
        if nf[2]:
            try:
                raw = raw.decode(nf[2])
            except UnicodeDecodeError:
                raise Fail('cstring decode')
        return raw, q + 1
    if k == 'string':
        n = _num(nf[1], ctx)
        if n < 0 or p + n > len(B):
            raise Fail('string')
        raw = bytes(B[p:p + n])
        if nf[2]:
            raw = raw.decode(nf[2])
        if nf[3] is not None:
            pc = nf[3]
            if nf[4] == 'right':
                raw = raw.rstrip(pc)
            elif nf[4] == 'left':
                raw = raw.lstrip(pc)
            else:
                raw = raw.strip(pc)
        return raw, p + n
    if k == 'value':
        return _eval_fn(nf[1], ctx), p
    if k == 'offset':
        return p, p
    if k == 'switch':
        key = _eval_fn(nf[1], ctx)
        sub = nf[2].get(_plain(key), nf[3]) if _hashable(key) else nf[3]
        if sub is None:
            raise Fail('switch: no case for %r' % (key,))
        return decode(sub, B, p, ctx)
    if k == 'ifthenelse':
        c = _eval_fn(nf[1], ctx)
        return decode(nf[2] if c else nf[3], B, p, ctx)
    if k == 'bits':
        total = sum(w for (_n, w, _e, _s, _sw) in nf[1])
        nb = (total + 7) // 8
        if p + nb > len(B):
            raise Fail('bits')
        val = int.from_bytes(B[p:p + nb], 'big')
        rec = Rec()
        shift = nb * 8
        for name, w, enum, signed, swapped in nf[1]:
            shift -= w
            v = (val >> shift) & ((1 << w) - 1)
            if signed and v >= 1 << (w - 1):
                v -= 1 << w
            if name is None:
                continue
            if enum is not None:
                names = [n for n, x in enum[2].items() if x == v and n != '_default_']
                if names:
                    v = EnumNames(names)
                elif enum[3] is not True:
                    raise Fail('bit enum: unmapped value')
            rec[name] = v
        return rec, p + nb
    if k == 'until':
        out = []
        while True:
            v, p = decode(nf[2], B, p, ctx)
            stop = _eval_fn(nf[1], ctx, {'obj': v})
            if stop:
                if nf[3]:
                    out.append(v)
                return out, p
            out.append(v)
    if k == 'prefixed':
        n, p = decode(nf[1], B, p, ctx)
        out = []
        for _ in range(n):
            v, p = decode(nf[2], B, p, ctx)
            out.append(v)
        return out, p
    if k == 'initial_length':
        # DWARF 7.4: 0xffffffff escapes to a 64-bit length; 0xfffffff0..0xfffffffe are reserved
        # (DWARF v3 reserved from 0xffffff00: that band is left to either outcome, see DontCare)
        en = nf[1]
        first, q = decode(('int', 4, False, en), B, p, ctx)
        if first == 0xffffffff:
            v, q = decode(('int', 8, False, en), B, q, ctx)
            if ctx is not None:
                ctx['is64'] = True
            return v, q
        if ctx is not None:
            ctx['is64'] = False
        if first < 0xffffff00:
            return first, q
        if first >= 0xfffffff0:
            raise Fail('reserved initial length')
        raise DontCare('initial length %#x lies in the band reserved by DWARF v3 only' % first)
    if k == 'const':
        return nf[1], p
    if k == 'pass':
        return None, p
    if k == 'peek':
        try:
            v, _ = decode(nf[1], B, p, ctx)
        except Fail:
            v = None
        return v, p
    raise Fail('Sem: unknown node %r' % (k,))


def decode_embedded(nf, B, p, rec, cx):
    """Embed(...): the members of the selected struct are added to the enclosing record"""
    k = nf[0]
    if k == 'struct':
        for name, sub in nf[1]:
            if name == '<embed>':
                p = decode_embedded(sub, B, p, rec, cx)
                continue
            v, p = decode(sub, B, p, cx)
            if name is not None and sub[0] != 'pad':
                rec[name] = v
                cx[name] = v
        return p
    if k == 'ifthenelse':
        c = _eval_fn(nf[1], cx)
        return decode_embedded(nf[2] if c else nf[3], B, p, rec, cx)
    if k == 'switch':
        key = _eval_fn(nf[1], cx)
        sub = nf[2].get(_plain(key), nf[3]) if _hashable(key) else nf[3]
        if sub is None:
            raise Fail('switch: no case for %r' % (key,))
        return decode_embedded(sub, B, p, rec, cx)
    if k == 'const':
        return p
    raise Fail('embedded %r' % (k,))


class EnumNames:
    """decoded enum value: any of the names the dictionary registers for the code
    (aliases); equal to each of them"""

    def __init__(self, names):
        self.names = list(names)

    def __eq__(self, other):
        if isinstance(other, EnumNames):
            return bool(set(self.names) & set(other.names))
        return other in self.names

    def __ne__(self, other):
        return not self.__eq__(other)

    def __hash__(self):
        return hash('enum')

    def startswith(self, p):
        return any(n.startswith(p) for n in self.names)

    def __repr__(self):
        return '|'.join(self.names)


def _plain(key):
    if isinstance(key, EnumNames):
        return key.names[0]
    if isinstance(key, tuple):
        return tuple(_plain(x) for x in key)
    return key


def _hashable(k):
    try:
        hash(k)
        return True
    except TypeError:
        return False


def same(real, spec):
    """compare a value produced by the real parser with a Sem value"""
    from elftools.construct.lib.container import Container
    if isinstance(spec, EnumNames):
        return real in spec.names
    if isinstance(spec, dict):
        if not isinstance(real, (dict, Container)):
            return False
        rk = set(k for k in (real.keys() if hasattr(real, 'keys') else real.__dict__.keys()))
        if rk != set(spec.keys()):
            return False
        return all(same(real[k], spec[k]) for k in spec)
    if isinstance(spec, list):
        return isinstance(real, list) and len(real) == len(spec) and all(same(a, b) for a, b in zip(real, spec))
    return type(real) == type(spec) and real == spec


# ------------------------------------------------------------------ encoding
def encode(nf, val):
    """bytes of a fixed-size layout for a (partial) value; missing fields are zero.
    val: dict field-path -> python value ('a.b' paths for nested members; enum members
    given as name or integer).  Used to synthesise concrete inputs from solver models."""
    k = nf[0]
    if k == 'int':
        _, n, signed, en = nf
        v = val if isinstance(val, int) and not isinstance(val, bool) else 0
        lo, hi = (-(1 << (8 * n - 1)), 1 << (8 * n - 1)) if signed else (0, 1 << (8 * n))
        v = min(max(v, lo), hi - 1)
        return v.to_bytes(n, 'little' if en == 'le' else 'big', signed=signed)
    if k == 'enum':
        v = val
        if isinstance(v, dict):
            if v.get('isname') and v.get('name') in nf[2]:
                v = nf[2][v['name']]
            else:
                v = v.get('raw', 0)
        elif isinstance(v, str):
            v = nf[2].get(v, 0)
        return encode(nf[1], v)
    if k in ('struct', 'sequence'):
        out = b''
        for name, sub in nf[1]:
            if sub[0] in ('value', 'offset'):
                continue
            sv = sub_value(val, name) if name is not None else None
            out += encode(sub, sv)
        return out
    if k == 'pad':
        return nf[2] * (nf[1] if isinstance(nf[1], int) else 0)
    if k == 'array' and isinstance(nf[1], int):
        return b''.join(encode(nf[2], None) for _ in range(nf[1]))
    if k == 'bits':
        total = sum(w for (_n, w, _e, _s, _sw) in nf[1])
        acc = 0
        for name, w, enum, signed, swapped in nf[1]:
            v = sub_value(val, name) if name is not None else 0
            if isinstance(v, dict):
                if enum is not None and v.get('isname') and v.get('name') in enum[2]:
                    v = enum[2][v['name']]
                else:
                    v = v.get('raw', 0)
            if isinstance(v, str):
                v = enum[2].get(v, 0) if enum is not None else 0
            v = (v or 0) & ((1 << w) - 1)
            acc = (acc << w) | v
        return acc.to_bytes((total + 7) // 8, 'big')
    if k in ('bytes', 'string') and isinstance(nf[1], int):
        return bytes(nf[1])
    raise Fail('encode: variable-size node %r' % (k,))


def sub_value(val, name):
    """member `name` of a flat path dict {'a': 1, 'b.x': 2, 'c.isname': True, ...}"""
    if not isinstance(val, dict):
        return None
    if name in val:
        return val[name]
    pre = name + '.'
    sub = {k[len(pre):]: v for k, v in val.items() if k.startswith(pre)}
    return sub or None


# ---------------------------------------------------------------- generation
def _enc_uleb(v, pad=0):
    out = bytearray()
    while True:
        b = v & 0x7f
        v >>= 7
        if v or pad:
            out.append(b | 0x80)
            if not v and pad:
                pad -= 1
                if pad == 0:
                    out.append(0)
                    break
        else:
            out.append(b)
            break
    return bytes(out)


def _enc_sleb(v):
    out = bytearray()
    while True:
        b = v & 0x7f
        v >>= 7
        if (v == 0 and not b & 0x40) or (v == -1 and b & 0x40):
            out.append(b)
            return bytes(out)
        out.append(b | 0x80)


def gen(nf, rng, ctx=None, pos=0):
    """(bytes, value): a random input that is valid for the specification layout,
    generated alongside its decoded value so that dependent members see their context"""
    k = nf[0]
    if k == 'int':
        _, n, signed, en = nf
        c = rng.random()
        if c < 0.6:
            v = rng.randrange(0, 12)
        elif c < 0.8:
            v = rng.randrange(0, 256)
        else:
            v = rng.randrange(0, 1 << (8 * n))
        v %= 1 << (8 * n)
        raw = v.to_bytes(n, 'little' if en == 'le' else 'big')
        return raw, int.from_bytes(raw, 'little' if en == 'le' else 'big', signed=signed)
    if k == 'int24':
        v = rng.randrange(0, 1 << 24)
        return v.to_bytes(3, 'little' if nf[1] == 'le' else 'big'), v
    if k == 'uleb':
        v = rng.choice([0, 1, 5, 127, 128, 300, 1 << 20, rng.randrange(0, 1 << 40)])
        return _enc_uleb(v, rng.choice([0, 0, 0, 1, 2])), v
    if k == 'sleb':
        v = rng.choice([0, 1, -1, 63, 64, -64, -65, 300, -300, rng.randrange(-(1 << 40), 1 << 40)])
        return _enc_sleb(v), v
    if k == 'enum':
        vals = [x for n, x in nf[2].items() if n != '_default_']
        sub = nf[1]
        if vals and rng.random() < 0.85:
            v = rng.choice(vals)
            if sub[0] == 'int':
                n = sub[1]
                if 0 <= v < 1 << (8 * n) or sub[2]:
                    raw = (v % (1 << (8 * n))).to_bytes(n, 'little' if sub[3] == 'le' else 'big')
                    val, _ = decode(nf, raw, 0, ctx)
                    return raw, val
            elif sub[0] == 'uleb' and v >= 0:
                raw = _enc_uleb(v)
                val, _ = decode(nf, raw, 0, ctx)
                return raw, val
        raw, _v = gen(sub, rng, ctx, pos)
        try:
            val, _ = decode(nf, raw, 0, ctx)
        except Fail:
            val = None
        return raw, val
    if k in ('struct', 'sequence'):
        rec, cx, out = Rec(), Rec(), b''
        if ctx is not None:
            cx['_'] = ctx
        seq = []

        def members(items):
            nonlocal out
            for name, sub in items:
                if name == '<embed>':
                    embedded(sub)
                    continue
                raw, v = gen(sub, rng, cx, pos + len(out))
                out += raw
                seq.append(v)
                if name is not None and sub[0] != 'pad':
                    rec[name] = v
                    cx[name] = v

        def embedded(sub):
            if sub[0] == 'struct':
                members(sub[1])
            elif sub[0] == 'ifthenelse':
                embedded(sub[2] if _eval_fn(sub[1], cx) else sub[3])
            elif sub[0] == 'switch':
                key = _eval_fn(sub[1], cx)
                s2 = sub[2].get(_plain(key), sub[3]) if _hashable(key) else sub[3]
                if s2 is not None:
                    embedded(s2)
        members(nf[1])
        return out, (seq if k == 'sequence' else rec)
    if k == 'array':
        n = _num(nf[1], ctx)
        out, vs = b'', []
        for _ in range(min(max(n, 0), 40)):
            raw, v = gen(nf[2], rng, ctx, pos + len(out))
            out += raw
            vs.append(v)
        return out, vs
    if k == 'prefixed':
        n = rng.choice([0, 1, 2, 3, 5])
        sub = nf[1]
        if sub[0] == 'int':
            out = n.to_bytes(sub[1], 'little' if sub[3] == 'le' else 'big')
        else:
            out = _enc_uleb(n)
        vs = []
        for _ in range(n):
            raw, v = gen(nf[2], rng, ctx, pos + len(out))
            out += raw
            vs.append(v)
        return out, vs
    if k in ('bytes', 'string', 'pad'):
        n = _num(nf[1], ctx)
        n = min(max(n, 0), 64)
        if k == 'pad':
            return nf[2] * n, None
        raw = bytes(rng.randrange(256) for _ in range(n))
        return raw, raw
    if k == 'cstring':
        raw = bytes(rng.randrange(1, 128) for _ in range(rng.choice([0, 1, 3, 7])))
        return raw + b'\x00', raw
    if k == 'initial_length':
        en = nf[1]
        ctx is not None and ctx.__setitem__('is64', False)
        if rng.random() < 0.75:
            v = rng.choice([0, 4, 11, 50, rng.randrange(0, 0xffffff00)])
            return v.to_bytes(4, 'little' if en == 'le' else 'big'), v
        ctx is not None and ctx.__setitem__('is64', True)
        v = rng.choice([0, 12, 100, rng.randrange(0, 1 << 64)])
        return (0xffffffff).to_bytes(4, 'little' if en == 'le' else 'big') + v.to_bytes(8, 'little' if en == 'le' else 'big'), v
    if k == 'ifthenelse':
        return gen(nf[2] if _eval_fn(nf[1], ctx) else nf[3], rng, ctx, pos)
    if k == 'switch':
        key = _eval_fn(nf[1], ctx)
        sub = nf[2].get(_plain(key), nf[3]) if _hashable(key) else nf[3]
        if sub is None:
            return b'', None
        return gen(sub, rng, ctx, pos)
    if k == 'until':
        out, vs = b'', []
        for _ in range(4):
            raw, v = gen(nf[2], rng, ctx, pos + len(out))
            out += raw
            try:
                if _eval_fn(nf[1], ctx, {'obj': v}):
                    break
            except Exception:
                break
            vs.append(v)
        return out, vs
    if k == 'bits':
        nb = (sum(w for (_n, w, _e, _s, _sw) in nf[1]) + 7) // 8
        raw = bytes(rng.randrange(256) for _ in range(nb))
        v, _ = decode(nf, raw, 0, ctx)
        return raw, v
    if k == 'value':
        return b'', _eval_fn(nf[1], ctx)
    if k == 'offset':
        return b'', pos
    if k == 'const':
        return b'', nf[1]
    if k == 'pass':
        return b'', None
    raise Fail('gen: %r' % (k,))
