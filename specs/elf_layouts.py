"""Specification layouts of the ELF structures, transcribed from the gABI
(ch. 4: ELF header, sections, symbol table, relocation, program header, notes,
dynamic section), the Oracle Linker and Libraries Guide (versioning, syminfo,
compression header, hash), the GNU property / hash / debuglink descriptions and
the MIPS64 ELF object file specification (r_info split).  Written as normal
forms of pyvc.k2 for a configuration cfg = (little_endian, elfclass, e_type,
e_machine, osabi).  Which enum dictionary applies to which machine is part of
the specification; the *values* inside the dictionaries are C17's obligation.
"""
from pyvc.k2 import FnSpec
from pyvc import shapes as S
import elftools.elf.enums as E

# machines whose kernel uid/gid type is 16 bit in the 32-bit core-file prpsinfo
# (linux: __kernel_old_uid_t users; binutils elf_prpsinfo32 variants)
UGID16_MACHINES = {'EM_MN10300', 'EM_ARM', 'EM_CRIS', 'EM_CYGNUS_FRV', 'EM_386', 'EM_M32R',
                   'EM_68K', 'EM_S390', 'EM_SH', 'EM_SPARC'}


def layouts(little_endian, elfclass, e_type, e_machine, osabi):
    en = 'le' if little_endian else 'be'
    W = elfclass // 8

    def u(n):
        return ('int', n, False, en if n > 1 else 'le')

    def s(n):
        return ('int', n, True, en if n > 1 else 'le')

    byte, half, word, word64 = u(1), u(2), u(4), u(8)
    addr = off = xword = u(W)
    sxword = s(W)

    def enum(sub, d, passthrough=True):
        return ('enum', sub, d, passthrough)

    L = {}
    L['Elf_Ehdr'] = ('struct', [
        ('e_ident', ('struct', [
            ('EI_MAG', ('array', 4, byte)),
            ('EI_CLASS', enum(byte, E.ENUM_EI_CLASS, '_default_' in E.ENUM_EI_CLASS)),
            ('EI_DATA', enum(byte, E.ENUM_EI_DATA, '_default_' in E.ENUM_EI_DATA)),
            ('EI_VERSION', enum(byte, E.ENUM_E_VERSION)),
            ('EI_OSABI', enum(byte, E.ENUM_EI_OSABI)),
            ('EI_ABIVERSION', byte),
            (None, ('pad', 7, b'\x00', False))])),
        ('e_type', enum(half, E.ENUM_E_TYPE)),
        ('e_machine', enum(half, E.ENUM_E_MACHINE)),
        ('e_version', enum(word, E.ENUM_E_VERSION)),
        ('e_entry', addr), ('e_phoff', off), ('e_shoff', off), ('e_flags', word),
        ('e_ehsize', half), ('e_phentsize', half), ('e_phnum', half),
        ('e_shentsize', half), ('e_shnum', half), ('e_shstrndx', half)])

    p_type = {'EM_ARM': E.ENUM_P_TYPE_ARM, 'EM_AARCH64': E.ENUM_P_TYPE_AARCH64,
              'EM_MIPS': E.ENUM_P_TYPE_MIPS, 'EM_RISCV': E.ENUM_P_TYPE_RISCV}.get(e_machine, E.ENUM_P_TYPE_BASE)
    if elfclass == 32:      # Elf32_Phdr
        L['Elf_Phdr'] = ('struct', [('p_type', enum(word, p_type)), ('p_offset', off), ('p_vaddr', addr),
                                    ('p_paddr', addr), ('p_filesz', word), ('p_memsz', word),
                                    ('p_flags', word), ('p_align', word)])
    else:                   # Elf64_Phdr: p_flags moves up
        L['Elf_Phdr'] = ('struct', [('p_type', enum(word, p_type)), ('p_flags', word), ('p_offset', off),
                                    ('p_vaddr', addr), ('p_paddr', addr), ('p_filesz', xword),
                                    ('p_memsz', xword), ('p_align', xword)])

    sh_type = {'EM_ARM': E.ENUM_SH_TYPE_ARM, 'EM_AARCH64': E.ENUM_SH_TYPE_AARCH64,
               'EM_X86_64': E.ENUM_SH_TYPE_AMD64, 'EM_MIPS': E.ENUM_SH_TYPE_MIPS,
               'EM_RISCV': E.ENUM_SH_TYPE_RISCV}.get(e_machine, E.ENUM_SH_TYPE_BASE)
    L['Elf_Shdr'] = ('struct', [('sh_name', word), ('sh_type', enum(word, sh_type)), ('sh_flags', xword),
                                ('sh_addr', addr), ('sh_offset', off), ('sh_size', xword), ('sh_link', word),
                                ('sh_info', word), ('sh_addralign', xword), ('sh_entsize', xword)])

    ch = [('ch_type', enum(word, E.ENUM_ELFCOMPRESS_TYPE))]
    if elfclass == 64:
        ch.append(('ch_reserved', word))
    ch += [('ch_size', xword), ('ch_addralign', xword)]
    L['Elf_Chdr'] = ('struct', ch)

    # relocation entries
    U = S.U
    if elfclass == 32:
        ctx = S.Rec(r_offset=U(32), r_info=U(32))
        relf = [('r_info', xword),
                ('r_info_sym', ('value', FnSpec("ctx['r_info'] // 256", shapes=dict(ctx=ctx)))),       # ELF32_R_SYM
                ('r_info_type', ('value', FnSpec("ctx['r_info'] % 256", shapes=dict(ctx=ctx))))]       # ELF32_R_TYPE
    elif e_machine == 'EM_MIPS':
        ctx = S.Rec(r_offset=U(64), r_sym=U(32), r_ssym=U(8), r_type3=U(8), r_type2=U(8), r_type=U(8))
        sh = dict(ctx=ctx)
        relf = [('r_sym', word), ('r_ssym', byte), ('r_type3', byte), ('r_type2', byte), ('r_type', byte),
                ('r_info_sym', ('value', FnSpec("ctx['r_sym']", shapes=sh))),
                ('r_info_ssym', ('value', FnSpec("ctx['r_ssym']", shapes=sh))),
                ('r_info_type', ('value', FnSpec("ctx['r_type']", shapes=sh))),
                ('r_info_type2', ('value', FnSpec("ctx['r_type2']", shapes=sh))),
                ('r_info_type3', ('value', FnSpec("ctx['r_type3']", shapes=sh))),
                ('r_info', ('value', FnSpec("ctx['r_sym'] * 2**32 + ctx['r_ssym'] * 2**24 + ctx['r_type3'] * 2**16"
                                            " + ctx['r_type2'] * 2**8 + ctx['r_type']", shapes=sh)))]
    else:
        ctx = S.Rec(r_offset=U(64), r_info=U(64))
        relf = [('r_info', xword),
                ('r_info_sym', ('value', FnSpec("ctx['r_info'] // 2**32", shapes=dict(ctx=ctx)))),     # ELF64_R_SYM
                ('r_info_type', ('value', FnSpec("ctx['r_info'] % 2**32", shapes=dict(ctx=ctx))))]     # ELF64_R_TYPE
    L['Elf_Rel'] = ('struct', [('r_offset', addr)] + relf)
    L['Elf_Rela'] = ('struct', [('r_offset', addr)] + relf + [('r_addend', sxword)])
    L['Elf_Relr'] = ('struct', [('r_offset', addr)])

    d_tag = dict(E.ENUM_D_TAG_COMMON)
    if e_machine in E.ENUMMAP_EXTRA_D_TAG_MACHINE:
        d_tag.update(E.ENUMMAP_EXTRA_D_TAG_MACHINE[e_machine])
    elif osabi == 'ELFOSABI_SOLARIS':
        d_tag.update(E.ENUM_D_TAG_SOLARIS)
    dctx = S.Rec(d_tag=S.CodeV, d_val=U(W * 8))
    # a value that the machine / OS specific table and the common table both name (the common table holds range markers such
    # as DT_LOOS and other vendors' tags in the OS-specific range) is reported under the name of the SPECIFIC table
    specific = E.ENUMMAP_EXTRA_D_TAG_MACHINE.get(e_machine) or (E.ENUM_D_TAG_SOLARIS if osabi == 'ELFOSABI_SOLARIS' else {})
    prefer = {v: n for n, v in specific.items() if n != '_default_'}
    L['Elf_Dyn'] = ('struct', [('d_tag', enum(sxword, d_tag) + (prefer,)), ('d_val', xword),
                               ('d_ptr', ('value', FnSpec("ctx['d_val']", shapes=dict(ctx=dctx))))])

    st_info = ('bits', [('bind', 4, ('enum', None, E.ENUM_ST_INFO_BIND, True), False, False),
                        ('type', 4, ('enum', None, E.ENUM_ST_INFO_TYPE, True), False, False)])
    st_other = ('bits', [('local', 3, ('enum', None, E.ENUM_ST_LOCAL, True), False, False),
                         (None, 2, None, False, False),
                         ('visibility', 3, ('enum', None, E.ENUM_ST_VISIBILITY, True), False, False)])
    shndx = enum(half, E.ENUM_ST_SHNDX)
    if elfclass == 32:
        L['Elf_Sym'] = ('struct', [('st_name', word), ('st_value', addr), ('st_size', word),
                                   ('st_info', st_info), ('st_other', st_other), ('st_shndx', shndx)])
    else:
        L['Elf_Sym'] = ('struct', [('st_name', word), ('st_info', st_info), ('st_other', st_other),
                                   ('st_shndx', shndx), ('st_value', addr), ('st_size', xword)])

    L['Elf_Sunw_Syminfo'] = ('struct', [('si_boundto', enum(half, E.ENUM_SUNW_SYMINFO_BOUNDTO)), ('si_flags', half)])
    L['Elf_Verneed'] = ('struct', [('vn_version', half), ('vn_cnt', half), ('vn_file', word), ('vn_aux', word),
                                   ('vn_next', word)])
    L['Elf_Vernaux'] = ('struct', [('vna_hash', word), ('vna_flags', half), ('vna_other', half), ('vna_name', word),
                                   ('vna_next', word)])
    L['Elf_Verdef'] = ('struct', [('vd_version', half), ('vd_flags', half), ('vd_ndx', half), ('vd_cnt', half),
                                  ('vd_hash', word), ('vd_aux', word), ('vd_next', word)])
    L['Elf_Verdaux'] = ('struct', [('vda_name', word), ('vda_next', word)])
    L['Elf_Versym'] = ('struct', [('ndx', enum(half, E.ENUM_VERSYM))])
    L['Elf_abi'] = ('struct', [('abi_os', enum(word, E.ENUM_NOTE_ABI_TAG_OS)), ('abi_major', word),
                               ('abi_minor', word), ('abi_tiny', word)])

    # GNU property: type, data size, data, padding to 4 (ELF32) / 8 (ELF64)
    pctx = S.Rec(pr_type=S.CodeV, pr_datasz=U(32))
    pctx2 = S.Rec(pr_type=S.CodeV, pr_datasz=U(32), pr_data=S.Any)
    align = 4 if elfclass == 32 else 8
    L['Elf_Prop'] = ('struct', [
        ('pr_type', enum(word, E.ENUM_NOTE_GNU_PROPERTY_TYPE)),
        ('pr_datasz', word),
        ('pr_data', ('switch', FnSpec('prop_key(ctx.pr_type, ctx.pr_datasz, %d)' % elfclass, shapes=dict(ctx=pctx)), {
            ('GNU_PROPERTY_STACK_SIZE', 4, 32): word,
            ('GNU_PROPERTY_STACK_SIZE', 8, 64): word64,
            ('GNU_PROPERTY_X86_*', 4, 0): word,
            ('GNU_PROPERTY_AARCH64_*', 4, 0): word,
            ('GNU_PROPERTY_RISCV_*', 4, 0): word,
        }, ('bytes', FnSpec('ctx.pr_datasz', shapes=dict(ctx=pctx))))),
        (None, ('pad', FnSpec('(%d - ctx.pr_datasz %% %d) %% %d' % (align, align, align), shapes=dict(ctx=pctx2)),
                b'\x00', False))])

    n_type = E.ENUM_CORE_NOTE_N_TYPE if e_type == 'ET_CORE' else E.ENUM_NOTE_N_TYPE
    L['Elf_Nhdr'] = ('struct', [('n_namesz', word), ('n_descsz', word), ('n_type', enum(word, n_type))])

    ugid = half if (elfclass == 32 and e_machine in UGID16_MACHINES) else word
    pr = [('pr_state', byte), ('pr_sname', ('string', 1, None, None, None)), ('pr_zomb', byte), ('pr_nice', byte)]
    if elfclass == 64:
        pr.append((None, ('pad', 4, b'\x00', False)))
    pr += [('pr_flag', xword), ('pr_uid', ugid), ('pr_gid', ugid), ('pr_pid', word), ('pr_ppid', word),
           ('pr_pgrp', word), ('pr_sid', word), ('pr_fname', ('string', 16, None, None, None)),
           ('pr_psargs', ('string', 80, None, None, None))]
    L['Elf_Prpsinfo'] = ('struct', pr)

    fctx = S.Rec(num_map_entries=U(W * 8), page_size=U(W * 8))
    fctx2 = S.Rec(num_map_entries=U(W * 8), page_size=U(W * 8), Elf_Nt_File_Entry=S.Any)
    L['Elf_Nt_File'] = ('struct', [
        ('num_map_entries', xword), ('page_size', xword),
        ('Elf_Nt_File_Entry', ('array', FnSpec('ctx.num_map_entries', shapes=dict(ctx=fctx)),
                               ('struct', [('vm_start', addr), ('vm_end', addr), ('page_offset', off)]))),
        ('filename', ('array', FnSpec('ctx.num_map_entries', shapes=dict(ctx=fctx2)), ('cstring', b'\x00', None)))])

    L['Elf_Stabs'] = ('struct', [('n_strx', word), ('n_type', byte), ('n_other', byte), ('n_desc', half),
                                 ('n_value', word)])
    L['Elf_Attr_Subsection_Header'] = ('struct', [('length', word), ('vendor_name', ('cstring', b'\x00', 'utf-8'))])
    L['Elf_Arm_Attribute_Tag'] = ('struct', [('tag', enum(('uleb',), E.ENUM_ATTR_TAG_ARM,
                                                          '_default_' in E.ENUM_ATTR_TAG_ARM))])
    L['Elf_RiscV_Attribute_Tag'] = ('struct', [('tag', enum(('uleb',), E.ENUM_ATTR_TAG_RISCV,
                                                            '_default_' in E.ENUM_ATTR_TAG_RISCV))])
    hctx = S.Rec(nbuckets=U(32), nchains=U(32))
    hctx2 = S.Rec(nbuckets=U(32), nchains=U(32), buckets=S.Any)
    L['Elf_Hash'] = ('struct', [('nbuckets', word), ('nchains', word),
                                ('buckets', ('array', FnSpec("ctx['nbuckets']", shapes=dict(ctx=hctx)), word)),
                                ('chains', ('array', FnSpec("ctx['nchains']", shapes=dict(ctx=hctx2)), word))])
    gctx = S.Rec(nbuckets=U(32), symoffset=U(32), bloom_size=U(32), bloom_shift=U(32))
    gctx2 = S.Rec(nbuckets=U(32), symoffset=U(32), bloom_size=U(32), bloom_shift=U(32), bloom=S.Any)
    L['Gnu_Hash'] = ('struct', [('nbuckets', word), ('symoffset', word), ('bloom_size', word), ('bloom_shift', word),
                                ('bloom', ('array', FnSpec("ctx['bloom_size']", shapes=dict(ctx=gctx)), xword)),
                                ('buckets', ('array', FnSpec("ctx['nbuckets']", shapes=dict(ctx=gctx2)), word))])
    # .gnu_debuglink: name, NUL, padding to the next 4-byte boundary, CRC32
    lctx = S.Rec(filename=S.Bytes)
    L['Gnu_debuglink'] = ('struct', [('filename', ('cstring', b'\x00', None)),
                                     (None, ('pad', FnSpec('(4 - (len(ctx.filename) + 1) % 4) % 4',
                                                           shapes=dict(ctx=lctx)), b'\x00', True)),
                                     ('checksum', word)])
    # primitive factories
    P = {'Elf_byte': byte, 'Elf_half': half, 'Elf_word': word, 'Elf_word64': word64, 'Elf_addr': addr,
         'Elf_offset': off, 'Elf_sword': s(4), 'Elf_xword': xword, 'Elf_sxword': sxword,
         'Elf_uleb128': ('uleb',), 'Elf_ntbs': ('cstring', b'\x00', None), 'Elf_ugid': ugid}
    return L, P


def prop_key(pr_type, pr_datasz, elfclass):
    """GNU property data selector: processor-specific ranges hold one 4-byte word;
    GNU_PROPERTY_STACK_SIZE holds a native word; everything else is raw bytes
    (the switch default).  Unknown (integer) types select the default."""
    return (None if isinstance(pr_type, int) else
            ('GNU_PROPERTY_X86_*', 4, 0) if pr_type.startswith('GNU_PROPERTY_X86_') else
            ('GNU_PROPERTY_AARCH64_*', 4, 0) if pr_type.startswith('GNU_PROPERTY_AARCH64_') else
            ('GNU_PROPERTY_RISCV_*', 4, 0) if pr_type.startswith('GNU_PROPERTY_RISCV_') else
            (pr_type, pr_datasz, elfclass))


from pyvc.contracts import export_spec
export_spec(prop_key)
