"""K1 (abstract) layouts derived mechanically from the specification normal
forms of specs/elf_layouts.py: field names, value shapes and ranges, and the
fixed size per ELF class.  In a VC `struct_parse(structs.X, stream, p)` yields a
record whose leaves are uninterpreted functions X.f(B, p); the K2 obligation of
the same name ties the real construct tree to the same normal form."""
import z3
from pyvc import shapes as S
from pyvc.calls import Layout, register_layout, LAYOUTS
from pyvc.k2 import FnSpec
from specs.elf_layouts import layouts


def nf_size(nf):
    """size in bytes of a fixed-size normal form, None if variable"""
    k = nf[0]
    if k == 'int':
        return nf[1]
    if k == 'int24':
        return 3
    if k == 'enum':
        return nf_size(nf[1])
    if k in ('struct', 'sequence'):
        tot = 0
        for _n, sub in nf[1]:
            s = nf_size(sub)
            if s is None:
                return None
            tot += s
        return tot
    if k == 'array':
        if isinstance(nf[1], int):
            s = nf_size(nf[2])
            return None if s is None else s * nf[1]
        return None
    if k in ('pad', 'bytes', 'string'):
        return nf[1] if isinstance(nf[1], int) else None
    if k == 'bits':
        return (sum(w for (_n, w, _e, _s, _sw) in nf[1]) + 7) // 8
    if k in ('value', 'offset', 'pass'):
        return 0
    return None


def nf_shape(nf):
    k = nf[0]
    if k == 'int':
        return S.S(nf[1] * 8) if nf[2] else S.U(nf[1] * 8)
    if k == 'int24':
        return S.U(24)
    if k == 'uleb':
        return S.Nat
    if k == 'sleb':
        return S.Int
    if k == 'enum':
        sub = nf[1]
        bits = 64
        if sub is not None and sub[0] == 'int':
            bits = sub[1] * 8
        return S.CodeT(bits)
    if k in ('struct', 'sequence'):
        return S.Rec(**{n: nf_shape(sub) for n, sub in nf[1] if n is not None and sub[0] != 'pad'})
    if k == 'bits':
        f = {}
        for name, w, enum, signed, _sw in nf[1]:
            if name is None:
                continue
            f[name] = S.CodeT(w) if enum is not None else S.U(w)
        return S.Rec(**f)
    if k in ('bytes', 'string', 'cstring'):
        if k != 'bytes' and nf[2]:
            return S.Str
        return S.Bytes
    if k == 'value':
        return S.Int
    if k == 'offset':
        return S.Nat
    if k == 'array':
        inner = nf_shape(nf[2])
        if isinstance(inner, (S.IntT, S.CodeT, S.Rec)):
            return S.ListOf(inner)
        return S.Any
    if k == 'switch':
        return S.Any
    if k == 'prefixed':
        return S.Any
    return S.Any


def _merge(a, b):
    """union of field shapes of the two classes (wider range wins)"""
    out = dict(a.fields)
    for k, v in b.fields.items():
        if k not in out:
            out[k] = v
        else:
            x = out[k]
            if isinstance(x, S.IntT) and isinstance(v, S.IntT):
                lo = None if (x.lo is None or v.lo is None) else min(x.lo, v.lo)
                hi = None if (x.hi is None or v.hi is None) else max(x.hi, v.hi)
                out[k] = S.IntT(lo, hi)
            elif isinstance(x, S.CodeT) and isinstance(v, S.CodeT):
                out[k] = S.CodeT(max(x.bits, v.bits))
            elif isinstance(x, S.Rec) and isinstance(v, S.Rec):
                out[k] = S.Rec(**_merge(x, v))
    return out


SIZES = {}


def register_elf_layouts():
    L32, P32 = layouts(True, 32, 'ET_EXEC', 'EM_NONE', 'ELFOSABI_SYSV')
    L64, P64 = layouts(True, 64, 'ET_EXEC', 'EM_NONE', 'ELFOSABI_SYSV')
    for name in L32:
        a, b = L32[name], L64[name]
        sa, sb = nf_size(a), nf_size(b)
        fields = _merge(nf_shape(a), nf_shape(b))
        size = None
        minsize = None
        if sa is not None and sb is not None:
            SIZES[name] = (sa, sb)

            def size(owner, sa=sa, sb=sb):
                if sa == sb:
                    return sa
                ec = owner.attrs['elfclass']
                if isinstance(ec, int):
                    return sa if ec == 32 else sb
                return z3.If(ec == 32, sa, sb)
        register_layout(Layout(name, fields, size=size, minsize=minsize, nf=b))
    for name in P32:
        a, b = P32[name], P64[name]
        sa, sb = nf_size(a), nf_size(b)
        if sa is None:
            continue
        SIZES[name] = (sa, sb)
        sh_a, sh_b = nf_shape(a), nf_shape(b)
        shape = sh_b if sb >= sa else sh_a

        def size(owner, sa=sa, sb=sb):
            ec = owner.attrs['elfclass']
            if isinstance(ec, int):
                return sa if ec == 32 else sb
            return z3.If(ec == 32, sa, sb)
        register_layout(Layout(name, shape, size=size))


register_elf_layouts()


def register_ehabi_layouts():
    register_layout(Layout('EH_index_struct', dict(word0=S.U32, word1=S.U32), size=8))
    register_layout(Layout('EH_table_struct', dict(word0=S.U32), size=4))


register_ehabi_layouts()


def register_leb_layouts():
    """ULEB128 as an abstract primitive for walkers: value and end position are functions of
    (bytes, position); the link to the byte-level definition is ULEB128._parse's K1 contract (C16)"""
    from pyvc.calls import Layout, register_layout
    from pyvc.vals import ArrS, IntS, BoolS, to_int
    from pyvc.ctx import PyExc

    def mk(name, signed):
        lay = Layout(name, None)
        val = z3.Function('leb.%s.val' % ('s' if signed else 'u'), ArrS, IntS, IntS)
        end = z3.Function('leb.end', ArrS, IntS, IntS)
        okf = z3.Function('leb.ok', ArrS, IntS, IntS, BoolS)

        def custom(I, M, stream, owner, ln, exc):
            p = to_int(stream.pos)
            L = to_int(stream.length)
            ok = okf(stream.arr, L, p)
            I.ctx.assume(end(stream.arr, p) > p)
            I.ctx.assume(z3.Implies(ok, end(stream.arr, p) <= L))
            if not signed:
                I.ctx.assume(val(stream.arr, p) >= 0)
            if not I.ctx.branch(ok):
                raise PyExc('ELFParseError' if exc == 'ELFParseError' else 'FieldError', ln, 'truncated LEB128')
            stream.pos = end(stream.arr, p)
            return val(stream.arr, p)
        lay.custom = custom
        return lay
    register_layout(mk('Elf_uleb128', False))
    register_layout(mk('Dwarf_uleb128', False))
    register_layout(mk('Dwarf_sleb128', True))
    LAYOUTS['the_Dwarf_uleb128'] = LAYOUTS['Dwarf_uleb128']
    LAYOUTS['the_Dwarf_sleb128'] = LAYOUTS['Dwarf_sleb128']


register_leb_layouts()


def register_dwarf_layouts():
    from specs.dwarf_layouts import layouts as dl
    L32, F32, P32, T32 = dl(True, 32, 8, 5)
    L64, F64, P64, T64 = dl(True, 64, 8, 5)

    def shape_of(nf):
        if nf[0] == 'initial_length':
            return S.Nat
        if nf[0] == 'ifthenelse':
            return S.Any
        if nf[0] == 'until' or nf[0] == 'prefixed':
            return S.Any
        return nf_shape(nf)
    for name in L32:
        a = L64[name]
        if a[0] != 'struct':
            continue
        fields = {}
        for n, sub in a[1]:
            if n is None or n == '<embed>' or sub[0] == 'pad':
                continue
            fields[n] = shape_of(sub)
        if name not in LAYOUTS:
            register_layout(Layout(name, fields, size=None, minsize=0, nf=None))
    fixed = {'Dwarf_uint8': (1, S.U8), 'Dwarf_uint16': (2, S.U16), 'Dwarf_uint24': (3, S.U(24)), 'Dwarf_uint32': (4, S.U32),
             'Dwarf_uint64': (8, S.U64), 'Dwarf_int8': (1, S.S(8)), 'Dwarf_int16': (2, S.S(16)), 'Dwarf_int32': (4, S.S(32)),
             'Dwarf_int64': (8, S.S(64)), 'the_Dwarf_uint8': (1, S.U8), 'the_Dwarf_uint16': (2, S.U16),
             'the_Dwarf_uint32': (4, S.U32)}
    for n, (sz, sh) in fixed.items():
        base = n.replace('the_', '')
        lay = Layout(base, sh, size=sz)
        LAYOUTS[n] = lay
    for n, attr, a, b in (('Dwarf_offset', 'dwarf_format', 32, 4), ('Dwarf_length', 'dwarf_format', 32, 4),
                          ('Dwarf_target_addr', 'address_size', 4, 4)):
        def size(owner, attr=attr, a=a):
            v = owner.attrs[attr]
            if isinstance(v, int):
                return 4 if v == a else 8
            return z3.If(v == a, 4, 8)
        lay = Layout(n, S.U64, size=size)
        LAYOUTS[n] = lay
        LAYOUTS['the_' + n] = lay


register_dwarf_layouts()
