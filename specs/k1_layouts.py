"""K1 (abstract) layouts derived mechanically from the specification normal
forms of specs/elf_layouts.py: field names, value shapes and ranges, and the
fixed size per ELF class.  In a VC `struct_parse(structs.X, stream, p)` yields a
record whose leaves are uninterpreted functions X.f(B, p); the K2 obligation of
the same name ties the real construct tree to the same normal form."""
import z3
from pyvc import shapes as S
from pyvc.calls import Layout, register_layout, LAYOUTS
from pyvc.k2 import FnSpec
from specs.elf_layouts import layouts


def nf_size(nf):
    """size in bytes of a fixed-size normal form, None if variable"""
    k = nf[0]
    if k == 'int':
        return nf[1]
    if k == 'int24':
        return 3
    if k == 'enum':
        return nf_size(nf[1])
    if k in ('struct', 'sequence'):
        tot = 0
        for _n, sub in nf[1]:
            s = nf_size(sub)
            if s is None:
                return None
            tot += s
        return tot
    if k == 'array':
        if isinstance(nf[1], int):
            s = nf_size(nf[2])
            return None if s is None else s * nf[1]
        return None
    if k in ('pad', 'bytes', 'string'):
        return nf[1] if isinstance(nf[1], int) else None
    if k == 'bits':
        return (sum(w for (_n, w, _e, _s, _sw) in nf[1]) + 7) // 8
    if k in ('value', 'offset', 'pass'):
        return 0
    return None


def nf_shape(nf):
    k = nf[0]
    if k == 'int':
        return S.S(nf[1] * 8) if nf[2] else S.U(nf[1] * 8)
    if k == 'int24':
        return S.U(24)
    if k == 'uleb':
        return S.Nat
    if k == 'sleb':
        return S.Int
    if k == 'enum':
        sub = nf[1]
        bits = 64
        if sub is not None and sub[0] == 'int':
            bits = sub[1] * 8
        return S.CodeT(bits)
    if k in ('struct', 'sequence'):
        return S.Rec(**{n: nf_shape(sub) for n, sub in nf[1] if n is not None and sub[0] != 'pad'})
    if k == 'bits':
        f = {}
        for name, w, enum, signed, _sw in nf[1]:
            if name is None:
                continue
            f[name] = S.CodeT(w) if enum is not None else S.U(w)
        return S.Rec(**f)
    if k in ('bytes', 'string', 'cstring'):
        if k != 'bytes' and nf[2]:
            return S.Str
        return S.Bytes
    if k == 'value':
        return S.Int
    if k == 'offset':
        return S.Nat
    if k == 'array':
        inner = nf_shape(nf[2])
        if isinstance(inner, (S.IntT, S.CodeT, S.Rec)):
            return S.ListOf(inner)
        return S.Any
    if k == 'switch':
        return S.Any
    if k == 'prefixed':
        return S.Any
    return S.Any


def _merge(a, b):
    """union of field shapes of the two classes (wider range wins)"""
    out = dict(a.fields)
    for k, v in b.fields.items():
        if k not in out:
            out[k] = v
        else:
            x = out[k]
            if isinstance(x, S.IntT) and isinstance(v, S.IntT):
                lo = None if (x.lo is None or v.lo is None) else min(x.lo, v.lo)
                hi = None if (x.hi is None or v.hi is None) else max(x.hi, v.hi)
                out[k] = S.IntT(lo, hi)
            elif isinstance(x, S.CodeT) and isinstance(v, S.CodeT):
                out[k] = S.CodeT(max(x.bits, v.bits))
            elif isinstance(x, S.Rec) and isinstance(v, S.Rec):
                out[k] = S.Rec(**_merge(x, v))
    return out


SIZES = {}


def register_elf_layouts():
    L32, P32 = layouts(True, 32, 'ET_EXEC', 'EM_NONE', 'ELFOSABI_SYSV')
    L64, P64 = layouts(True, 64, 'ET_EXEC', 'EM_NONE', 'ELFOSABI_SYSV')
    for name in L32:
        a, b = L32[name], L64[name]
        sa, sb = nf_size(a), nf_size(b)
        fields = _merge(nf_shape(a), nf_shape(b))
        size = None
        minsize = None
        if sa is not None and sb is not None:
            SIZES[name] = (sa, sb)

            def size(owner, sa=sa, sb=sb):
                if sa == sb:
                    return sa
                ec = owner.attrs['elfclass']
                if isinstance(ec, int):
                    return sa if ec == 32 else sb
                return z3.If(ec == 32, sa, sb)
        register_layout(Layout(name, fields, size=size, minsize=minsize, nf=b))
    for name in P32:
        a, b = P32[name], P64[name]
        sa, sb = nf_size(a), nf_size(b)
        if sa is None:
            continue
        SIZES[name] = (sa, sb)
        sh_a, sh_b = nf_shape(a), nf_shape(b)
        shape = sh_b if sb >= sa else sh_a

        def size(owner, sa=sa, sb=sb):
            ec = owner.attrs['elfclass']
            if isinstance(ec, int):
                return sa if ec == 32 else sb
            return z3.If(ec == 32, sa, sb)
        register_layout(Layout(name, shape, size=size))


register_elf_layouts()


def register_ehabi_layouts():
    register_layout(Layout('EH_index_struct', dict(word0=S.U32, word1=S.U32), size=8))
    register_layout(Layout('EH_table_struct', dict(word0=S.U32), size=4))


register_ehabi_layouts()


def register_leb_layouts():
    """ULEB128 as an abstract primitive for walkers: value and end position are functions of
    (bytes, position); the link to the byte-level definition is ULEB128._parse's K1 contract (C16)"""
    from pyvc.calls import Layout, register_layout
    from pyvc.vals import ArrS, IntS, BoolS, to_int
    from pyvc.ctx import PyExc

    def mk(name, signed):
        lay = Layout(name, None)
        val = z3.Function('leb.%s.val' % ('s' if signed else 'u'), ArrS, IntS, IntS)
        end = z3.Function('leb.end', ArrS, IntS, IntS)
        okf = z3.Function('leb.ok', ArrS, IntS, IntS, BoolS)

        def custom(I, M, stream, owner, ln, exc):
            p = to_int(stream.pos)
            L = to_int(stream.length)
            ok = okf(stream.arr, L, p)
            I.ctx.assume(end(stream.arr, p) > p)
            I.ctx.assume(z3.Implies(ok, end(stream.arr, p) <= L))
            if not signed:
                I.ctx.assume(val(stream.arr, p) >= 0)
            if not I.ctx.branch(ok):
                raise PyExc('ELFParseError' if exc == 'ELFParseError' else 'FieldError', ln, 'truncated LEB128')
            stream.pos = end(stream.arr, p)
            return val(stream.arr, p)
        lay.custom = custom
        return lay
    register_layout(mk('Elf_uleb128', False))
    register_layout(mk('Dwarf_uleb128', False))
    register_layout(mk('Dwarf_sleb128', True))
    LAYOUTS['the_Dwarf_uleb128'] = LAYOUTS['Dwarf_uleb128']
    LAYOUTS['the_Dwarf_sleb128'] = LAYOUTS['Dwarf_sleb128']


register_leb_layouts()


def _min_size(nf):
    s = nf_size(nf)
    if s is not None:
        return s, True
    k = nf[0]
    if k == 'initial_length':
        return 4, False
    if k in ('uleb', 'sleb'):
        return 1, False
    if k == 'cstring':
        return 1, False
    if k == 'enum':
        return _min_size(nf[1])
    return 0, False


def _offset_facts(nfs):
    """for the StreamOffset members of a struct: (name, lower bound of value - start, exact?) over
    the given configuration variants; exact only while every preceding member has the same fixed
    size in all variants"""
    per = []
    for nf in nfs:
        out, lo, exact = {}, 0, True
        for n, sub in nf[1]:
            if sub[0] == 'offset' and n:
                out[n] = (lo, exact)
            m, fixed = _min_size(sub)
            lo += m
            exact = exact and fixed
        per.append(out)
    facts = []
    for n in per[0]:
        los = [p[n][0] for p in per if n in p]
        ex = all(p[n][1] for p in per if n in p) and len(set(los)) == 1
        facts.append((n, min(los), ex))
    return facts


def register_dwarf_layouts():
    from specs.dwarf_layouts import layouts as dl
    L32, F32, P32, T32 = dl(True, 32, 8, 5)
    L64, F64, P64, T64 = dl(True, 64, 8, 5)

    variants = [dl(True, f, a, 5)[0] for f in (32, 64) for a in (4, 8)]

    def shape_of(nf):
        if nf[0] == 'initial_length':
            return S.Nat
        if nf[0] == 'ifthenelse':
            return S.Any
        if nf[0] == 'until' or nf[0] == 'prefixed':
            return S.Any
        return nf_shape(nf)
    for name in L32:
        a = L64[name]
        if a[0] != 'struct':
            continue
        fields = {}
        for n, sub in a[1]:
            if n is None or n == '<embed>' or sub[0] == 'pad':
                continue
            fields[n] = shape_of(sub)
        if name not in LAYOUTS:
            lay = Layout(name, fields, size=None, minsize=min(sum(_min_size(sub)[0] for _n, sub in v[name][1]) for v in variants), nf=None)
            lay.offset_facts = _offset_facts([v[name] for v in variants])
            register_layout(lay)
    fixed = {'Dwarf_uint8': (1, S.U8), 'Dwarf_uint16': (2, S.U16), 'Dwarf_uint24': (3, S.U(24)), 'Dwarf_uint32': (4, S.U32),
             'Dwarf_uint64': (8, S.U64), 'Dwarf_int8': (1, S.S(8)), 'Dwarf_int16': (2, S.S(16)), 'Dwarf_int32': (4, S.S(32)),
             'Dwarf_int64': (8, S.S(64)), 'the_Dwarf_uint8': (1, S.U8), 'the_Dwarf_uint16': (2, S.U16),
             'the_Dwarf_uint32': (4, S.U32)}
    for n, (sz, sh) in fixed.items():
        base = n.replace('the_', '')
        lay = Layout(base, sh, size=sz)
        LAYOUTS[n] = lay
    for n, attr, a, b in (('Dwarf_offset', 'dwarf_format', 32, 4), ('Dwarf_length', 'dwarf_format', 32, 4),
                          ('Dwarf_target_addr', 'address_size', 4, 4)):
        def size(owner, attr=attr, a=a):
            v = owner.attrs[attr]
            if isinstance(v, int):
                return 4 if v == a else 8
            return z3.If(v == a, 4, 8)
        lay = Layout(n, S.U64, size=size)
        lay.custom = _sized_word(size)
        LAYOUTS[n] = lay
        LAYOUTS['the_' + n] = lay


def _initial_length_layout():
    """Dwarf_initial_length (7.4; the adapter's own K1 contract is C16's): a first word below 0xffffff00 is the length
    (4 bytes); 0xffffffff announces the 64-bit format and the length is the following 8-byte word (12 bytes); other
    first words are rejected"""
    lay = Layout('Dwarf_initial_length', S.Nat, size=None)

    def custom(I, M, stream, owner, ln, exc):
        from pyvc.ctx import PyExc
        from pyvc.vals import ArrS, IntS, to_int
        pz, L = to_int(stream.pos), to_int(stream.length)
        err = exc if exc != 'ConstructError' else 'FieldError'
        if not I.ctx.branch(pz + 4 <= L):
            raise PyExc(err, ln, 'short read in initial length')
        w = z3.Function('Dwarf_uint32', ArrS, IntS, IntS)(stream.arr, pz)
        I.ctx.assume(z3.And(w >= 0, w < 2 ** 32))
        if I.ctx.branch(w < 0xffffff00):
            stream.pos = z3.simplify(pz + 4)
            return w
        if not I.ctx.branch(w == 0xffffffff):
            raise PyExc(exc if exc != 'ConstructError' else 'ConstructError', ln, 'reserved initial length')
        if not I.ctx.branch(pz + 12 <= L):
            raise PyExc(err, ln, 'short read in 64-bit initial length')
        v = z3.Function('Dwarf_uint64', ArrS, IntS, IntS)(stream.arr, pz + 4)
        I.ctx.assume(z3.And(v >= 0, v < 2 ** 64))
        stream.pos = z3.simplify(pz + 12)
        return v
    lay.custom = custom
    LAYOUTS['Dwarf_initial_length'] = lay


_initial_length_layout()
_WORD = z3.Function('Dwarf_word', z3.ArraySort(z3.IntSort(), z3.IntSort()), z3.IntSort(), z3.IntSort(), z3.IntSort())


def dwarf_word(arr, p, size):
    """value of a format- or address-sized field: a function of (bytes, position, width) so that a
    read with the wrong width is a different value"""
    return _WORD(arr, p, size)


def _sized_word(size_of):
    def custom(I, M, stream, owner, ln, exc):
        from pyvc.ctx import PyExc
        from pyvc.vals import to_int
        size = size_of(owner)
        pz, L = to_int(stream.pos), to_int(stream.length)
        if not I.ctx.branch(pz + to_int(size) <= L):
            raise PyExc(exc if exc != 'ConstructError' else 'FieldError', ln, 'short read in sized word')
        v = _WORD(stream.arr, pz, to_int(size))
        I.ctx.assume(z3.And(v >= 0, z3.Implies(to_int(size) == 4, v < 2 ** 32), v < 2 ** 64))
        stream.pos = z3.simplify(pz + to_int(size))
        return v
    return custom


register_dwarf_layouts()


# ---- v5 list entries (RepeatUntilExcluding over a switch on the entry kind; K2: Dwarf_*lists_entries)
RLE_KINDS = {
    'DW_RLE_base_addressx': ['index'], 'DW_RLE_startx_endx': ['start_index', 'end_index'],
    'DW_RLE_startx_length': ['start_index', 'length'], 'DW_RLE_offset_pair': ['start_offset', 'end_offset'],
    'DW_RLE_base_address': ['address'], 'DW_RLE_start_end': ['start_address', 'end_address'],
    'DW_RLE_start_length': ['start_address', 'length'],
}
LLE_KINDS = {
    'DW_LLE_base_addressx': ['index'], 'DW_LLE_startx_endx': ['start_index', 'end_index', 'loc_expr'],
    'DW_LLE_startx_length': ['start_index', 'length', 'loc_expr'], 'DW_LLE_offset_pair': ['start_offset', 'end_offset', 'loc_expr'],
    'DW_LLE_default_location': ['loc_expr'], 'DW_LLE_base_address': ['address'],
    'DW_LLE_start_end': ['start_address', 'end_address', 'loc_expr'], 'DW_LLE_start_length': ['start_address', 'length', 'loc_expr'],
}


def list_entries_value(name, kinds, arr, p):
    """the decoded entries of the list starting at p, terminator excluded: element j is a record
    whose leaves are functions of (bytes, p, j); a field exists exactly for the kinds that carry it"""
    from pyvc.vals import SList, SRec, Code, ArrS, IntS, BoolS, StrS, to_int
    p = to_int(p)
    n = z3.Function(name + '.count', ArrS, IntS, IntS)(arr, p)
    allf = []
    for fs in kinds.values():
        for f in fs:
            if f not in allf:
                allf.append(f)

    def elem(j):
        j = to_int(j)

        def uf(f, sort=IntS):
            return z3.Function('%s[].%s' % (name, f), ArrS, IntS, IntS, sort)(arr, p, j)
        et = Code(z3.BoolVal(True), uf('entry_type', StrS), z3.IntVal(0))
        fields = dict(entry_offset=uf('entry_offset'), entry_type=et)
        present = {}
        for f in allf:
            if f == 'loc_expr':
                ln = uf('loc_expr.len')
                fields[f] = SList(lambda i, j=j: z3.Function('%s[].loc_expr[]' % name, ArrS, IntS, IntS, IntS, IntS)(arr, p, j, to_int(i)),
                                  ln, name + '.loc_expr')
            else:
                fields[f] = uf(f)
            ks = [k for k, fs in kinds.items() if f in fs]
            present[f] = z3.Or(*[et.name == z3.StringVal(k) for k in ks])
        fields['entry_end_offset'] = uf('entry_end_offset')
        fields['entry_length'] = uf('entry_end_offset') - uf('entry_offset')
        return SRec(fields, 'Container', None, present)
    return SList(elem, n, name)


def list_entries_facts(name, kinds, arr, p):
    """well-formedness of the decoded list that the layout guarantees (K2 + Sem of the node kinds):
    kinds are the named non-terminator kinds, fields are natural numbers, entries are adjacent from p"""
    from pyvc.vals import ArrS, IntS, StrS, to_int
    p = to_int(p)
    j = z3.Int('j!' + name)
    n = z3.Function(name + '.count', ArrS, IntS, IntS)(arr, p)

    def uf(f, sort=IntS):
        return z3.Function('%s[].%s' % (name, f), ArrS, IntS, IntS, sort)(arr, p, j)
    allf = sorted({f for fs in kinds.values() for f in fs if f != 'loc_expr'})
    body = [z3.Or(*[uf('entry_type', StrS) == z3.StringVal(k) for k in kinds]),
            uf('entry_offset') >= p, uf('entry_end_offset') > uf('entry_offset'), uf('loc_expr.len') >= 0]
    body += [uf(f) >= 0 for f in allf]
    nxt = z3.Function('%s[].entry_offset' % name, ArrS, IntS, IntS, IntS)
    body.append(z3.Implies(j + 1 < n, nxt(arr, p, j + 1) == uf('entry_end_offset')))
    return [n >= 0, z3.Implies(n > 0, nxt(arr, p, 0) == p),
            z3.ForAll([j], z3.Implies(z3.And(j >= 0, j < n), z3.And(*body)), patterns=[uf('entry_offset'), uf('entry_type', StrS)])]


def _entries_layout(name, kinds):
    lay = Layout(name, None)

    def custom(I, M, stream, owner, ln, exc):
        from pyvc.ctx import PyExc
        from pyvc.vals import ArrS, IntS, BoolS, to_int
        p, L = to_int(stream.pos), to_int(stream.length)
        ok = z3.Function('ok!' + name, ArrS, IntS, IntS, BoolS)(stream.arr, L, p)
        end = z3.Function('end!' + name, ArrS, IntS, IntS)(stream.arr, p)
        if not I.ctx.branch(ok):
            raise PyExc(exc if exc != 'ConstructError' else 'FieldError', ln, 'malformed or truncated list')
        val = list_entries_value(name, kinds, stream.arr, p)
        for f in list_entries_facts(name, kinds, stream.arr, p):
            I.ctx.assume(f)
        I.ctx.assume(z3.And(end > p, end <= L))
        stream.pos = end
        return val
    lay.custom = custom
    LAYOUTS[name] = lay


_entries_layout('Dwarf_rnglists_entries', RLE_KINDS)
_entries_layout('Dwarf_loclists_entries', LLE_KINDS)


def _cu_header_layout(name):
    """Dwarf_CU_header / Dwarf_TU_header (7.5.1): the version selects the order and presence of the members;
    every member is a leaf function of (bytes, offset); unit_type and the type/skeleton members exist from
    version 5 on (K2 compares the real construct tree with the layout in every configuration)"""
    lay = Layout(name, None)

    def custom(I, M, stream, owner, ln, exc):
        from pyvc.ctx import PyExc
        from pyvc.vals import ArrS, IntS, BoolS, to_int, SRec, Code
        p, L = to_int(stream.pos), to_int(stream.length)
        ok = z3.Function('ok!' + name, ArrS, IntS, IntS, BoolS)(stream.arr, L, p)
        end = z3.Function('end!' + name, ArrS, IntS, IntS)(stream.arr, p)
        if not I.ctx.branch(ok):
            raise PyExc(exc if exc != 'ConstructError' else 'FieldError', ln, 'short read in ' + name)

        def leaf(f):
            return z3.Function('%s.%s' % (name, f), ArrS, IntS, IntS)(stream.arr, p)
        fields = {f: leaf(f) for f in ('unit_length', 'version', 'debug_abbrev_offset', 'address_size')}
        v5 = fields['version'] >= 5
        present = {}
        ut = z3.Function('%s.unit_type.name' % name, ArrS, IntS, z3.StringSort())(stream.arr, p)
        fields['unit_type'] = Code(z3.Function('%s.unit_type.isname' % name, ArrS, IntS, BoolS)(stream.arr, p), ut, leaf('unit_type.raw'))
        present['unit_type'] = v5
        for f in ('dwo_id', 'type_signature', 'type_offset'):
            fields[f] = leaf(f)
            present[f] = v5
        I.ctx.assume(z3.And(fields['unit_length'] >= 0, fields['version'] >= 0, fields['version'] < 65536,
                            fields['debug_abbrev_offset'] >= 0, fields['address_size'] >= 0, fields['address_size'] < 256,
                            end >= p + 11, end <= L))
        stream.pos = end
        return SRec(fields, 'Container', None, present)
    lay.custom = custom
    LAYOUTS[name] = lay


_cu_header_layout('Dwarf_CU_header')


def _tu_header_layout(name='Dwarf_TU_header'):
    """Dwarf_TU_header (DWARF v4 7.5.1.2): the compilation unit header followed by the 8-byte type signature and the
    offset-sized type_offset; every member is a leaf function of (bytes, offset) (K2 compares the real construct
    tree with the layout in every configuration)"""
    lay = Layout(name, None)

    def custom(I, M, stream, owner, ln, exc):
        from pyvc.ctx import PyExc
        from pyvc.vals import ArrS, IntS, BoolS, to_int, SRec
        p, L = to_int(stream.pos), to_int(stream.length)
        ok = z3.Function('ok!' + name, ArrS, IntS, IntS, BoolS)(stream.arr, L, p)
        end = z3.Function('end!' + name, ArrS, IntS, IntS)(stream.arr, p)
        if not I.ctx.branch(ok):
            raise PyExc(exc if exc != 'ConstructError' else 'FieldError', ln, 'short read in ' + name)
        fields = {f: z3.Function('%s.%s' % (name, f), ArrS, IntS, IntS)(stream.arr, p)
                  for f in ('unit_length', 'version', 'debug_abbrev_offset', 'address_size', 'signature', 'type_offset')}
        I.ctx.assume(z3.And(fields['unit_length'] >= 0, fields['version'] >= 0, fields['version'] < 65536,
                            fields['debug_abbrev_offset'] >= 0, fields['address_size'] >= 0, fields['address_size'] < 256,
                            fields['signature'] >= 0, fields['signature'] < 2 ** 64, fields['type_offset'] >= 0,
                            end >= p + 23, end <= L))
        stream.pos = end
        return SRec(fields, 'Container')
    lay.custom = custom
    LAYOUTS[name] = lay


_tu_header_layout()
