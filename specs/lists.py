"""Specification helpers for location/range lists (DWARF v5 2.6.2, 2.17.3, 7.7.3, 7.25; pre-v5 7.7.3)."""
import z3
from pyvc.vals import to_int, ArrS, IntS


def _native(f):
    f._native = True
    return f


_hasb = z3.Function('unit.has_base', IntS, z3.StringSort(), z3.BoolSort())
_baseof = z3.Function('unit.base', IntS, z3.StringSort(), IntS)


@_native
def gaddr(I, cu, index):
    """the address the unit's address table holds at `index` (7.27): the address-sized word at
    DW_AT_addr_base + index * address_size of .debug_addr"""
    from specs.k1_layouts import dwarf_word
    from pyvc.vals import SOpt
    sec = cu.attrs['dwarfinfo'].attrs['debug_addr_sec']
    absent = z3.Function('debug_addr.absent', IntS, IntS, IntS)(to_int(cu.attrs['cu_offset']), to_int(index))
    if sec is None:
        # no .debug_addr section: get_addr never returns, the value is never observed (total for the logic)
        return absent
    isnone = None
    if isinstance(sec, SOpt):
        isnone, sec = sec.isnone, sec.val
    from specs.die import A_value, _ctx
    iarr, cuo = _ctx(cu)
    base = A_value(iarr, cuo, to_int(cu.attrs['tu_die_offset' if cu.cls == 'TypeUnit' else 'cu_die_offset']), z3.StringVal('DW_AT_addr_base'))
    v = dwarf_word(sec.fields['stream'].arr, base + to_int(index) * to_int(cu.attrs['header'].fields['address_size']),
                   to_int(cu.attrs['structs'].attrs['address_size']))
    return v if isnone is None else z3.If(isnone, absent, v)


@_native
def word_at_addr(I, B, p, W):
    """address-sized word (W bytes) at p"""
    from specs.k1_layouts import dwarf_word
    return dwarf_word(B.arr, to_int(p), to_int(W))


@_native
def offset_word(I, B, p, fmt):
    """offset-sized word at p: 4 bytes in the 32-bit DWARF format, 8 in the 64-bit format"""
    from specs.k1_layouts import dwarf_word
    return dwarf_word(B.arr, to_int(p), z3.If(to_int(fmt) == 32, 4, 8))


def pair_off(p, W, k):
    return p + 2 * W * k


def loc_next(B, o):
    raise NotImplementedError


@_native
def is_kind(I, rec, name):
    """the record is an instance of the named entry class"""
    from pyvc.vals import kind_id, SRec
    if rec is None or not (isinstance(rec, SRec) or z3.is_expr(rec)):
        return False          # None, lists: not an entry record
    if not isinstance(rec, SRec):
        # element of an empty sequence (no such element exists): unconstrained
        return I.ctx.const('kind!nil', z3.BoolSort())
    return rec.tag_term() == kind_id(name)


def _is_kind_py(rec, name):
    return type(rec).__name__ == name


is_kind.py = _is_kind_py


@_native
def rnglist_at(I, B, p):
    """decoded v5 range list at p (the value struct_parse(Dwarf_rnglists_entries) yields there)"""
    from specs.k1_layouts import list_entries_value, RLE_KINDS
    return list_entries_value('Dwarf_rnglists_entries', RLE_KINDS, B.arr, p)


@_native
def loclist_at(I, B, p):
    from specs.k1_layouts import list_entries_value, LLE_KINDS
    return list_entries_value('Dwarf_loclists_entries', LLE_KINDS, B.arr, p)


@_native
def has_base(I, cu, name):
    """the unit's root entry carries the base attribute"""
    from specs.die import A_has, _ctx
    from pyvc.vals import to_str
    arr, cuo = _ctx(cu)
    return A_has(arr, cuo, to_int(cu.attrs['tu_die_offset' if cu.cls == 'TypeUnit' else 'cu_die_offset']), to_str(name))


@_native
def base_of(I, cu, name):
    """value of a base attribute of the unit's root entry"""
    from specs.die import A_value, _ctx
    from pyvc.vals import to_str
    arr, cuo = _ctx(cu)
    return A_value(arr, cuo, to_int(cu.attrs['tu_die_offset' if cu.cls == 'TypeUnit' else 'cu_die_offset']), to_str(name))


@_native
def u16_at(I, B, p):
    return z3.Function('Dwarf_uint16', ArrS, IntS, IntS)(B.arr, to_int(p))


_locoff = z3.Function('loc_off', ArrS, IntS, IntS, IntS, IntS)


@_native
def loc_off(I, B, p, W, k):
    """offset of the k-th entry of the pre-v5 location list at p (address size W): a base selection
    entry (first word all ones) takes 2W bytes, a location entry 2W + 2 + its expression length"""
    return _locoff(B.arr, to_int(p), to_int(W), to_int(k))


def _unfold_locoff(t):
    from specs.k1_layouts import dwarf_word
    arr, p, W, k = t.arg(0), t.arg(1), t.arg(2), t.arg(3)
    prev = _locoff(arr, p, W, k - 1)
    first = dwarf_word(arr, prev, W)
    u16 = z3.Function('Dwarf_uint16', ArrS, IntS, IntS)
    mx = z3.If(W == 4, 2 ** 32 - 1, 2 ** 64 - 1)
    return [_locoff(arr, p, W, 0) == p,
            z3.Implies(k >= 1, t == z3.If(first == mx, prev + 2 * W, prev + 2 * W + 2 + u16(arr, prev + 2 * W)))]


from pyvc.verify import register_recdef
register_recdef('loc_off', _unfold_locoff, forward=True)


def _hdr(name, field):
    return z3.Function('%s.%s' % (name, field), ArrS, IntS, IntS)


_blockoff = {}


def _block_fn(name):
    if name not in _blockoff:
        f = z3.Function('block_off!' + name, ArrS, IntS, IntS)
        _blockoff[name] = f

        def unfold(t, f=f, name=name):
            arr, k = t.arg(0), t.arg(1)
            prev = f(arr, k - 1)
            return [f(arr, 0) == 0,
                    z3.Implies(k >= 1, t == _hdr(name, 'offset_after_length')(arr, prev) + _hdr(name, 'unit_length')(arr, prev))]
        register_recdef('block_off!' + name, unfold)
    return _blockoff[name]


@_native
def block_off(I, B, parser, k):
    """offset of the k-th unit block of a v5 list section: the next block starts where the unit
    length of this one ends (7.28 / 7.29)"""
    return _block_fn(parser.name)(B.arr, to_int(k))


_lstoff = z3.Function('lst_off', ArrS, IntS, IntS, IntS)


@_native
def lst_off(I, B, first, k):
    """offset of the k-th range list of a unit block whose lists start at `first`: lists are adjacent,
    each ends after its end-of-list entry"""
    return _lstoff(B.arr, to_int(first), to_int(k))


def _unfold_lstoff(t):
    arr, first, k = t.arg(0), t.arg(1), t.arg(2)
    prev = _lstoff(arr, first, k - 1)
    end = z3.Function('end!Dwarf_rnglists_entries', ArrS, IntS, IntS)
    return [_lstoff(arr, first, 0) == first, z3.Implies(k >= 1, t == end(arr, prev))]


register_recdef('lst_off', _unfold_lstoff, forward=True)

_pairoff = z3.Function('view_off', ArrS, IntS, IntS, IntS)


@_native
def view_off(I, B, first, k):
    """offset of the k-th location view pair from `first`: pairs are adjacent (each two ULEB128
    numbers: layout Dwarf_locview_pair, K2)"""
    return _pairoff(B.arr, to_int(first), to_int(k))


def _unfold_pairoff(t):
    arr, first, k = t.arg(0), t.arg(1), t.arg(2)
    prev = _pairoff(arr, first, k - 1)
    end = z3.Function('end!Dwarf_locview_pair', ArrS, IntS, IntS)
    return [_pairoff(arr, first, 0) == first, z3.Implies(k >= 1, t == end(arr, prev))]


register_recdef('view_off', _unfold_pairoff, forward=True)


@_native
def uleb_at(I, B, p):
    return z3.Function('leb.u.val', ArrS, IntS, IntS)(B.arr, to_int(p))


@_native
def uleb_end(I, B, p):
    return z3.Function('leb.end', ArrS, IntS, IntS)(B.arr, to_int(p))


@_native
def hdr_field(I, B, parser, field, p):
    """field of the unit block header at p (leaf of the K1 layout; K2 ties it to the bytes)"""
    return _hdr(parser.name, field)(B.arr, to_int(p))


LOCLIST_ATTRS = ('DW_AT_location', 'DW_AT_string_length', 'DW_AT_return_addr', 'DW_AT_data_member_location',
                 'DW_AT_frame_base', 'DW_AT_segment', 'DW_AT_static_link', 'DW_AT_use_location',
                 'DW_AT_vtable_elem_location')      # DWARF v5 table 7.5: attributes of class exprloc + loclist
BLOCK_FORMS = ('DW_FORM_block', 'DW_FORM_block1', 'DW_FORM_block2', 'DW_FORM_block4')
