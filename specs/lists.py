"""Specification helpers for location/range lists (DWARF v5 2.6.2, 2.17.3, 7.7.3, 7.25; pre-v5 7.7.3)."""
import z3
from pyvc.vals import to_int, ArrS, IntS


def _native(f):
    f._native = True
    return f


_gaddr = z3.Function('debug_addr.entry', IntS, IntS, IntS)


@_native
def gaddr(I, cu, index):
    """the address the unit's address table holds at `index` (get_addr)"""
    return _gaddr(z3.IntVal(0), to_int(index))


@_native
def word_at_addr(I, B, p):
    """address-sized word at p"""
    return z3.Function('Dwarf_target_addr', ArrS, IntS, IntS)(B.arr, to_int(p))


def pair_off(p, W, k):
    return p + 2 * W * k


def loc_next(B, o):
    raise NotImplementedError
