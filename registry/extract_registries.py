#!/usr/bin/env python3
"""Extracts (name -> set of values) registries from the headers present in the
sandbox image and writes them as JSON next to this script (vendored, committed):
  glibc /usr/include/elf.h                     -> elf_h.json
  LLVM 14 BinaryFormat/ELF.h, ELFRelocs/*.def, DynamicTags.def -> llvm_elf.json
  LLVM 14 BinaryFormat/Dwarf.def, Dwarf.h      -> llvm_dwarf.json
Run once; the check reads only the JSON files (with the source file hashes)."""
import glob
import hashlib
import json
import os
import re

HERE = os.path.dirname(os.path.abspath(__file__))
LLVM = '/usr/include/llvm-14/llvm/BinaryFormat'


def c_int(tok):
    t = tok.strip()
    t = re.sub(r'(?i)(ull|ul|llu|lu|ll|u|l)$', '', t)
    if re.fullmatch(r'0[xX][0-9a-fA-F]+', t):
        return int(t, 16)
    if re.fullmatch(r'0[0-7]+', t):
        return int(t, 8)
    if re.fullmatch(r'[0-9]+', t):
        return int(t)
    return None


def eval_c(expr, env):
    """evaluate a C constant expression over already known names"""
    e = re.sub(r'/\*.*?\*/', '', expr).strip()
    e = re.sub(r'//.*$', '', e).strip()
    if not e:
        return None
    e = re.sub(r'\(\s*(unsigned|int|long|uint\d+_t|Elf\d+_\w+|unsigned int|unsigned long)\s*\)', '', e)

    def rep(m):
        w = m.group(0)
        v = c_int(w)
        if v is not None:
            return str(v)
        if w in env and len(env[w]) == 1:
            return str(next(iter(env[w])))
        raise KeyError(w)
    try:
        py = re.sub(r'[A-Za-z_0-9]+', rep, e)
        if re.search(r'[^0-9\s()+\-*/<>|&~^]', py):
            return None
        return int(eval(py.replace('/', '//'), {'__builtins__': {}}))
    except Exception:
        return None


def sha(path):
    return hashlib.sha256(open(path, 'rb').read()).hexdigest()


def from_elf_h(path='/usr/include/elf.h'):
    env = {}
    txt = open(path, encoding='latin-1').read()
    txt = txt.replace('\\\n', ' ')
    for m in re.finditer(r'^[ \t]*#[ \t]*define[ \t]+([A-Za-z_][A-Za-z_0-9]*)[ \t]+(.+)$', txt, re.M):
        name, expr = m.group(1), m.group(2)
        if '(' in name:
            continue
        v = eval_c(expr, env)
        if v is not None:
            env.setdefault(name, set()).add(v)
    return env


def from_llvm_elf():
    env = {}
    txt = open(os.path.join(LLVM, 'ELF.h'), encoding='latin-1').read()
    txt = re.sub(r'/\*.*?\*/', '', txt, flags=re.S)
    for m in re.finditer(r'^\s*([A-Za-z_][A-Za-z_0-9]*)\s*=\s*([^,/\n]+?)\s*,?\s*(//.*)?$', txt, re.M):
        name, expr = m.group(1), m.group(2)
        v = eval_c(expr, env)
        if v is not None:
            env.setdefault(name, set()).add(v)
    for f in sorted(glob.glob(os.path.join(LLVM, 'ELFRelocs', '*.def'))):
        for m in re.finditer(r'ELF_RELOC\(\s*([A-Za-z_0-9]+)\s*,\s*([^)]+)\)', open(f).read()):
            v = eval_c(m.group(2), env)
            if v is not None:
                env.setdefault(m.group(1), set()).add(v)
    for m in re.finditer(r'^\s*([A-Z_0-9]*DYNAMIC_TAG)\(\s*([A-Za-z_0-9]+)\s*,\s*([^)]+)\)', open(os.path.join(LLVM, 'DynamicTags.def')).read(), re.M):
        kind, nm, val = m.groups()
        if kind == 'DYNAMIC_TAG_MARKER':
            pass
        v = eval_c(val, env)
        if v is not None:
            env.setdefault('DT_' + nm, set()).add(v)
    return env


def from_llvm_dwarf():
    env = {}
    txt = open(os.path.join(LLVM, 'Dwarf.def')).read()
    prefix = {'TAG': 'DW_TAG_', 'AT': 'DW_AT_', 'FORM': 'DW_FORM_', 'OP': 'DW_OP_', 'LANG': 'DW_LANG_',
              'ATE': 'DW_ATE_', 'VIRTUALITY': 'DW_VIRTUALITY_', 'DEFAULTED': 'DW_DEFAULTED_', 'CC': 'DW_CC_',
              'LNE': 'DW_LNE_', 'LNS': 'DW_LNS_', 'LNCT': 'DW_LNCT_', 'MACRO': 'DW_MACRO_', 'MACRO_GNU': 'DW_MACRO_GNU_',
              'RLE': 'DW_RLE_', 'LLE': 'DW_LLE_', 'CFA': 'DW_CFA_', 'CFA_PRED': 'DW_CFA_', 'APPLE_PROPERTY': 'DW_APPLE_PROPERTY_',
              'UT': 'DW_UT_', 'IDX': 'DW_IDX_', 'END': 'DW_END_', 'SECTION': None}
    for m in re.finditer(r'^HANDLE_DW_([A-Z_]+)\(\s*(0x[0-9a-fA-F]+|[0-9]+)\s*,\s*([A-Za-z_0-9]+)', txt, re.M):
        kind, val, nm = m.groups()
        p = prefix.get(kind)
        if p is None:
            continue
        env.setdefault(p + nm, set()).add(int(val, 0))
    h = open(os.path.join(LLVM, 'Dwarf.h')).read()
    h = re.sub(r'/\*.*?\*/', '', h, flags=re.S)
    for m in re.finditer(r'^\s*(DW_[A-Za-z_0-9]+)\s*=\s*([^,/\n]+?)\s*,?\s*(//.*)?$', h, re.M):
        v = eval_c(m.group(2), env)
        if v is not None:
            env.setdefault(m.group(1), set()).add(v)
    return env


def dump(env, path, sources):
    out = dict(sources={s: sha(s) for s in sources}, names={k: sorted(v) for k, v in sorted(env.items())})
    json.dump(out, open(path, 'w'), indent=0, sort_keys=True)
    print(path, len(env), 'names')


if __name__ == '__main__':
    dump(from_elf_h(), os.path.join(HERE, 'elf_h.json'), ['/usr/include/elf.h'])
    dump(from_llvm_elf(), os.path.join(HERE, 'llvm_elf.json'),
         [os.path.join(LLVM, 'ELF.h'), os.path.join(LLVM, 'DynamicTags.def')] + sorted(glob.glob(os.path.join(LLVM, 'ELFRelocs', '*.def'))))
    dump(from_llvm_dwarf(), os.path.join(HERE, 'llvm_dwarf.json'),
         [os.path.join(LLVM, 'Dwarf.def'), os.path.join(LLVM, 'Dwarf.h')])
