"""shapes shared by the DWARF contracts (not a contract file)"""
from pyvc.shapes import *
from specs.dwarf import StructsT

InfoStream = SharedStream('debug_info')
InfoSecT = Rec('DebugSectionDescriptor', stream=InfoStream, name=Str, global_offset=Nat, size=Nat, address=Nat)
AddrSecT = Rec('DebugSectionDescriptor', stream=Stream, name=Str, global_offset=Nat, size=Nat, address=Nat)
AttrT = Rec('AttributeValue', name=Str, form=Str, value=Nat, raw_value=Nat, offset=Nat, indirection_length=Nat)
def _sec():
    return Rec('DebugSectionDescriptor', stream=Stream, name=Str, global_offset=Nat, size=Nat, address=Nat)


SupT = Obj('DWARFInfo', debug_str_sec=_sec())
DInfoT = Obj('DWARFInfo', debug_info_sec=InfoSecT, debug_addr_sec=SymOpt(AddrSecT), structs=StructsT,
             debug_str_sec=_sec(), debug_line_str_sec=_sec(), debug_str_offsets_sec=_sec(), debug_loclists_sec=_sec(),
             debug_rnglists_sec=_sec(), supplementary_dwarfinfo=SymOpt(SupT))
TermT = Obj('DIE', offset=Nat, size=Nat)
DIET = Obj('DIE', offset=Nat, size=Nat, abbrev_code=Nat, tag=SymOpt(CodeT(32)), has_children=SymOpt(Bool),
           attributes=DictOf(AttrT), _terminator=SymOpt(TermT), _parent=Any, stream=InfoStream)
CUHdr = Rec(unit_length=Nat, version=U16, address_size=U8, debug_abbrev_offset=Nat)

# representation invariant of the per-unit entry cache: parallel lists, strictly increasing offsets,
# entry i is the entry at offset i, the root entry first
DIE_RI = ["len(self._dielist) == len(self._diemap)",
          "forall(lambda i, j: i >= j or self._diemap[i] < self._diemap[j], 0, len(self._diemap), 0, len(self._diemap))",
          "forall(lambda i: die_at(self._dielist[i], self, self._diemap[i]), 0, len(self._dielist))",
          "len(self._diemap) == 0 or self._diemap[0] == self.cu_die_offset"]

# a unit with its lazily built entry cache: the cache lists are representation fields (only their
# owners -- get_top_DIE, _get_cached_DIE -- touch them), DIE_RI is the object invariant
CUFull = Obj('CompileUnit', _inv=DIE_RI, _rep=('_dielist', '_diemap'), cu_offset=Nat, cu_die_offset=Nat, dwarfinfo=DInfoT,
             header=CUHdr, structs=StructsT, _dielist=ListOf(DIET), _diemap=ListOf(Nat))
CUArg = CUFull
CACHE_SHAPES = {"self._dielist": ListOf(DIET), "self._diemap": ListOf(Nat)}
