from pyvc.contracts import contract
from pyvc.shapes import *
from specs.prim import pow2, uleb_partial


@contract("elftools/common/utils.py", "roundup", props=["C14", "C16"])
class roundup:
    params = dict(num=Nat, bits=OneOf(0, 1, 2, 3, 4))
    returns = Int
    ensures = ["result >= num", "result < num + 2**bits", "result % (2**bits) == 0"]


@contract("elftools/common/construct_utils.py", "ULEB128._parse", props=["C16"])
class uleb_parse:
    params = dict(self=Any, stream=Stream, context=Any)
    ghost = {"$p": "stream.pos", "$B": "stream.B"}
    loops = {0: dict(
        invariant=["stream.pos == $p + $k", "shift == 7 * $k", "0 <= value", "value < pow2(shift)",
                   "value == uleb_partial($B, $p, $k)",
                   "forall(lambda j: $B[$p + j] >= 128, 0, $k)", "$p + $k <= max(old(stream.pos), len($B))"],
        variant="len($B) + 1 - stream.pos")}
    ensures = ["result == uleb_partial($B, $p, stream.pos - $p)",
               "stream.pos > $p", "$B[stream.pos - 1] < 128",
               "forall(lambda j: $B[$p + j] >= 128, 0, stream.pos - 1 - $p)",
               "stream.pos <= len($B)"]
    raises = {"FieldError": "forall(lambda j: stream.B[stream.pos + j] >= 128, 0, len(stream.B) - stream.pos)"}


@contract("elftools/common/utils.py", "struct_parse", props=["C16", "C19", "C01", "C02", "C03", "C04", "C05", "C06", "C07", "C08", "C09",
                                                            "C10", "C11", "C13", "C14", "C15", "C20"])
class struct_parse_real:
    """call sites execute the real body (seek, parse, exception wrapping): no hand-written model of it"""
    inline = True
