from pyvc.contracts import contract
from pyvc.shapes import *
from specs.prim import pow2, uleb_partial


@contract("elftools/common/utils.py", "roundup", props=["C14", "C16"])
class roundup:
    params = dict(num=Nat, bits=OneOf(0, 1, 2, 3, 4))
    returns = Int
    ensures = ["result >= num", "result < num + 2**bits", "result % (2**bits) == 0"]


@contract("elftools/common/construct_utils.py", "ULEB128._parse", props=["C16"])
class uleb_parse:
    params = dict(self=Any, stream=Stream, context=Any)
    ghost = {"$p": "stream.pos", "$B": "stream.B"}
    loops = {0: dict(
        invariant=["stream.pos == $p + $k", "shift == 7 * $k", "0 <= value", "value < pow2(shift)",
                   "value == uleb_partial($B, $p, $k)",
                   "forall(lambda j: $B[$p + j] >= 128, 0, $k)", "$p + $k <= max(old(stream.pos), len($B))"],
        variant="len($B) + 1 - stream.pos")}
    ensures = ["result == uleb_partial($B, $p, stream.pos - $p)",
               "stream.pos > $p", "$B[stream.pos - 1] < 128",
               "forall(lambda j: $B[$p + j] >= 128, 0, stream.pos - 1 - $p)",
               "stream.pos <= len($B)"]
    raises = {"FieldError": "forall(lambda j: stream.B[stream.pos + j] >= 128, 0, len(stream.B) - stream.pos)"}


@contract("elftools/common/utils.py", "struct_parse", props=["C16", "C19", "C01", "C02", "C03", "C04", "C05", "C06", "C07", "C08", "C09",
                                                            "C10", "C11", "C13", "C14", "C15", "C20"])
class struct_parse_real:
    """call sites execute the real body (seek, parse, exception wrapping): no hand-written model of it"""
    inline = True


@contract("elftools/common/construct_utils.py", "SLEB128._parse", props=["C16"])
class sleb_parse:
    """DWARF v5 7.6: the unsigned accumulation of the 7-bit groups, minus 2^(7n) when bit 6 of the last
    byte is set (two's complement sign extension to any width)"""
    params = dict(self=Any, stream=Stream, context=Any)
    ghost = {"$p": "stream.pos", "$B": "stream.B"}
    loops = {0: dict(
        invariant=["stream.pos == $p + $k", "shift == 7 * $k", "0 <= value", "value < pow2(shift)",
                   "value == uleb_partial($B, $p, $k)",
                   "forall(lambda j: $B[$p + j] >= 128, 0, $k)", "$p + $k <= max(old(stream.pos), len($B))"],
        variant="len($B) + 1 - stream.pos")}
    ensures = ["result == uleb_partial($B, $p, stream.pos - $p) - (pow2(7 * (stream.pos - $p)) if $B[stream.pos - 1] % 128 >= 64 else 0)",
               "stream.pos > $p", "$B[stream.pos - 1] < 128",
               "forall(lambda j: $B[$p + j] >= 128, 0, stream.pos - 1 - $p)",
               "stream.pos <= len($B)"]
    raises = {"FieldError": "forall(lambda j: stream.B[stream.pos + j] >= 128, 0, len(stream.B) - stream.pos)"}


@contract("elftools/construct/core.py", "_read_stream", props=["C16"])
class read_stream:
    inline = True


@contract("elftools/construct/core.py", "StaticField._parse", props=["C16"])
class staticfield_parse:
    inline = True


@contract("elftools/common/construct_utils.py", "UBInt24._parse", props=["C16"])
class ubint24_parse:
    """DW_FORM_strx3 / addrx3: three bytes, most significant first"""
    params = dict(self=Obj('UBInt24', length=Const(3)), stream=Stream, context=Any)
    ghost = {"$p": "stream.pos", "$B": "stream.B"}
    returns = Int
    ensures = ["result == $B[$p] * 65536 + $B[$p + 1] * 256 + $B[$p + 2]", "stream.pos == $p + 3"]
    raises = {"FieldError": "stream.pos + 3 > len(stream.B)"}


@contract("elftools/common/construct_utils.py", "ULInt24._parse", props=["C16"])
class ulint24_parse:
    """three bytes, least significant first"""
    params = dict(self=Obj('ULInt24', length=Const(3)), stream=Stream, context=Any)
    ghost = {"$p": "stream.pos", "$B": "stream.B"}
    returns = Int
    ensures = ["result == $B[$p] + $B[$p + 1] * 256 + $B[$p + 2] * 65536", "stream.pos == $p + 3"]
    raises = {"FieldError": "stream.pos + 3 > len(stream.B)"}


@contract("elftools/dwarf/structs.py", "_InitialLengthAdapter._decode", props=["C16", "C04"])
class initial_length_decode:
    """DWARF v5 7.4: a first word below 0xfffffff0 is the 32-bit length; 0xffffffff announces the 64-bit
    format and the length is the following 8-byte word; the reserved values 0xfffffff0-0xfffffffe are
    rejected (the library also rejects 0xffffff00-0xffffffef, which no producer emits)"""
    params = dict(self=Any, obj=Rec(first=U32, second=Opt(U64)), context=Rec())
    returns = Int
    ensures = ["obj.first < 0xffffff00 or obj.first == 0xffffffff",
               "result == (obj.first if obj.first != 0xffffffff else obj.second)",
               "context['is64'] == (obj.first == 0xffffffff)"]
    modifies = ["context.is64"]
    raises = {"ConstructError": "obj.first >= 0xffffff00 and obj.first != 0xffffffff"}
