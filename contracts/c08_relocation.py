from pyvc.contracts import contract
from pyvc.shapes import *
from pyvc.shapes import Shape
from contracts._shapes import *
from specs.elf import P, SZ, kind
from specs.relr import relr_base, relr_word, shr
import z3


class _RelTab(Shape):
    """a relocation table of either flavour (checked for both)"""

    def __init__(self, cls='RelocationTable'):
        self.cls = cls

    def make(self, mk, name, idx=None):
        rela = mk.branch(mk.const(name + '.rela', z3.BoolSort()))
        lay = 'Elf_Rela' if rela else 'Elf_Rel'
        return Obj(self.cls, _elffile=ELFFileT(), _stream=Alias('_elffile.stream'),
                   _elfstructs=Alias('_elffile.structs'), _size=U64, _offset=U64, _is_rela=Const(rela),
                   entry_struct=StructOf(lay, '_elffile.structs'), entry_size=Nat).make(mk, name, idx)


TAB_INV = ["self._elfstructs.elfclass == self._elffile.elfclass",
           "self.entry_size == SZ('Elf_Rela' if self._is_rela else 'Elf_Rel', self._elffile.elfclass)"]


for _m in ("__init__", "__getitem__", "is_RELA"):
    @contract("elftools/elf/relocation.py", "Relocation.%s" % _m, props=["C08"])
    class _r:
        inline = True


@contract("elftools/elf/relocation.py", "RelocationTable.is_RELA", props=["C08"])
class tab_is_rela:
    inline = True


@contract("elftools/elf/relocation.py", "RelocationTable.num_relocations", props=["C08", "C19"])
class num_relocations:
    params = dict(self=_RelTab())
    requires = TAB_INV
    returns = Int
    ensures = ["result == self._size // self.entry_size"]


RelEntryT = Rec(r_offset=U64, r_info=U64, r_info_sym=U32, r_info_type=U32, r_addend=S(64))


@contract("elftools/elf/relocation.py", "RelocationTable.get_relocation", props=["C08"])
class get_relocation:
    """entry n lives at offset + n * entry size; REL or RELA layout by the table's flavour"""
    params = dict(self=_RelTab(), n=Nat)
    requires = TAB_INV
    returns = Obj('Relocation', entry=RelEntryT)
    ghost = {"$o": "self._offset + n * self.entry_size",
             "$e": "P('Elf_Rela' if self._is_rela else 'Elf_Rel', self._stream.B, self._offset + n * self.entry_size)"}
    ensures = ["result.entry.r_offset == $e.r_offset", "result.entry.r_info == $e.r_info",
               "result.entry.r_info_sym == $e.r_info_sym", "result.entry.r_info_type == $e.r_info_type",
               "not self._is_rela or result.entry.r_addend == $e.r_addend"]
    raises = {"ELFParseError": "$o + self.entry_size > len(self._stream.B)"}


@contract("elftools/elf/relocation.py", "RelocationTable.iter_relocations", props=["C08", "C19"])
class iter_relocations:
    """exactly the encoded entries in index order"""
    params = dict(self=_RelTab())
    requires = TAB_INV
    yield_shape = Obj('Relocation', entry=RelEntryT)
    loops = {0: dict(invariant=["$k == $n"])}
    each_yield = ["value.entry.%s == P('Elf_Rela' if self._is_rela else 'Elf_Rel', self._stream.B, self._offset + $n * self.entry_size).%s" % (f, f)
                  for f in ('r_offset', 'r_info', 'r_info_sym', 'r_info_type')] + \
                 ["not self._is_rela or value.entry.r_addend == P('Elf_Rela', self._stream.B, self._offset + $n * self.entry_size).r_addend"]
    ensures = ["$n == self._size // self.entry_size"]
    may_raise = ["ELFParseError", "OverflowError"]


@contract("elftools/elf/relocation.py", "RelocationTable.__init__", props=["C08"])
class reltab_init:
    inline = True           # call sites (RelocationSection.__init__) execute the real body; the contract is checked as well
    also_check = True
    params = dict(self=Obj('RelocationTable'), elffile=ELFFileT(), offset=U64, size=U64, is_rela=Bool)
    requires = ["elffile.structs.elfclass == elffile.elfclass"]
    ensures = ["self._offset == offset", "self._size == size", "self._is_rela == is_rela",
               "self.entry_size == SZ('Elf_Rela' if False else 'Elf_Rel', elffile.elfclass) +"
               " ((4 if elffile.elfclass == 32 else 8) if is_rela else 0)"]


RelrT = Obj('RelrRelocationTable', _elffile=ELFFileT(), _offset=U64, _size=U64,
            _relr_struct=StructOf('Elf_Relr', '_elffile.structs'), _entrysize=Choice(4, 8), _cached_relocations=NoneT)


@contract("elftools/elf/relocation.py", "RelrRelocationTable.iter_relocations", props=["C08", "C19"])
class relr_iter:
    """RELR decoding: an even word is an address (relocated; next = address + W); an odd word is a
    bitmap: bit i+1 set relocates next + i*W for i in 0..8W-2; then next += (8W-1)*W"""
    params = dict(self=RelrT)
    requires = ["self._elffile.structs.elfclass == self._elffile.elfclass",
                "self._entrysize == SZ('Elf_Relr', self._elffile.elfclass)", "self._offset + self._size < 2**62"]
    ghost = {"$B": "self._elffile.stream.B", "$o": "self._offset", "$W": "self._entrysize"}
    yield_shape = Obj('Relocation', entry=Rec(r_offset=Int))
    loops = {
        0: dict(invariant=["relr == $o + $k * $W", "limit == $o + self._size",
                           "($k == 0) == (base is None)", "base is None or base == relr_base($B, $o, $W, $k)"],
                shapes={"base": Opt(Int)}, variant="limit - relr"),
        1: dict(invariant=["entry_offset == shr(relr_word($B, $o, $W, $k0), i)", "i == $k", "i >= 0",
                           "base is not None", "entry_offset >= 1"],
                variant="entry_offset"),
    }
    each_yield = [
        "relr_word($B, $o, $W, $k0) % 2 == 1 or value.entry.r_offset == relr_word($B, $o, $W, $k0)",
        "relr_word($B, $o, $W, $k0) % 2 == 0 or $k0 >= 1",
        "relr_word($B, $o, $W, $k0) % 2 == 0 or value.entry.r_offset == relr_base($B, $o, $W, $k0) + i * $W",
        "relr_word($B, $o, $W, $k0) % 2 == 0 or shr(relr_word($B, $o, $W, $k0), i + 1) % 2 == 1"]
    ensures = ["self._size == 0 or $k0 * $W >= self._size"]
    may_raise = ["ELFError", "OverflowError"]
