"""Shared shapes (type invariants) of the ELF-side objects.  Each is justified by
the K2 layout obligation of the struct it mirrors (field ranges) and by the
constructor that stores the attributes."""
from pyvc.shapes import *
import specs.k1_layouts  # registers the abstract layouts
from specs.k1_layouts import nf_shape
from specs.elf_layouts import layouts as _layouts

_L64, _P64 = _layouts(True, 64, 'ET_EXEC', 'EM_NONE', 'ELFOSABI_SYSV')

EhdrT = nf_shape(_L64['Elf_Ehdr'])
ShdrT = nf_shape(_L64['Elf_Shdr'])
PhdrT = nf_shape(_L64['Elf_Phdr'])
SymT = nf_shape(_L64['Elf_Sym'])
NhdrT = nf_shape(_L64['Elf_Nhdr'])

ElfClass = Choice(32, 64)
ELFStructsT = StructsT('ELFStructs', elfclass=ElfClass, little_endian=Bool)


def ELFFileT(**more):
    a = dict(stream=Stream, stream_len=Nat, header=EhdrT, structs=ELFStructsT, elfclass=ElfClass,
             little_endian=Bool)
    a.update(more)
    return Obj('ELFFile', **a)


# requires clauses that tie the redundant attributes together (established by ELFFile.__init__)
ELFFILE_INV = ["self.structs.elfclass == self.elfclass", "self.stream_len == len(self.stream.B)"]


def SectionT(cls='Section', elffile=None, **more):
    ef = elffile or ELFFileT()
    a = dict(header=ShdrT, name=Str, elffile=ef, stream=Alias('elffile.stream'), structs=Alias('elffile.structs'))
    a.update(more)
    return Obj(cls, **a)


def SegmentT(cls='Segment', **more):
    a = dict(header=PhdrT, stream=Stream)
    a.update(more)
    return Obj(cls, **a)

ELFFILE_INV_EF = ["self.elffile.structs.elfclass == self.elffile.elfclass",
                  "self.elffile.stream_len == len(self.elffile.stream.B)"]
