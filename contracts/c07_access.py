"""C07: access paths to the lists (by offset, by index through the offset table, unit blocks of the
v5 sections, location view pairs) and the attribute classification."""
import re
from pyvc.contracts import contract, REGISTRY
from pyvc.shapes import *
from specs.dwarf import StructsT
from specs.die import has_top
from specs.lists import (gaddr, word_at_addr, offset_word, is_kind, rnglist_at, loclist_at, has_base, base_of, loc_off, u16_at,
                         block_off, lst_off, view_off, uleb_at, uleb_end, hdr_field, LOCLIST_ATTRS, BLOCK_FORMS)
from contracts.c07_lists import (R, L, RLT, LLT, CUArg, RElemT, LElemT, RangeEntryT, RBaseT)

DU = "elftools/dwarf/dwarf_util.py"
EXC = ["ELFParseError", "DWARFError", "OverflowError", "KeyError"]


def _with_p(c, new_p, also=()):
    """ensures of the list parser with its entry position replaced by the offset sought"""
    out = []
    for e in REGISTRY[c].ensures:
        if 'self.stream.pos' in e:
            continue
        out.append(e.replace('$p', new_p))
    return out


@contract(R, "RangeLists.get_range_list_at_offset", props=["C07"])
class get_range_list_at_offset:
    """the list at a section offset: exactly what the list parser yields from that offset"""
    modifies = ["*rep"]
    params = dict(self=RLT, offset=Nat, cu=CUArg)
    requires = list(REGISTRY[(R, "RangeLists._parse_range_list_from_stream")].requires)
    ghost = {"$B": "self.stream.B", "$W": "self.structs.address_size"}
    returns = ListOf(RElemT)
    ensures = _with_p((R, "RangeLists._parse_range_list_from_stream"), 'offset')
    may_raise = EXC


@contract(R, "RangeLists.get_range_list_at_offset_ex", props=["C07"])
class get_range_list_at_offset_ex:
    """the raw (untranslated) v5 entries at a section offset"""
    params = dict(self=RLT, offset=Nat)
    ghost = {"$B": "self.stream.B"}
    returns = ListOf(Rec(entry_offset=Nat, entry_type=CodeT(8), entry_length=Nat))
    ensures = ["len(result) == len(rnglist_at($B, offset))",
               "forall(lambda j: result[j].entry_offset == rnglist_at($B, offset)[j].entry_offset"
               " and result[j].entry_type == rnglist_at($B, offset)[j].entry_type"
               " and result[j].entry_length == rnglist_at($B, offset)[j].entry_length, 0, len(result))"]
    may_raise = EXC


@contract(R, "RangeLists.translate_v5_entry", props=["C07"])
class translate_v5_entry:
    """one raw entry translated by the translator of its kind"""
    modifies = ["*rep"]
    params = dict(self=RLT, entry=Rec(entry_offset=Nat, entry_length=Nat, entry_end_offset=Nat, entry_type=CodeT(8),
                                      index=Nat, start_index=Nat, end_index=Nat, length=Nat, start_offset=Nat,
                                      end_offset=Nat, address=Nat, start_address=Nat, end_address=Nat), cu=CUArg)
    returns = RElemT
    from contracts.c07_lists import kind_clauses as _kc
    ensures = _kc(R, 'result', 'entry')
    may_raise = EXC + ["KeyError"]


PairT = Obj('RangeListsPair', _ranges=RLT.extend(version=Const(4)), _rnglists=RLT.extend(version=Const(5)))


@contract(R, "RangeListsPair.get_range_list_at_offset", props=["C07"])
class pair_get_range_list:
    """both sections present: the unit's version selects the section (v5 units use .debug_rnglists)"""
    modifies = ["*rep"]
    params = dict(self=PairT, offset=Nat, cu=Opt(CUArg))
    requires = ["self._ranges._max_addr == (2**32 - 1 if self._ranges.structs.address_size == 4 else 2**64 - 1)",
                "self._rnglists._max_addr == (2**32 - 1 if self._rnglists.structs.address_size == 4 else 2**64 - 1)"]
    returns = ListOf(RElemT)
    ensures = ["cu is not None",
               "cu.header.version < 5 or len(result) == len(rnglist_at(self._rnglists.stream.B, offset))",
               "cu.header.version >= 5 or (word_at_addr(self._ranges.stream.B, offset + 2 * self._ranges.structs.address_size * len(result),"
               " self._ranges.structs.address_size) == 0)"]
    may_raise = ["ELFParseError", "OverflowError", "DWARFError", "KeyError"]


DieArg = Obj('DIE', cu=CUArg)


@contract(L, "LocationLists.get_location_list_at_offset", props=["C07"])
class get_location_list_at_offset:
    """the list at a section offset: the pre-v5 or the v5 decoding according to the section version;
    a v5 section needs the debugging entry for its unit"""
    modifies = ["*rep"]
    params = dict(self=LLT, offset=Nat, die=Opt(DieArg))
    requires = list(REGISTRY[(L, "LocationLists._parse_location_list_from_stream")].requires)
    ghost = {"$B": "self.stream.B", "$W": "self.structs.address_size"}
    returns = ListOf(LElemT)
    ensures = ["self.version < 5 or die is not None"] + ["self.version >= 5 or (%s)" % e for e in _with_p((L, "LocationLists._parse_location_list_from_stream"), 'offset')] + \
              ["self.version < 5 or (%s)" % e.replace('cu', 'die.cu') for e in _with_p((L, "LocationLists._parse_location_list_from_stream_v5"), 'offset')]
    may_raise = ["ELFParseError", "OverflowError", "DWARFError", "KeyError"]


# ------------------------------------------------------------------ index -> offset
from contracts._dwarf_shapes import AttrT
BASES = ('DW_AT_rnglists_base', 'DW_AT_loclists_base', 'DW_AT_str_offsets_base', 'DW_AT_addr_base')


@contract(DU, "_get_base_offset", props=["C07"])
class get_base_offset:
    """the base attribute of the unit's root entry, required"""
    modifies = ["*rep"]
    params = dict(cu=CUArg, base_attribute_name=OneOf(*BASES))
    returns = Nat
    ensures = ["has_base(cu, base_attribute_name)", "result == base_of(cu, base_attribute_name)",
               "not old(has_top(cu)) or cu.dwarfinfo.debug_info_sec.stream.pos == old(cu.dwarfinfo.debug_info_sec.stream.pos)", "not old(has_top(cu)) or has_top(cu)"]
    may_raise = ["ELFParseError", "OverflowError", "DWARFError", "KeyError"]


@contract(DU, "_resolve_via_offset_table", props=["C07"])
class resolve_via_offset_table:
    """index -> offset (7.28, 7.29): base + the index-th entry of the offset table at base, entries
    being 4 bytes in 32-bit DWARF units and 8 bytes in 64-bit ones; the stream position is kept"""
    modifies = ["*rep"]
    params = dict(stream=Stream, cu=CUArg, index=Nat, base_attribute_name=OneOf('DW_AT_rnglists_base', 'DW_AT_loclists_base'))
    returns = Nat
    ensures = ["has_base(cu, base_attribute_name)",
               "result == base_of(cu, base_attribute_name) + offset_word(stream.B, base_of(cu, base_attribute_name)"
               " + index * (4 if cu.structs.dwarf_format == 32 else 8), cu.structs.dwarf_format)",
               "stream.pos == old(stream.pos)", "not old(has_top(cu)) or cu.dwarfinfo.debug_info_sec.stream.pos == old(cu.dwarfinfo.debug_info_sec.stream.pos)", "not old(has_top(cu)) or has_top(cu)"]
    may_raise = ["ELFParseError", "OverflowError", "DWARFError", "KeyError"]


# ------------------------------------------------------------------ unit blocks of the v5 sections
HdrT = Rec(cu_offset=Nat, unit_length=Nat, is64=Int, offset_after_length=Nat, version=U16, address_size=U8,
           segment_selector_size=U8, offset_count=U32, offset_table_offset=Nat, offsets=Any)


@contract(DU, "_iter_CUs_in_section", props=["C07"])
class iter_cus_in_section:
    """unit blocks of .debug_rnglists / .debug_loclists in section order: block k+1 starts where
    block k's unit length ends; each carries its offset table (offset_count entries of 4 or 8 bytes)"""
    params = dict(stream=Stream, structs=StructsT, parser=UnionT(StructOf('Dwarf_rnglists_CU_header', 'structs'),
                                                                StructOf('Dwarf_loclists_CU_header', 'structs')))
    ghost = {"$B": "stream.B"}
    interference = True
    yield_shape = HdrT
    loops = {0: dict(invariant=["offset == block_off($B, parser, $k)", "$k == $n", "endpos == len($B)"],
                     variant="len($B) - offset" )}
    each_yield = ["value.cu_offset == hdr_field($B, parser, 'cu_offset', block_off($B, parser, $n))",
                  "value.unit_length == hdr_field($B, parser, 'unit_length', block_off($B, parser, $n))",
                  "value.offset_count == hdr_field($B, parser, 'offset_count', block_off($B, parser, $n))",
                  "value.offset_table_offset == hdr_field($B, parser, 'offset_table_offset', block_off($B, parser, $n))",
                  "block_off($B, parser, $n) < len($B)",
                  "value.offset_count == 0 or len(value.offsets) == value.offset_count",
                  "value.offset_count > 0 or value.offsets == False"]
    ensures = ["block_off($B, parser, $n) >= len($B)"]
    may_raise = ["ELFParseError", "OverflowError"]


BlockT = Rec(cu_offset=Nat, unit_length=Nat, is64=Int, offset_after_length=Nat, version=U16, address_size=U8,
             segment_selector_size=U8, offset_count=U32, offset_table_offset=Nat)


@contract(R, "RangeLists.iter_CU_range_lists_ex", props=["C07"])
class iter_cu_range_lists_ex:
    """the raw lists of one unit block: the first list follows the offset table (offset_count entries
    of 4 bytes, 8 in the 64-bit format), each next list starts where the previous one ended, up to the
    end of the block"""
    params = dict(self=RLT, cu=BlockT)
    ghost = {"$B": "self.stream.B", "$first": "cu.offset_table_offset + (8 if cu.is64 else 4) * cu.offset_count",
             "$end": "cu.offset_after_length + cu.unit_length"}
    yield_shape = ListOf(Rec(entry_offset=Nat, entry_type=CodeT(8), entry_length=Nat))
    loops = {0: dict(invariant=["offset == lst_off($B, $first, $k)", "$k == $n"], variant="len($B) + 1 - offset")}
    each_yield = ["lst_off($B, $first, $n) < $end",
                  "len(value) == len(rnglist_at($B, lst_off($B, $first, $n)))",
                  "forall(lambda j: value[j].entry_offset == rnglist_at($B, lst_off($B, $first, $n))[j].entry_offset"
                  " and value[j].entry_type == rnglist_at($B, lst_off($B, $first, $n))[j].entry_type, 0, len(value))"]
    ensures = ["lst_off($B, $first, $n) >= $end"]
    may_raise = ["ELFParseError", "OverflowError"]


ViewT = Rec('LocationViewPair', entry_offset=Nat, begin=Nat, end=Nat)


@contract(L, "LocationLists._parse_locview_pairs", props=["C07"])
class parse_locview_pairs:
    """location view pairs (GNU): when the position is the offset of a view set, the pairs of ULEB128
    numbers from there to the offset of the list they belong to; otherwise none"""
    params = dict(self=LLT, locviews=DictOf(Nat))
    ghost = {"$B": "self.stream.B", "$p": "self.stream.pos"}
    returns = ListOf(ViewT)
    loops = {0: dict(invariant=["self.stream.pos == view_off($B, $p, $k)", "len(pairs) == $k",
                                "forall(lambda j: pairs[j].entry_offset == view_off($B, $p, j)"
                                " and pairs[j].begin == hdr_field($B, self.structs.Dwarf_locview_pair, 'begin', view_off($B, $p, j))"
                                " and pairs[j].end == hdr_field($B, self.structs.Dwarf_locview_pair, 'end', view_off($B, $p, j)), 0, $k)",
                                "forall(lambda j: view_off($B, $p, j) < list_offset, 0, $k)"],
                     shapes={"pairs": ListOf(ViewT)}, variant="len($B) + 1 - self.stream.pos")}
    ensures = ["($p in locviews) or len(result) == 0",
               "not ($p in locviews) or self.stream.pos == locviews[$p]",
               "not ($p in locviews) or view_off($B, $p, len(result)) == locviews[$p]",
               "forall(lambda j: result[j].entry_offset == view_off($B, $p, j)"
               " and result[j].begin == hdr_field($B, self.structs.Dwarf_locview_pair, 'begin', view_off($B, $p, j))"
               " and result[j].end == hdr_field($B, self.structs.Dwarf_locview_pair, 'end', view_off($B, $p, j)), 0, len(result))"]
    may_raise = ["ELFParseError", "OverflowError", "AssertionError"]


LPairT = Obj('LocationListsPair', _loc=LLT.extend(version=Const(4)), _loclists=LLT.extend(version=Const(5)))


@contract(L, "LocationListsPair.get_location_list_at_offset", props=["C07"])
class pair_get_location_list:
    """both sections present: the version of the entry's unit selects the section"""
    modifies = ["*rep"]
    params = dict(self=LPairT, offset=Nat, die=Opt(DieArg))
    requires = ["self._loc._max_addr == (2**32 - 1 if self._loc.structs.address_size == 4 else 2**64 - 1)",
                "self._loclists._max_addr == (2**32 - 1 if self._loclists.structs.address_size == 4 else 2**64 - 1)"]
    returns = ListOf(LElemT)
    ensures = ["die is not None",
               "die.cu.header.version < 5 or len(result) == len(loclist_at(self._loclists.stream.B, offset))",
               "die.cu.header.version >= 5 or (word_at_addr(self._loc.stream.B, loc_off(self._loc.stream.B, offset, self._loc.structs.address_size, len(result)),"
               " self._loc.structs.address_size) == 0)"]
    may_raise = ["ELFParseError", "OverflowError", "DWARFError", "KeyError"]


# ------------------------------------------------------------------ attribute classification
FORMS = ('DW_FORM_addr', 'DW_FORM_block2', 'DW_FORM_block4', 'DW_FORM_data2', 'DW_FORM_data4', 'DW_FORM_data8',
         'DW_FORM_string', 'DW_FORM_block', 'DW_FORM_block1', 'DW_FORM_data1', 'DW_FORM_flag', 'DW_FORM_sdata',
         'DW_FORM_strp', 'DW_FORM_udata', 'DW_FORM_ref_addr', 'DW_FORM_ref1', 'DW_FORM_ref2', 'DW_FORM_ref4',
         'DW_FORM_ref8', 'DW_FORM_ref_udata', 'DW_FORM_indirect', 'DW_FORM_sec_offset', 'DW_FORM_exprloc',
         'DW_FORM_flag_present', 'DW_FORM_strx', 'DW_FORM_addrx', 'DW_FORM_ref_sup4', 'DW_FORM_strp_sup',
         'DW_FORM_data16', 'DW_FORM_line_strp', 'DW_FORM_ref_sig8', 'DW_FORM_implicit_const', 'DW_FORM_loclistx',
         'DW_FORM_rnglistx', 'DW_FORM_ref_sup8', 'DW_FORM_strx1', 'DW_FORM_strx2', 'DW_FORM_strx3', 'DW_FORM_strx4',
         'DW_FORM_addrx1', 'DW_FORM_addrx2', 'DW_FORM_addrx3', 'DW_FORM_addrx4', 'DW_FORM_GNU_addr_index',
         'DW_FORM_GNU_str_index', 'DW_FORM_GNU_ref_alt', 'DW_FORM_GNU_strp_alt')      # DWARF v5 table 7.6 + GNU
AttrArg = Rec('AttributeValue', name=Str, form=Str, value=Nat)
IS_FORM = "(" + " or ".join("attr.form == '%s'" % f for f in FORMS) + ")"
IN_LOCLIST_ATTRS = "(" + " or ".join("attr.name == '%s'" % a for a in LOCLIST_ATTRS) + ")"
IS_BLOCK = "(" + " or ".join("attr.form == '%s'" % f for f in BLOCK_FORMS) + ")"


@contract(L, "LocationParser._attribute_is_loclistptr_class", props=["C07"])
class is_loclistptr_class:
    """every attribute the standard gives the classes exprloc/loclist (v5 table 7.5) is accepted"""
    params = dict(attr=AttrArg)
    returns = Bool
    ensures = ["not %s or result == True" % IN_LOCLIST_ATTRS]


@contract(L, "LocationParser._attribute_is_constant", props=["C07"])
class attribute_is_constant:
    """the constant class exception: only constant forms, and only for attributes that admit the
    constant class next to exprloc/loclist (data_member_location from v3, upper_bound, count)"""
    params = dict(attr=AttrArg, dwarf_version=U16)
    requires = [IS_FORM]
    returns = Bool
    ensures = ["not result or (attr.form == 'DW_FORM_data1' or attr.form == 'DW_FORM_data2' or attr.form == 'DW_FORM_data4'"
               " or attr.form == 'DW_FORM_data8' or attr.form == 'DW_FORM_sdata' or attr.form == 'DW_FORM_udata')",
               "not result or attr.name == 'DW_AT_data_member_location' or attr.name == 'DW_AT_upper_bound' or attr.name == 'DW_AT_count'"]


@contract(L, "LocationParser._attribute_has_loc_expr", props=["C07"])
class attribute_has_loc_expr:
    """an expression is held in form exprloc (v4+) or, before v4, in the block forms"""
    params = dict(attr=AttrArg, dwarf_version=U16)
    requires = [IS_FORM]
    returns = Bool
    ensures = ["result == (attr.form == 'DW_FORM_exprloc' or (dwarf_version < 4 and %s and attr.name != 'DW_AT_const_value'))" % IS_BLOCK]


@contract(L, "LocationParser._attribute_has_loc_list", props=["C07"])
class attribute_has_loc_list:
    """a list reference is held in sec_offset / loclistx or, before v4, in the data forms (loclistptr
    of DWARF 2/3); never for the constant class exception; never together with an expression"""
    params = dict(attr=AttrArg, dwarf_version=U16)
    requires = [IS_FORM]
    returns = Bool
    ensures = ["not (attr.form == 'DW_FORM_sec_offset' or attr.form == 'DW_FORM_loclistx') or %s or result == True" %
               "(attr.name == 'DW_AT_data_member_location' or attr.name == 'DW_AT_upper_bound' or attr.name == 'DW_AT_count')",
               "not (attr.form == 'DW_FORM_sec_offset' or attr.form == 'DW_FORM_loclistx') or result == True",
               "not (dwarf_version < 4 and (attr.form == 'DW_FORM_data4' or attr.form == 'DW_FORM_data8') and %s"
               " and attr.name != 'DW_AT_data_member_location') or result == True" % IN_LOCLIST_ATTRS,
               "not result or attr.form == 'DW_FORM_sec_offset' or attr.form == 'DW_FORM_loclistx' or (dwarf_version < 4 and"
               " (attr.form == 'DW_FORM_data1' or attr.form == 'DW_FORM_data2' or attr.form == 'DW_FORM_data4' or attr.form == 'DW_FORM_data8'))",
               "not result or not (attr.form == 'DW_FORM_exprloc' or %s)" % IS_BLOCK]


@contract(L, "LocationParser.attribute_has_location", props=["C07"])
class attribute_has_location:
    """an attribute of a location class holds location information exactly when its form is an
    expression form or a list form for the unit's version"""
    params = dict(attr=AttrArg, dwarf_version=U16)
    requires = [IS_FORM]
    returns = Bool
    ensures = ["not (%s and attr.form == 'DW_FORM_exprloc') or result == True" % IN_LOCLIST_ATTRS,
               "not (%s and attr.form == 'DW_FORM_loclistx') or result == True" % IN_LOCLIST_ATTRS,
               "not (%s and attr.form == 'DW_FORM_sec_offset') or result == True" % IN_LOCLIST_ATTRS,
               "not (%s and dwarf_version < 4 and %s) or result == True" % (IN_LOCLIST_ATTRS, IS_BLOCK),
               "not result or attr.form == 'DW_FORM_exprloc' or attr.form == 'DW_FORM_sec_offset' or attr.form == 'DW_FORM_loclistx'"
               " or dwarf_version < 4"]


LocParserT = Obj('LocationParser', location_lists=LLT)


@contract(L, "LocationParser.parse_from_attribute", props=["C07"])
class parse_from_attribute:
    """expression forms give the expression bytes, list forms the list at the offset the attribute
    holds; anything else is rejected"""
    modifies = ["*rep"]
    params = dict(self=LocParserT, attr=Rec('AttributeValue', name=Str, form=Str, value=Nat), dwarf_version=U16, die=Opt(DieArg))
    requires = [IS_FORM,
                "self.location_lists._max_addr == (2**32 - 1 if self.location_lists.structs.address_size == 4 else 2**64 - 1)"]
    returns = Any
    ensures = ["not (attr.form == 'DW_FORM_exprloc') or (is_kind(result, 'LocationExpr') and result.loc_expr is attr.value)",
               "not (attr.form == 'DW_FORM_sec_offset' or attr.form == 'DW_FORM_loclistx') or not is_kind(result, 'LocationExpr')"]
    may_raise = ["ValueError", "ELFParseError", "OverflowError", "DWARFError", "KeyError"]
