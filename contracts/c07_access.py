"""C07: access paths to the lists (by offset, by index through the offset table, unit blocks of the
v5 sections, location view pairs) and the attribute classification."""
import re
from pyvc.contracts import contract, REGISTRY
from pyvc.shapes import *
from specs.dwarf import StructsT
from specs.lists import (gaddr, word_at_addr, offset_word, is_kind, rnglist_at, loclist_at, has_base, base_of, loc_off, u16_at,
                         block_off, lst_off, view_off, uleb_at, uleb_end, hdr_field, LOCLIST_ATTRS, BLOCK_FORMS)
from contracts.c07_lists import (R, L, RLT, LLT, CUArg, RElemT, LElemT, RangeEntryT, RBaseT)

DU = "elftools/dwarf/dwarf_util.py"
EXC = ["ELFParseError", "DWARFError", "OverflowError"]


def _with_p(c, new_p, also=()):
    """ensures of the list parser with its entry position replaced by the offset sought"""
    out = []
    for e in REGISTRY[c].ensures:
        if 'self.stream.pos' in e:
            continue
        out.append(e.replace('$p', new_p))
    return out


@contract(R, "RangeLists.get_range_list_at_offset", props=["C07"])
class get_range_list_at_offset:
    """the list at a section offset: exactly what the list parser yields from that offset"""
    params = dict(self=RLT, offset=Nat, cu=CUArg)
    requires = list(REGISTRY[(R, "RangeLists._parse_range_list_from_stream")].requires)
    ghost = {"$B": "self.stream.B", "$W": "self.structs.address_size"}
    returns = ListOf(RElemT)
    ensures = _with_p((R, "RangeLists._parse_range_list_from_stream"), 'offset')
    may_raise = EXC


@contract(R, "RangeLists.get_range_list_at_offset_ex", props=["C07"])
class get_range_list_at_offset_ex:
    """the raw (untranslated) v5 entries at a section offset"""
    params = dict(self=RLT, offset=Nat)
    ghost = {"$B": "self.stream.B"}
    returns = ListOf(Rec(entry_offset=Nat, entry_type=CodeT(8), entry_length=Nat))
    ensures = ["len(result) == len(rnglist_at($B, offset))",
               "forall(lambda j: result[j].entry_offset == rnglist_at($B, offset)[j].entry_offset"
               " and result[j].entry_type == rnglist_at($B, offset)[j].entry_type"
               " and result[j].entry_length == rnglist_at($B, offset)[j].entry_length, 0, len(result))"]
    may_raise = EXC


@contract(R, "RangeLists.translate_v5_entry", props=["C07"])
class translate_v5_entry:
    """one raw entry translated by the translator of its kind"""
    params = dict(self=RLT, entry=Rec(entry_offset=Nat, entry_length=Nat, entry_end_offset=Nat, entry_type=CodeT(8),
                                      index=Nat, start_index=Nat, end_index=Nat, length=Nat, start_offset=Nat,
                                      end_offset=Nat, address=Nat, start_address=Nat, end_address=Nat), cu=CUArg)
    returns = RElemT
    from contracts.c07_lists import kind_clauses as _kc
    ensures = _kc(R, 'result', 'entry')
    may_raise = EXC + ["KeyError"]


PairT = Obj('RangeListsPair', _ranges=RLT.extend(version=Const(4)), _rnglists=RLT.extend(version=Const(5)))


@contract(R, "RangeListsPair.get_range_list_at_offset", props=["C07"])
class pair_get_range_list:
    """both sections present: the unit's version selects the section (v5 units use .debug_rnglists)"""
    params = dict(self=PairT, offset=Nat, cu=Opt(CUArg))
    requires = ["self._ranges._max_addr == (2**32 - 1 if self._ranges.structs.address_size == 4 else 2**64 - 1)",
                "self._rnglists._max_addr == (2**32 - 1 if self._rnglists.structs.address_size == 4 else 2**64 - 1)"]
    returns = ListOf(RElemT)
    ensures = ["cu is not None",
               "cu.header.version < 5 or len(result) == len(rnglist_at(self._rnglists.stream.B, offset))",
               "cu.header.version >= 5 or (word_at_addr(self._ranges.stream.B, offset + 2 * self._ranges.structs.address_size * len(result),"
               " self._ranges.structs.address_size) == 0)"]
    may_raise = ["ELFParseError", "OverflowError", "DWARFError"]


DieArg = Obj('DIE', cu=CUArg)


@contract(L, "LocationLists.get_location_list_at_offset", props=["C07"])
class get_location_list_at_offset:
    """the list at a section offset: the pre-v5 or the v5 decoding according to the section version;
    a v5 section needs the debugging entry for its unit"""
    params = dict(self=LLT, offset=Nat, die=Opt(DieArg))
    requires = list(REGISTRY[(L, "LocationLists._parse_location_list_from_stream")].requires)
    ghost = {"$B": "self.stream.B", "$W": "self.structs.address_size"}
    returns = ListOf(LElemT)
    ensures = ["self.version < 5 or die is not None"] + ["self.version >= 5 or (%s)" % e for e in _with_p((L, "LocationLists._parse_location_list_from_stream"), 'offset')] + \
              ["self.version < 5 or (%s)" % e.replace('cu', 'die.cu') for e in _with_p((L, "LocationLists._parse_location_list_from_stream_v5"), 'offset')]
    may_raise = ["ELFParseError", "OverflowError", "DWARFError"]


# ------------------------------------------------------------------ index -> offset
AttrT = Rec('AttributeValue', name=Str, form=Str, value=Nat, raw_value=Nat, offset=Nat, indirection_length=Nat)
BASES = ('DW_AT_rnglists_base', 'DW_AT_loclists_base', 'DW_AT_str_offsets_base', 'DW_AT_addr_base')


@contract("elftools/dwarf/compileunit.py", "CompileUnit.get_top_DIE", props=["C07"])
class get_top_die:
    """(assumed here; the entry parse is C04's) the unit's root entry; its base attributes are the
    unit's bases"""
    mode = 'assume'
    returns = Obj('DIE', attributes=DictOf(AttrT))
    ensures = ["('%s' in result.attributes) == has_base(self, '%s')" % (b, b) for b in BASES] + \
              ["not has_base(self, '%s') or result.attributes['%s'].value == base_of(self, '%s')" % (b, b, b) for b in BASES]
    may_raise = EXC


@contract(DU, "_get_base_offset", props=["C07"])
class get_base_offset:
    """the base attribute of the unit's root entry, required"""
    params = dict(cu=CUArg, base_attribute_name=OneOf(*BASES))
    returns = Nat
    ensures = ["has_base(cu, base_attribute_name)", "result == base_of(cu, base_attribute_name)"]
    may_raise = ["ELFParseError", "OverflowError", "DWARFError"]


@contract(DU, "_resolve_via_offset_table", props=["C07"])
class resolve_via_offset_table:
    """index -> offset (7.28, 7.29): base + the index-th entry of the offset table at base, entries
    being 4 bytes in 32-bit DWARF units and 8 bytes in 64-bit ones; the stream position is kept"""
    params = dict(stream=Stream, cu=CUArg, index=Nat, base_attribute_name=OneOf('DW_AT_rnglists_base', 'DW_AT_loclists_base'))
    returns = Nat
    ensures = ["has_base(cu, base_attribute_name)",
               "result == base_of(cu, base_attribute_name) + offset_word(stream.B, base_of(cu, base_attribute_name)"
               " + index * (4 if cu.structs.dwarf_format == 32 else 8), cu.structs.dwarf_format)",
               "stream.pos == old(stream.pos)"]
    may_raise = ["ELFParseError", "OverflowError", "DWARFError"]


# ------------------------------------------------------------------ unit blocks of the v5 sections
HdrT = Rec(cu_offset=Nat, unit_length=Nat, is64=Int, offset_after_length=Nat, version=U16, address_size=U8,
           segment_selector_size=U8, offset_count=U32, offset_table_offset=Nat, offsets=Any)


@contract(DU, "_iter_CUs_in_section", props=["C07"])
class iter_cus_in_section:
    """unit blocks of .debug_rnglists / .debug_loclists in section order: block k+1 starts where
    block k's unit length ends; each carries its offset table (offset_count entries of 4 or 8 bytes)"""
    params = dict(stream=Stream, structs=StructsT, parser=UnionT(StructOf('Dwarf_rnglists_CU_header', 'structs'),
                                                                StructOf('Dwarf_loclists_CU_header', 'structs')))
    ghost = {"$B": "stream.B"}
    interference = True
    yield_shape = HdrT
    loops = {0: dict(invariant=["offset == block_off($B, parser, $k)", "$k == $n", "endpos == len($B)"],
                     variant="len($B) - offset" )}
    each_yield = ["value.cu_offset == hdr_field($B, parser, 'cu_offset', block_off($B, parser, $n))",
                  "value.unit_length == hdr_field($B, parser, 'unit_length', block_off($B, parser, $n))",
                  "value.offset_count == hdr_field($B, parser, 'offset_count', block_off($B, parser, $n))",
                  "value.offset_table_offset == hdr_field($B, parser, 'offset_table_offset', block_off($B, parser, $n))",
                  "block_off($B, parser, $n) < len($B)",
                  "value.offset_count == 0 or len(value.offsets) == value.offset_count",
                  "value.offset_count > 0 or value.offsets == False"]
    ensures = ["block_off($B, parser, $n) >= len($B)"]
    may_raise = ["ELFParseError", "OverflowError"]
