"""C10 / C04: the abbreviation-table cache of DWARFInfo (keyed by section offset) and the per-unit memo.  The table object
for an offset is what AbbrevTable(structs, stream, offset) builds (ASSUMED: its constructor parses the declarations; the
declaration layout is K2); the cache is a representation field whose invariant -- every cached table is the table of its
key -- is re-established, so the answer is the same whatever was asked before."""
from pyvc.contracts import contract
from pyvc.shapes import *
from specs.dwarf import StructsT
from contracts._dwarf_shapes import _sec

AbbrevT = Obj('AbbrevTable', offset=Nat)
ABBREV_INV = ["forall(lambda k: not (k in self._abbrevtable_cache) or self._abbrevtable_cache[k].offset == k)"]
AbbrevOwnerT = Obj('DWARFInfo', _inv=ABBREV_INV, _rep=('_abbrevtable_cache',), debug_abbrev_sec=_sec(), structs=StructsT,
                   _abbrevtable_cache=DictOf(AbbrevT))


@contract("elftools/dwarf/abbrevtable.py", "AbbrevTable.__init__", props=["C10", "C04"])
class abbrevtable_init:
    """(assumed) a table object for (stream, offset); parsing its declarations moves the stream"""
    mode = 'assume'
    sets = dict(offset="offset", stream="stream", structs="structs")
    modifies = ["stream.pos"]
    may_raise = ["ELFParseError", "OverflowError"]


@contract("elftools/dwarf/dwarfinfo.py", "DWARFInfo.get_abbrev_table", props=["C10", "C04"])
class di_get_abbrev_table:
    """the table at `offset` of .debug_abbrev, built once and kept; an offset beyond the section is rejected; the same
    answer whatever the cache holds"""
    params = dict(self=AbbrevOwnerT, offset=Nat)
    modifies = ["self._abbrevtable_cache", "self.debug_abbrev_sec.stream.pos"]
    havoc_shapes = {"self._abbrevtable_cache": DictOf(AbbrevT)}
    returns = AbbrevT
    own_raises = {"DWARFError": "offset >= self.debug_abbrev_sec.size"}
    ensures = ["result.offset == offset", "offset < self.debug_abbrev_sec.size", "offset in self._abbrevtable_cache",
               "@check @when not (offset in old(self._abbrevtable_cache)) :: final_self._abbrevtable_cache[offset].offset == offset"]
    may_raise = ["ELFParseError", "OverflowError"]
