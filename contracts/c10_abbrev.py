"""C10 / C04: the abbreviation-table cache of DWARFInfo (keyed by section offset) and the per-unit memo.  The table object
for an offset is what AbbrevTable(structs, stream, offset) builds (ASSUMED: its constructor parses the declarations; the
declaration layout is K2); the cache is a representation field whose invariant -- every cached table is the table of its
key -- is re-established, so the answer is the same whatever was asked before."""
from pyvc.contracts import contract
from pyvc.shapes import *
from specs.dwarf import StructsT
from contracts._dwarf_shapes import _sec

AbbrevT = Obj('AbbrevTable', offset=Nat)
ABBREV_INV = ["forall(lambda k: not (k in self._abbrevtable_cache) or self._abbrevtable_cache[k].offset == k)"]
AbbrevOwnerT = Obj('DWARFInfo', _inv=ABBREV_INV, _rep=('_abbrevtable_cache',), debug_abbrev_sec=_sec(), structs=StructsT,
                   _abbrevtable_cache=DictOf(AbbrevT))


from specs.abbrev import abbr_off
from specs.dieparse import uleb_val, uleb_next
from specs.elf import P

DeclObjT = Obj('AbbrevDecl', code=Nat, decl=Rec(tag=CodeT(64), children_flag=CodeT(8), attr_spec=Any), _has_children=Bool)
TableT = Obj('AbbrevTable', structs=StructsT, stream=Stream, offset=Nat)


@contract("elftools/dwarf/abbrevtable.py", "AbbrevDecl.__init__", props=["C10", "C04"])
class abbrevdecl_init:
    inline = True


@contract("elftools/dwarf/abbrevtable.py", "AbbrevTable._parse_abbrev_table", props=["C10", "C04"])
class parse_abbrev_table:
    """7.5.3: the table is read from ITS OWN offset (an absolute seek: whatever the shared .debug_abbrev stream was left
    at), pair after pair -- a code as a ULEB128 number, then the declaration right after it -- up to the first code 0;
    every declaration is registered under its code with the tag and the children flag the bytes encode"""
    params = dict(self=TableT)
    returns = DictOf(DeclObjT)
    modifies = ["self.stream.pos"]
    ghost = {"$B": "self.stream.B", "$o": "self.offset"}
    loops = {0: dict(
        invariant=["self.stream.pos == abbr_off($B, $o, $k)",
                   "forall(lambda j: uleb_val($B, abbr_off($B, $o, j)) != 0, 0, $k)",
                   "forall(lambda c: not (c in map) or (map[c].code == c and c != 0))"],
        shapes={"map": DictOf(DeclObjT)},
        ghost_step={"$p": "self.stream.pos"},
        step=["decl_code == uleb_val($B, $p)", "decl_code != 0", "decl_code in map",
              "map[decl_code].decl.tag == P('Dwarf_abbrev_declaration', $B, uleb_next($B, $p)).tag",
              "map[decl_code].decl.children_flag == P('Dwarf_abbrev_declaration', $B, uleb_next($B, $p)).children_flag",
              "map[decl_code]._has_children == (P('Dwarf_abbrev_declaration', $B, uleb_next($B, $p)).children_flag == 'DW_CHILDREN_yes')"])}
    ensures = ["@check uleb_val($B, abbr_off($B, $o, $k0)) == 0",       # (the number of pairs is a loop counter: proved here, not visible to callers)
               "@check forall(lambda j: uleb_val($B, abbr_off($B, $o, j)) != 0, 0, $k0)",
               "forall(lambda c: not (c in result) or (result[c].code == c and c != 0))"]
    may_raise = ["ELFParseError", "OverflowError"]


@contract("elftools/dwarf/abbrevtable.py", "AbbrevTable.__init__", props=["C10", "C04"])
class abbrevtable_init:
    """a table object for (stream, offset) whose map is what _parse_abbrev_table builds; parsing moves the stream"""
    params = dict(self=Obj('AbbrevTable'), structs=StructsT, stream=Stream, offset=Nat)
    sets = dict(offset="offset", stream="stream", structs="structs")
    sets_shape = dict(_abbrev_map=DictOf(DeclObjT))
    modifies = ["stream.pos"]
    ensures = ["forall(lambda c: not (c in self._abbrev_map) or (self._abbrev_map[c].code == c and c != 0))"]
    may_raise = ["ELFParseError", "OverflowError"]


@contract("elftools/dwarf/dwarfinfo.py", "DWARFInfo.get_abbrev_table", props=["C10", "C04"])
class di_get_abbrev_table:
    """the table at `offset` of .debug_abbrev, built once and kept; an offset beyond the section is rejected; the same
    answer whatever the cache holds"""
    params = dict(self=AbbrevOwnerT, offset=Nat)
    modifies = ["self._abbrevtable_cache", "self.debug_abbrev_sec.stream.pos"]
    havoc_shapes = {"self._abbrevtable_cache": DictOf(AbbrevT)}
    returns = AbbrevT
    own_raises = {"DWARFError": "offset >= self.debug_abbrev_sec.size"}
    ensures = ["result.offset == offset", "offset < self.debug_abbrev_sec.size", "offset in self._abbrevtable_cache",
               "@check @when not (offset in old(self._abbrevtable_cache)) :: final_self._abbrevtable_cache[offset].offset == offset"]
    may_raise = ["ELFParseError", "OverflowError"]
