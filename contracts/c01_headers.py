from pyvc.contracts import contract
from pyvc.shapes import *
from contracts._shapes import *
from specs.elf import P, SZ

INV = ELFFILE_INV


@contract("elftools/common/utils.py", "elf_assert", props=["C01", "C19"])
class elf_assert:
    inline = True


@contract("elftools/common/utils.py", "_assert_with_exception", props=["C01", "C19"])
class _assert_with_exception:
    inline = True


@contract("elftools/elf/elffile.py", "ELFFile._section_offset", props=["C01", "C19"])
class section_offset:
    """gABI: entry n of the section header table lives at e_shoff + n * e_shentsize
    (entry sizes larger than the standard structure are legal)"""
    params = dict(self=ELFFileT(), n=Int)
    requires = INV
    returns = Int
    ensures = ["result == self.header.e_shoff + n * self.header.e_shentsize"]
    raises = {"ELFError": "self.header.e_shoff > 0 and self.header.e_shentsize < SZ('Elf_Shdr', self.elfclass)"}


@contract("elftools/elf/elffile.py", "ELFFile._segment_offset", props=["C01", "C19"])
class segment_offset:
    params = dict(self=ELFFileT(), n=Int)
    requires = INV
    returns = Int
    ensures = ["result == self.header.e_phoff + n * self.header.e_phentsize"]
    raises = {"ELFError": "self.header.e_phoff > 0 and self.header.e_phentsize < SZ('Elf_Phdr', self.elfclass)"}


@contract("elftools/elf/elffile.py", "ELFFile._get_section_header", props=["C01", "C19"])
class get_section_header:
    """header n = Sem(Elf_Shdr) at the table slot; None when the slot starts beyond the end of file"""
    params = dict(self=ELFFileT(), n=Nat)
    requires = INV
    returns = Opt(ShdrT)
    ghost = {"$o": "self.header.e_shoff + n * self.header.e_shentsize"}
    ensures = ["(result is None) == ($o > self.stream_len)",
               "result is None or result == P('Elf_Shdr', self.stream.B, $o)"]
    raises = {"ELFError": "(self.header.e_shoff > 0 and self.header.e_shentsize < SZ('Elf_Shdr', self.elfclass))"
                          " or ($o <= self.stream_len and $o + SZ('Elf_Shdr', self.elfclass) > self.stream_len)"}


@contract("elftools/elf/elffile.py", "ELFFile._get_segment_header", props=["C01", "C19"])
class get_segment_header:
    params = dict(self=ELFFileT(), n=Nat)
    requires = INV
    returns = PhdrT
    ghost = {"$o": "self.header.e_phoff + n * self.header.e_phentsize"}
    ensures = ["result == P('Elf_Phdr', self.stream.B, $o)"]
    raises = {"ELFError": "(self.header.e_phoff > 0 and self.header.e_phentsize < SZ('Elf_Phdr', self.elfclass))"
                          " or ($o + SZ('Elf_Phdr', self.elfclass) > self.stream_len)"}


@contract("elftools/elf/elffile.py", "ELFFile.num_sections", props=["C01", "C19"])
class num_sections:
    """gABI extended numbering: e_shnum = 0 with a section table present means the count is sh_size of header 0"""
    params = dict(self=ELFFileT())
    requires = INV
    returns = Int
    ensures = ["result == (0 if self.header.e_shoff == 0 else"
               " (P('Elf_Shdr', self.stream.B, self.header.e_shoff).sh_size if self.header.e_shnum == 0"
               " else self.header.e_shnum))",
               "self.header.e_shoff == 0 or self.header.e_shnum != 0 or self.header.e_shoff <= self.stream_len"]
    # the extended count lives in header 0: when that slot starts beyond the end of the file there is no header to read it
    # from and the code subscripts None (TypeError: allowed from an enumeration by C19; the constructor does not count sections)
    raises = {"TypeError": "self.header.e_shoff != 0 and self.header.e_shnum == 0 and self.header.e_shoff > self.stream_len"
                           " and not (self.header.e_shentsize < SZ('Elf_Shdr', self.elfclass))"}
    may_raise = ["ELFError"]


@contract("elftools/elf/elffile.py", "ELFFile.get_shstrndx", props=["C01", "C19"])
class get_shstrndx:
    """gABI: e_shstrndx = SHN_XINDEX (0xffff) means the index is sh_link of header 0"""
    params = dict(self=ELFFileT())
    requires = INV
    returns = Int
    ensures = ["result == (self.header.e_shstrndx if self.header.e_shstrndx != 0xffff"
               " else P('Elf_Shdr', self.stream.B, self.header.e_shoff).sh_link)",
               "self.header.e_shstrndx != 0xffff or self.header.e_shoff <= self.stream_len"]   # an unreachable header 0 is an ELFError
    may_raise = ["ELFError"]
from specs.elf import kind, section_kind, segment_kind, secname, nsec, nseg

SecRet = Obj('Section', header=ShdrT, name=Str)
SegRet = Obj('Segment', header=PhdrT)


@contract("elftools/elf/elffile.py", "ELFFile._get_section_name", props=["C01"])
class get_section_name:
    """name = NUL-terminated string at (string table sh_offset + sh_name) (C02 proves get_string)"""
    params = dict(self=ELFFileT(_section_header_stringtable=Opt(SectionT('StringTableSection'))),
                  section_header=ShdrT)
    returns = Str
    raises = {"ELFParseError": "self._section_header_stringtable is None"}
    may_raise = ["OverflowError"]
    ensures = ["result == secname(self._section_header_stringtable, section_header.sh_name)"]


@contract("elftools/elf/elffile.py", "ELFFile._make_section", props=["C01"])
class make_section:
    params = dict(self=ELFFileT(_section_header_stringtable=Opt(SectionT('StringTableSection'))),
                  section_header=ShdrT)
    requires = INV
    returns = SecRet
    ensures = ["kind(result) == section_kind(section_header.sh_type, secname(self._section_header_stringtable, section_header.sh_name))",
               "result.header == section_header",
               "result.name == secname(self._section_header_stringtable, section_header.sh_name)"]
    may_raise = ["ELFError", "OverflowError", "TypeError", "AttributeError"]      # TypeError: a section link to a slot beyond the end of the file


@contract("elftools/elf/elffile.py", "ELFFile._make_segment", props=["C01"])
class make_segment:
    params = dict(self=ELFFileT(), segment_header=PhdrT)
    returns = SegRet
    ensures = ["kind(result) == segment_kind(segment_header.p_type)",
               "result.header == segment_header"]
    may_raise = ["ELFError", "OverflowError"]      # DynamicSegment construction reads the dynamic table


@contract("elftools/elf/elffile.py", "ELFFile.get_segment", props=["C01"])
class get_segment:
    params = dict(self=ELFFileT(), n=Nat)
    requires = INV
    returns = SegRet
    ensures = ["result.header == P('Elf_Phdr', self.stream.B, self.header.e_phoff + n * self.header.e_phentsize)"]
    may_raise = ["ELFError", "OverflowError"]


@contract("elftools/elf/elffile.py", "ELFFile.get_section", props=["C01"])
class get_section:
    """section n: header from slot n of the table, named through the section-name string table; with a tuple of
    admissible types (links followed by the dynamic section) the type is one of them.  A slot that starts beyond the end
    of the file has no header: the lookup answers None, which the name lookup subscripts (TypeError) and the type test
    dereferences (AttributeError) -- never reached by the constructor (C19)"""
    params = dict(self=ELFFileT(_section_header_stringtable=Opt(SectionT('StringTableSection'))), n=Nat,
                  type=OneOf(None, ('SHT_STRTAB', 'SHT_NOBITS')))
    requires = INV
    returns = SecRet
    ghost = {"$o": "self.header.e_shoff + n * self.header.e_shentsize"}
    ensures = ["result.header == P('Elf_Shdr', self.stream.B, self.header.e_shoff + n * self.header.e_shentsize)",
               "result.name == secname(self._section_header_stringtable, result.header.sh_name)",
               "$o <= self.stream_len", "type is None or result.header.sh_type in type"]
    may_raise = ["ELFError", "OverflowError", "TypeError", "AttributeError"]


@contract("elftools/elf/elffile.py", "ELFFile.num_segments", props=["C01", "C19"])
class num_segments:
    """e_phnum below PN_XNUM (0xffff) is the count; PN_XNUM means sh_info of section header 0"""
    params = dict(self=ELFFileT(_section_header_stringtable=Opt(SectionT('StringTableSection'))))
    requires = INV
    returns = Int
    ensures = ["result == (self.header.e_phnum if self.header.e_phnum < 0xffff"
               " else P('Elf_Shdr', self.stream.B, self.header.e_shoff).sh_info)"]
    may_raise = ["ELFError", "OverflowError", "TypeError", "AttributeError"]    # PN_XNUM builds section 0, which may follow a link beyond the file


@contract("elftools/elf/elffile.py", "ELFFile.iter_segments", props=["C01", "C19"])
class iter_segments:
    """yields get_segment(0..num_segments-1) in file order"""
    params = dict(self=ELFFileT(_section_header_stringtable=Opt(SectionT('StringTableSection'))),
                  type=OneOf(None, 'PT_LOAD', 'PT_DYNAMIC', 'PT_NOTE'))
    requires = INV
    yield_shape = SegRet
    # step: every index is visited and its segment is yielded exactly when no type is asked for or its type is the one asked for
    loops = {0: dict(invariant=["$n <= $k", "type is not None or $n == $k"], ghost_step={"$n0": "$n"},
                     step=["(type is None or segment.header.p_type == type) == ($n == $n0 + 1)", "$n == $n0 or $n == $n0 + 1"])}
    each_yield = ["$k0 < nseg(self)",
                  "value.header == P('Elf_Phdr', self.stream.B, self.header.e_phoff + $k0 * self.header.e_phentsize)",
                  "type is None or value.header.p_type == type",
                  "type is not None or $k0 == $n"]
    ensures = ["type is not None or $n == max(0, nseg(self))"]
    may_raise = ["ELFError", "OverflowError", "TypeError", "AttributeError"]


@contract("elftools/elf/elffile.py", "ELFFile.iter_sections", props=["C01", "C19"])
class iter_sections:
    params = dict(self=ELFFileT(_section_header_stringtable=Opt(SectionT('StringTableSection'))), type=Const(None))
    requires = INV
    yield_shape = SecRet
    loops = {0: dict(invariant=["$k == $n"])}
    each_yield = ["value.header == P('Elf_Shdr', self.stream.B, self.header.e_shoff + $n * self.header.e_shentsize)",
                  "value.name == secname(self._section_header_stringtable, value.header.sh_name)"]
    ensures = ["$n == max(0, nsec(self))"]
    may_raise = ["ELFError", "OverflowError", "TypeError", "AttributeError"]


# ---- constructors executed in place (their real bodies are plain attribute stores)
for _cls, _file in (("Segment", "segments"), ("InterpSegment", "segments"), ("NoteSegment", "segments")):
    @contract("elftools/elf/%s.py" % _file, "%s.__init__" % _cls, props=["C01", "C02"])
    class _ctor:
        inline = True


def _assumed_section_ctor(relpath, cls, props, extra=()):
    params = ['header', 'name', 'elffile']

    @contract(relpath, cls + ".__init__", props=props)
    class _c:
        """assumed at call sites until the class's own property puts the constructor under contract"""
        mode = 'assume'
        sets = dict(header="header", name="name", elffile="elffile", stream="elffile.stream", structs="elffile.structs")
        may_raise = ["ELFError", "OverflowError"]
    return _c


@contract("elftools/elf/dynamic.py", "Dynamic.__init__", props=["C01", "C09"])
class dynamic_base_init:
    inline = True


@contract("elftools/elf/dynamic.py", "DynamicSection.__init__", props=["C01", "C09"])
class dynsec_init:
    """the section view of the dynamic array: the array starts at sh_offset, is empty exactly for SHT_NOBITS (a stripped
    debug file), its entry size is that of Elf_Dyn for the class, and its strings come from the section in slot sh_link,
    which must be a string table (or NOBITS)"""
    params = dict(self=Obj('DynamicSection'), header=ShdrT, name=Str,
                  elffile=ELFFileT(_section_header_stringtable=Opt(SectionT('StringTableSection'))))
    requires = ["elffile.structs.elfclass == elffile.elfclass", "elffile.stream_len == len(elffile.stream.B)"]
    sets = dict(header="header", name="name", elffile="elffile", stream="elffile.stream", structs="elffile.structs",
                elfstructs="elffile.structs", _stream="elffile.stream", _offset="header.sh_offset",
                _empty="header.sh_type == 'SHT_NOBITS'", _num_tags="0 if header.sh_type == 'SHT_NOBITS' else -1",
                _tagsize="SZ('Elf_Dyn', elffile.elfclass)")
    sets_shape = dict(_stringtable=Obj('Section', header=ShdrT, name=Str))
    ensures = ["self._stringtable.header == P('Elf_Shdr', elffile.stream.B, elffile.header.e_shoff + header.sh_link * elffile.header.e_shentsize)",
               "self._stringtable.header.sh_type in ('SHT_STRTAB', 'SHT_NOBITS')",
               "elffile.header.e_shoff + header.sh_link * elffile.header.e_shentsize <= elffile.stream_len"]
    may_raise = ["ELFError", "OverflowError", "TypeError", "AttributeError"]


@contract("elftools/elf/relocation.py", "RelocationSection.__init__", props=["C01", "C08"])
class relsec_init:
    """the section view of a relocation table: the table is the section's extent, its flavour is the section type (REL /
    RELA), the entry size is that of the flavour's structure for the class; any other type or entry size is rejected"""
    params = dict(self=Obj('RelocationSection'), header=ShdrT, name=Str, elffile=ELFFileT())
    requires = ["elffile.structs.elfclass == elffile.elfclass"]
    sets = dict(header="header", name="name", elffile="elffile", stream="elffile.stream", structs="elffile.structs",
                _offset="header.sh_offset", _size="header.sh_size", _is_rela="header.sh_type == 'SHT_RELA'",
                entry_size="SZ('Elf_Rel', elffile.elfclass) + ((4 if elffile.elfclass == 32 else 8) if header.sh_type == 'SHT_RELA' else 0)")
    raises = {"ELFError": "header.sh_type not in ('SHT_REL', 'SHT_RELA') or header.sh_entsize != SZ('Elf_Rel', elffile.elfclass) +"
                          " ((4 if elffile.elfclass == 32 else 8) if header.sh_type == 'SHT_RELA' else 0) or"
                          " ((header.sh_flags // 0x800) % 2 == 1 and header.sh_offset + SZ('Elf_Chdr', elffile.elfclass) > len(elffile.stream.B))"}


@contract("elftools/elf/relocation.py", "RelrRelocationTable.__init__", props=["C01", "C08"])
class relrtab_init:
    inline = True


@contract("elftools/elf/relocation.py", "RelrRelocationSection.__init__", props=["C01", "C08"])
class relrsec_init:
    """the section view of a RELR table: the section's extent, entries of the class's word size; another sh_entsize is
    rejected; nothing is expanded yet"""
    params = dict(self=Obj('RelrRelocationSection'), header=ShdrT, name=Str, elffile=ELFFileT())
    requires = ["elffile.structs.elfclass == elffile.elfclass"]
    sets = dict(header="header", name="name", elffile="elffile", stream="elffile.stream", structs="elffile.structs",
                _elffile="elffile", _offset="header.sh_offset", _size="header.sh_size", _entrysize="SZ('Elf_Relr', elffile.elfclass)",
                _cached_relocations="None")
    raises = {"ELFError": "header.sh_entsize != SZ('Elf_Relr', elffile.elfclass) or"
                          " ((header.sh_flags // 0x800) % 2 == 1 and header.sh_offset + SZ('Elf_Chdr', elffile.elfclass) > len(elffile.stream.B))"}


@contract("elftools/elf/sections.py", "AttributesSection.__init__", props=["C01", "C20"])
class attrsec_init:
    """a build-attributes section starts with the format version byte 'A'; the vendor subsections start right after it"""
    params = dict(self=Obj('AttributesSection'), header=ShdrT, name=Str, elffile=ELFFileT(), subsection=Any)
    requires = ["elffile.structs.elfclass == elffile.elfclass"]
    sets = dict(header="header", name="name", elffile="elffile", stream="elffile.stream", structs="elffile.structs",
                subsection="subsection", subsec_start="header.sh_offset + 1")
    raises = {"ELFError": "header.sh_offset + 1 > len(elffile.stream.B) or P('Elf_byte', elffile.stream.B, header.sh_offset) != 65 or"
                          " ((header.sh_flags // 0x800) % 2 == 1 and header.sh_offset + SZ('Elf_Chdr', elffile.elfclass) > len(elffile.stream.B))"}




@contract("elftools/elf/dynamic.py", "DynamicSegment.__init__", props=["C01"])
class dynseg_ctor:
    mode = 'assume'
    sets = dict(header="header", stream="stream", elffile="elffile")
    may_raise = ["ELFError", "OverflowError"]


LinkedSec = Obj('Section', header=ShdrT, name=Str)


def _helper(name, cls, attr, want, ctor_inline=True):
    """the helpers that build a section which refers to another one: the linked section is the one whose header
    sits in slot sh_link of the section header table, and it has (one of) the type(s) the link must designate;
    the symbol-table-index section keeps the link as a number"""
    shape = dict(header=ShdrT, name=Str)
    shape[attr] = Nat if want is None else LinkedSec

    @contract("elftools/elf/elffile.py", "ELFFile." + name, props=["C01"])
    class _h:
        params = dict(self=ELFFileT(_section_header_stringtable=Opt(SectionT('StringTableSection'))),
                      section_header=ShdrT, name=Str)
        requires = INV
        returns = Obj(cls, **shape)
        ghost = {"$o": "self.header.e_shoff + section_header.sh_link * self.header.e_shentsize"}
        ensures = ["result.header == section_header", "result.name == name"] + (
            ["result.%s == section_header.sh_link" % attr] if want is None else
            ["result.%s.header == P('Elf_Shdr', self.stream.B, $o)" % attr,
             "result.%s.header.sh_type in %r" % (attr, want), "$o <= self.stream_len"])
        may_raise = ["ELFError", "OverflowError"] + ([] if want is None else ["TypeError", "AttributeError"])
    return _h


# constructors of the specialised section classes: executed from their real bodies at the helpers' call sites
for _file, _cls in (("sections", "SymbolTableIndexSection"), ("sections", "SUNWSyminfoTableSection"),
                    ("gnuversions", "GNUVersionSection"), ("gnuversions", "GNUVerNeedSection"),
                    ("gnuversions", "GNUVerDefSection"), ("gnuversions", "GNUVerSymSection"),
                    ("hash", "ELFHashSection"), ("hash", "GNUHashSection"), ("hash", "ELFHashTable"), ("hash", "GNUHashTable")):
    @contract("elftools/elf/%s.py" % _file, "%s.__init__" % _cls, props=["C01"])
    class _sctor:
        inline = True

_STR, _SYM = ('SHT_STRTAB',), ('SHT_SYMTAB', 'SHT_DYNSYM')
_helper("_make_symbol_table_section", "SymbolTableSection", "stringtable", _STR)
_helper("_make_symbol_table_index_section", "SymbolTableIndexSection", "symboltable", None)
_helper("_make_sunwsyminfo_table_section", "SUNWSyminfoTableSection", "symboltable", _SYM)
_helper("_make_gnu_verneed_section", "GNUVerNeedSection", "stringtable", _STR)
_helper("_make_gnu_verdef_section", "GNUVerDefSection", "stringtable", _STR)
_helper("_make_gnu_versym_section", "GNUVerSymSection", "symboltable", _SYM)
_helper("_make_elf_hash_section", "ELFHashSection", "_symboltable", _SYM)
_helper("_make_gnu_hash_section", "GNUHashSection", "_symboltable", _SYM)


for _prop in ("compressed", "data_size", "data_alignment"):
    @contract("elftools/elf/sections.py", "Section.%s" % _prop, props=["C01", "C02"])
    class _p:
        inline = True

for _cls in ("ARMAttributesSection", "RISCVAttributesSection"):
    @contract("elftools/elf/sections.py", "%s.__init__" % _cls, props=["C01", "C20"])
    class _actor:
        inline = True


# ---------------------------------------------------------------- lookups through the name map
NameMapFile = ELFFileT(_section_name_map=DictOf(Nat), _section_header_stringtable=Opt(SectionT('StringTableSection')))
A_NAME = OneOf('.symtab', '')       # lookups are by constant key; the empty name is the null section's


@contract("elftools/elf/elffile.py", "ELFFile.get_section_index", props=["C01"])
class get_section_index:
    """the index the (already built) name map holds for the name, None for an unknown name; index 0 is an index"""
    params = dict(self=NameMapFile, section_name=A_NAME)
    returns = Opt(Nat)
    ensures = ["(result is None) == (section_name not in self._section_name_map)",
               "result is None or result == self._section_name_map[section_name]"]


@contract("elftools/elf/elffile.py", "ELFFile.has_section", props=["C01", "C11"])
class has_section:
    params = dict(self=NameMapFile, section_name=A_NAME)
    returns = Bool
    ensures = ["result == (section_name in self._section_name_map)"]


@contract("elftools/elf/elffile.py", "ELFFile.get_section_by_name", props=["C01"])
class get_section_by_name:
    """the section at the index the name map holds for the name -- also when that index is 0 -- and None
    exactly for unknown names"""
    params = dict(self=NameMapFile, name=A_NAME)
    requires = INV
    returns = Opt(Obj('Section', header=ShdrT, name=Str))
    ensures = ["(result is None) == (name not in self._section_name_map)",
               "result is None or result.header == P('Elf_Shdr', self.stream.B, self.header.e_shoff"
               " + self._section_name_map[name] * self.header.e_shentsize)"]
    may_raise = ["ELFError", "OverflowError", "UnicodeDecodeError", "TypeError", "AttributeError"]
