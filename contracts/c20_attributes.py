from pyvc.contracts import contract
from pyvc.shapes import *
from contracts._shapes import *
from specs.elf import P
from specs.attrs import uval, uend, useq_off, tag_at, tag_end, ntbs_at, ntbs_end, word_at

StructsArg = ELFStructsT
AttrT = Obj('ARMAttribute', _tag=Rec(tag=CodeT(64)), extra=Any, value=Any)


@contract("elftools/elf/sections.py", "Attribute.__init__", props=["C20"])
class attribute_init:
    inline = True


@contract("elftools/elf/sections.py", "Attribute.tag", props=["C20"])
class attribute_tag:
    inline = True


def _attr_contract(cls, tagstruct, ntbs_tags, has_compat):
    @contract("elftools/elf/sections.py", "%s.__init__" % cls, props=["C20"])
    class _a:
        """value kinds per tag (Addenda to the ABI for the Arm Architecture 2.3 / RISC-V psABI):
        File/Section/Symbol: 32-bit byte size, then (Section, Symbol) ULEB128 numbers ended by 0;
        named tags: NTBS; compatibility: ULEB128 + NTBS; also_compatible_with: a nested attribute
        (followed by a NUL when its value is numeric); every other tag: ULEB128"""
        params = dict(self=Obj(cls), structs=StructsArg, stream=Stream)
        ghost = {"$B": "stream.B", "$p": "stream.pos", "$t": "tag_at('%s', stream.B, stream.pos)" % tagstruct,
                 "$p1": "tag_end('%s', stream.B, stream.pos)" % tagstruct}
        loops = {0: dict(invariant=[
            "len(self.extra) == $k",
            "s_number == uval($B, useq_off($B, $p1 + 4, $k))",
            "stream.pos == useq_off($B, $p1 + 4, $k + 1)",
            "forall(lambda j: self.extra[j] == uval($B, useq_off($B, $p1 + 4, j)) and self.extra[j] != 0, 0, $k)"],
            variant="len($B) + 1 - stream.pos")}
        sets_shape = dict(value=UnionT(Nat, Str, Obj(cls, value=UnionT(Nat, Str))), extra=Any, _tag=Rec(tag=CodeT(64)))
        ensures = [
            "self._tag.tag == $t",
            "$t not in ('TAG_FILE', 'TAG_SECTION', 'TAG_SYMBOL') or self.value == word_at($B, $p1, structs.little_endian)",
            "$t not in ('TAG_SECTION', 'TAG_SYMBOL') or ("
            " uval($B, useq_off($B, $p1 + 4, len(self.extra))) == 0 and stream.pos == useq_off($B, $p1 + 4, len(self.extra) + 1) and"
            " forall(lambda j: self.extra[j] == uval($B, useq_off($B, $p1 + 4, j)) and self.extra[j] != 0, 0, len(self.extra)))",
            "$t not in %r or (self.value == ntbs_at($B, $p1) and stream.pos == ntbs_end($B, $p1) + 1)" % (ntbs_tags,),
        ] + ([
            "$t != 'TAG_COMPATIBILITY' or (self.value == uval($B, $p1) and self.extra == ntbs_at($B, uend($B, $p1))"
            " and stream.pos == ntbs_end($B, uend($B, $p1)) + 1)",
            "$t in ('TAG_FILE', 'TAG_SECTION', 'TAG_SYMBOL', 'TAG_COMPATIBILITY', 'TAG_ALSO_COMPATIBLE_WITH') or $t in %r or"
            " (self.value == uval($B, $p1) and stream.pos == uend($B, $p1))" % (ntbs_tags,),
        ] if has_compat else [
            "$t in ('TAG_FILE', 'TAG_SECTION', 'TAG_SYMBOL') or $t in %r or"
            " (self.value == uval($B, $p1) and stream.pos == uend($B, $p1))" % (ntbs_tags,),
        ])
        may_raise = ["ELFError", "UnicodeDecodeError"]
    return _a


_attr_contract("ARMAttribute", "Elf_Arm_Attribute_Tag", ('TAG_CPU_RAW_NAME', 'TAG_CPU_NAME', 'TAG_CONFORMANCE'), True)
_attr_contract("RISCVAttribute", "Elf_RiscV_Attribute_Tag", ('TAG_ARCH',), False)
from specs.attrs import subsub_off
from specs.elf import chain_off

SubT = Obj('ARMAttributesSubsection', stream=Stream, structs=ELFStructsT, offset=Nat,
           header=Rec(length=U32, vendor_name=Str), subsubsec_start=Nat, subsubsection=Any)


for _c in ("AttributesSubsubsection", "ARMAttributesSubsubsection", "RISCVAttributesSubsubsection",
           "AttributesSubsection", "ARMAttributesSubsection", "RISCVAttributesSubsection"):
    @contract("elftools/elf/sections.py", "%s.__init__" % _c, props=["C20"])
    class _s:
        inline = True


@contract("elftools/elf/sections.py", "AttributesSubsection.__getitem__", props=["C20"])
class subsec_getitem:
    inline = True


import elftools.elf.sections as _S


def _subsections(cls, subcls):
    SecT = Obj(cls, header=ShdrT, stream=Stream, structs=ELFStructsT, subsec_start=Nat,
               _decompressed_size=U64, _compressed=Const(0), subsection=Const(getattr(_S, subcls)))

    @contract("elftools/elf/sections.py", "AttributesSection._make_subsections", props=["C20", "C10"])
    class _m:
        """subsection k+1 starts at subsection k + its length (the length counts from the
        subsection's own start); the walk covers exactly [start, sh_offset + size)"""
        params = dict(self=SecT)
        ghost = {"$B": "self.stream.B", "$s0": "self.subsec_start", "$end": "self.header.sh_offset + self._decompressed_size"}
        yield_shape = SubT
        loops = {0: dict(invariant=["offset == chain_off($B, $s0, $k, 'Elf_Attr_Subsection_Header', 'length')", "$k == $n"])}
        each_yield = ["value.offset == chain_off($B, $s0, $n, 'Elf_Attr_Subsection_Header', 'length')",
                      "value.header == P('Elf_Attr_Subsection_Header', $B, value.offset)"]
        ensures = ["chain_off($B, $s0, $n, 'Elf_Attr_Subsection_Header', 'length') == $end"]
        may_raise = ["ELFError", "UnicodeDecodeError", "OverflowError"]
        pre_setup = subcls
    return _m


_subsections('ARMAttributesSection', 'ARMAttributesSubsection')


SubSubT = Obj('ARMAttributesSubsubsection', stream=Stream, structs=ELFStructsT, offset=Nat, attr_start=Nat,
              header=Obj('ARMAttribute', _tag=Rec(tag=CodeT(64)), value=Any, extra=Any), attribute=Any)


@contract("elftools/elf/sections.py", "AttributesSubsection._make_subsubsections", props=["C20", "C10"])
class make_subsubsections:
    """sub-subsection k+1 starts at sub-subsection k + its own size word; the walk covers exactly
    the subsection's extent"""
    params = dict(self=Obj('ARMAttributesSubsection', stream=Stream, structs=ELFStructsT, offset=Nat,
                           header=Rec(length=U32, vendor_name=Str), subsubsec_start=Nat,
                           subsubsection=Const(_S.ARMAttributesSubsubsection)))
    ghost = {"$B": "self.stream.B", "$s0": "self.subsubsec_start", "$end": "self.offset + self.header.length"}
    # well-formed: every sub-subsection starts with a File, Section or Symbol scope tag
    requires = ["forall(lambda k: tag_at('Elf_Arm_Attribute_Tag', self.stream.B,"
                " subsub_off('Elf_Arm_Attribute_Tag', self.stream.B, self.subsubsec_start, k))"
                " in ('TAG_FILE', 'TAG_SECTION', 'TAG_SYMBOL'), 0, 2**32)"]
    yield_shape = SubSubT
    loops = {0: dict(invariant=["offset == subsub_off('Elf_Arm_Attribute_Tag', $B, $s0, $k)", "$k == $n", "$k < 2**32"])}
    each_yield = ["value.offset == subsub_off('Elf_Arm_Attribute_Tag', $B, $s0, $n)",
                  "value.header._tag.tag == tag_at('Elf_Arm_Attribute_Tag', $B, value.offset)"]
    ensures = ["subsub_off('Elf_Arm_Attribute_Tag', $B, $s0, $n) == $end"]
    may_raise = ["ELFError", "UnicodeDecodeError", "OverflowError", "TypeError"]


@contract("elftools/elf/sections.py", "AttributesSubsection.iter_subsubsections", props=["C20"])
class iter_subsubsections:
    params = dict(self=Obj('ARMAttributesSubsection', stream=Stream, structs=ELFStructsT, offset=Nat,
                           header=Rec(length=U32, vendor_name=Str), subsubsec_start=Nat,
                           subsubsection=Const(_S.ARMAttributesSubsubsection)), scope=Const(None))
    ghost = {"$B": "self.stream.B", "$s0": "self.subsubsec_start"}
    requires = ["forall(lambda k: tag_at('Elf_Arm_Attribute_Tag', self.stream.B,"
                " subsub_off('Elf_Arm_Attribute_Tag', self.stream.B, self.subsubsec_start, k))"
                " in ('TAG_FILE', 'TAG_SECTION', 'TAG_SYMBOL'), 0, 2**32)"]
    yield_shape = SubSubT
    loops = {0: dict(invariant=["$k == $n"])}
    each_yield = ["value.offset == subsub_off('Elf_Arm_Attribute_Tag', $B, $s0, $n)"]
    ensures = ["subsub_off('Elf_Arm_Attribute_Tag', $B, $s0, $n) == self.offset + self.header.length"]
    may_raise = ["ELFError", "UnicodeDecodeError", "OverflowError", "TypeError"]
