from pyvc.contracts import contract
from pyvc.shapes import *
from specs.dwarf import StructsT

EntryT = Obj('CIE', offset=Int)
CFIT = Obj('CallFrameInfo', stream=Stream, size=Nat, address=Nat, for_eh_frame=Bool, base_structs=StructsT)


@contract("elftools/dwarf/callframe.py", "CallFrameInfo._parse_entry_at", props=["C06"])
class parse_entry_at:
    """(assumed at call sites; the entry parser is covered by the bounded differential of tasks/c06_cfi.py)"""
    mode = 'assume'
    returns = EntryT
    ensures = ["result.offset == offset"]
    modifies = ["self.stream.pos"]
    may_raise = ["ELFParseError", "DWARFError", "OverflowError", "AssertionError", "KeyError"]


@contract("elftools/dwarf/callframe.py", "CallFrameInfo._parse_cie_for_fde", props=["C06", "C10"])
class parse_cie_for_fde:
    """the CIE an FDE designates: .debug_frame: the section offset CIE_pointer; .eh_frame: the distance
    back from the CIE_pointer field itself (which follows the 4- or 12-byte initial length) --
    and the stream position is left where it was"""
    params = dict(self=CFIT, fde_offset=Nat, fde_header=Rec(length=Nat, CIE_pointer=Nat), entry_structs=StructsT)
    returns = EntryT
    ensures = ["result.offset == ((fde_offset + (4 if entry_structs.dwarf_format == 32 else 12) - fde_header.CIE_pointer)"
               " if self.for_eh_frame else fde_header.CIE_pointer)",
               "self.stream.pos == old(self.stream.pos)"]
    may_raise = ["ELFParseError", "DWARFError", "OverflowError", "AssertionError", "KeyError"]


@contract("elftools/dwarf/callframe.py", "instruction_name", props=["C06"])
class instruction_name:
    """primary opcodes (high two bits set) are named by their high bits, extended ones by the byte"""
    params = dict(opcode=U8)
    requires = ["opcode // 64 != 0 or opcode in (0,1,2,3,4,5,6,7,8,9,10,11,12,13,14,15,16,17,18,19,20,21,22,0x2d,0x2e)"]
    returns = Str
    ensures = ["opcode // 64 != 1 or result == 'DW_CFA_advance_loc'", "opcode // 64 != 2 or result == 'DW_CFA_offset'",
               "opcode // 64 != 3 or result == 'DW_CFA_restore'", "opcode != 0x12 or result == 'DW_CFA_def_cfa_sf'",
               "opcode != 0 or result == 'DW_CFA_nop'", "opcode != 0x0c or result == 'DW_CFA_def_cfa'",
               "opcode != 0x16 or result == 'DW_CFA_val_expression'", "opcode != 0x15 or result == 'DW_CFA_val_offset_sf'"]


# ---------------------------------------------------------------- instruction decoding (6.4.2)
from specs.lineprog import op8
from specs.cfiparse import primary, low6, ext, known, nargs, arg0, arg1, next_off


@contract("elftools/dwarf/callframe.py", "CallFrameInstruction.__init__", props=["C06"])
class cfinstr_init:
    inline = True


LAST = "instructions[len(instructions) - 1]"


@contract("elftools/dwarf/callframe.py", "CallFrameInfo._parse_instructions", props=["C06"])
class parse_instructions:
    """step refinement of the instruction decoding of 6.4.2 / 7.24: every iteration decodes the instruction at the
    current offset -- opcode byte, operand count, operand values by kind (low six bits, ULEB128, SLEB128, 1/2/4-byte,
    address-sized, block) -- appends exactly it, and continues at the offset where its operands end; an opcode the table
    does not know is rejected; the walk runs up to (not including) end_offset"""
    params = dict(self=Obj('CallFrameInfo', stream=Stream), structs=StructsT, offset=Nat, end_offset=Nat)
    ghost = {"$B": "self.stream.B", "$W": "structs.address_size", "$S": "structs"}
    returns = ListOf(Any)
    loops = {0: dict(
        ghost_init={"$off": "offset"}, ghost_update={"$off": "offset"}, ghost_step={"$o": "offset", "$n0": "len(instructions)"},
        invariant=["offset == $off", "offset >= 0"],
        shapes={"instructions": ListOf(Any)},
        step=["known($B, $o)", "len(instructions) == $n0 + 1", LAST + ".opcode == op8($B, $o)",
              "len(" + LAST + ".args) == nargs($B, $o)",
              "nargs($B, $o) < 1 or " + LAST + ".args[0] == arg0($B, $o, $W, $S)",
              "nargs($B, $o) < 2 or " + LAST + ".args[1] == arg1($B, $o, $W, $S)",
              "offset == next_off($B, $o, $W, $S)", "$o < end_offset"],
        variant="len($B) + 1 - offset")}
    ensures = []
    may_raise = ["ELFParseError", "DWARFError", "KeyError", "OverflowError"]
