from pyvc.contracts import contract
from pyvc.shapes import *
from specs.dwarf import StructsT

from specs.cfiparse import pe_known, pe_val, pe_end, il_val, il_size, sized_word, fde_leaf, cie_leaf, cls_is, u32
CFI_EXC = ["ELFParseError", "DWARFError", "OverflowError", "AssertionError", "KeyError"]
EntryT = Obj('CIE', offset=Int, augmentation_dict=DictOf(U8), header=Rec(length=Nat, augmentation=Bytes))
CFIT = Obj('CallFrameInfo', stream=Stream, size=Nat, address=Nat, for_eh_frame=Bool, base_structs=StructsT)


EntryFull = Obj('CIE', offset=Int, augmentation_dict=DictOf(U8), header=Rec(length=Nat), structs=StructsT)
# the entry cache is a representation field (only _parse_entry_at touches it); every cached entry is keyed by its offset
CACHE_INV = ["forall(lambda k: not (k in self._entry_cache) or self._entry_cache[k].offset == k)"]
CFIFull = Obj('CallFrameInfo', _inv=CACHE_INV, _rep=('_entry_cache',), stream=Stream, size=Nat, address=Nat, for_eh_frame=Bool,
              base_structs=StructsT, _entry_cache=DictOf(EntryFull))
C6_B = "self.stream.B"
C6_W0 = "u32(%s, offset)" % C6_B
C6_ILEN = "(12 if %s == 0xffffffff else 4)" % C6_W0
C6_OSZ = "(8 if %s == 0xffffffff else 4)" % C6_W0
C6_IDW = "sized_word(%s, offset + %s, %s)" % (C6_B, C6_ILEN, C6_OSZ)
C6_IS_ZERO = "(self.for_eh_frame and %s == 0)" % C6_W0
C6_IS_CIE = "((%s == 0) if self.for_eh_frame else ((%s != 0xffffffff and %s == 0xffffffff) or %s == 0xffffffffffffffff))" % (C6_IDW, C6_W0, C6_IDW, C6_IDW)
C6_FRESH = "not (offset in old(self._entry_cache))"


@contract("elftools/dwarf/callframe.py", "CallFrameInfo._parse_entry_at", props=["C06", "C10"])
class parse_entry_at:
    """the entry whose initial length starts at `offset`.  A cached entry is returned as is (and the stream advanced by
    its size from where it stands).  Otherwise: .eh_frame and a zero first word: the terminator; else the format is
    announced by the first word (7.4) and the identifier word that follows decides the kind (6.4.1: all ones of the
    format's width -- 0 in .eh_frame -- is a CIE, anything else the CIE pointer of an FDE); a CIE carries the header
    members of the layout (K2) and, in .eh_frame, its augmentation fields; an FDE is linked to the CIE its pointer
    designates and has an LSDA pointer exactly when that CIE's augmentation gives an encoding other than omit; the
    instructions run up to offset + length + size of the initial length; the entry is recorded in the cache"""
    params = dict(self=CFIFull, offset=Nat)
    modifies = ["self.stream.pos", "self._entry_cache"]
    returns = EntryFull
    ensures = ["result.offset == offset",
               "@check @when %s :: cls_is(result, 'ZERO') == %s" % (C6_FRESH, C6_IS_ZERO),
               "@check @when %s :: cls_is(result, 'CIE') == (not %s and %s)" % (C6_FRESH, C6_IS_ZERO, C6_IS_CIE),
               "@check @when %s :: cls_is(result, 'FDE') == (not %s and not %s)" % (C6_FRESH, C6_IS_ZERO, C6_IS_CIE),
               "@check @when %s and %s :: self.stream.pos == offset + 4" % (C6_FRESH, C6_IS_ZERO),
               "@check @when %s and not %s :: final_end_offset == offset + result.header.length + %s" % (C6_FRESH, C6_IS_ZERO, C6_ILEN),
               "@check @when %s and not %s :: result.structs.dwarf_format == (64 if %s == 0xffffffff else 32)"
               " and result.structs.address_size == self.base_structs.address_size"
               " and result.structs.little_endian == self.base_structs.little_endian" % (C6_FRESH, C6_IS_ZERO, C6_W0),
               "@check @when %s and not %s :: offset in self._entry_cache and self._entry_cache[offset].offset == offset"
               " and self._entry_cache[offset].header.length == result.header.length" % (C6_FRESH, C6_IS_ZERO)] + \
              ["@check @when %s and not %s and %s :: result.header.%s == cie_leaf(%s, offset, self.for_eh_frame, '%s')" % (
                  C6_FRESH, C6_IS_ZERO, C6_IS_CIE, f, C6_B, f)
               for f in ('length', 'CIE_id', 'version', 'code_alignment_factor', 'data_alignment_factor')] + \
              ["@check @when %s and not %s and not %s :: result.cie.offset == ((offset + %s - result.header.CIE_pointer)"
               " if self.for_eh_frame else result.header.CIE_pointer)" % (C6_FRESH, C6_IS_ZERO, C6_IS_CIE, C6_ILEN),
               "@check @when %s and not %s and not %s :: (result.lsda_pointer is None) == (final_lsda_encoding == 0xff)" % (
                   C6_FRESH, C6_IS_ZERO, C6_IS_CIE),
               "@check @when %s and not %s and not %s and not self.for_eh_frame :: len(result.augmentation_bytes) == 0" % (
                   C6_FRESH, C6_IS_ZERO, C6_IS_CIE)]
    ensures += ["@when not %s :: self.stream.pos == old(self.stream.pos) + old(self._entry_cache)[offset].header.length"
                " + (4 if old(self._entry_cache)[offset].structs.dwarf_format == 32 else 12)" % C6_FRESH]
    havoc_shapes = {"self._entry_cache": DictOf(EntryFull)}
    may_raise = CFI_EXC


@contract("elftools/dwarf/callframe.py", "CallFrameInfo._parse_cie_for_fde", props=["C06", "C10"])
class parse_cie_for_fde:
    """the CIE an FDE designates: .debug_frame: the section offset CIE_pointer; .eh_frame: the distance
    back from the CIE_pointer field itself (which follows the 4- or 12-byte initial length) --
    and the stream position is left where it was"""
    params = dict(self=CFIT, fde_offset=Nat, fde_header=Rec(length=Nat, CIE_pointer=Nat), entry_structs=StructsT)
    returns = EntryT
    ensures = ["result.offset == ((fde_offset + (4 if entry_structs.dwarf_format == 32 else 12) - fde_header.CIE_pointer)"
               " if self.for_eh_frame else fde_header.CIE_pointer)",
               "self.stream.pos == old(self.stream.pos)"]
    may_raise = ["ELFParseError", "DWARFError", "OverflowError", "AssertionError", "KeyError"]


@contract("elftools/dwarf/callframe.py", "instruction_name", props=["C06"])
class instruction_name:
    """primary opcodes (high two bits set) are named by their high bits, extended ones by the byte"""
    params = dict(opcode=U8)
    requires = ["opcode // 64 != 0 or opcode in (0,1,2,3,4,5,6,7,8,9,10,11,12,13,14,15,16,17,18,19,20,21,22,0x2d,0x2e)"]
    returns = Str
    ensures = ["opcode // 64 != 1 or result == 'DW_CFA_advance_loc'", "opcode // 64 != 2 or result == 'DW_CFA_offset'",
               "opcode // 64 != 3 or result == 'DW_CFA_restore'", "opcode != 0x12 or result == 'DW_CFA_def_cfa_sf'",
               "opcode != 0 or result == 'DW_CFA_nop'", "opcode != 0x0c or result == 'DW_CFA_def_cfa'",
               "opcode != 0x16 or result == 'DW_CFA_val_expression'", "opcode != 0x15 or result == 'DW_CFA_val_offset_sf'"]


# ---------------------------------------------------------------- instruction decoding (6.4.2)
from specs.lineprog import op8
from specs.cfiparse import primary, low6, ext, known, nargs, arg0, arg1, next_off


@contract("elftools/dwarf/callframe.py", "CallFrameInstruction.__init__", props=["C06"])
class cfinstr_init:
    inline = True


C6_LAST = "instructions[len(instructions) - 1]"


@contract("elftools/dwarf/callframe.py", "CallFrameInfo._parse_instructions", props=["C06"])
class parse_instructions:
    """step refinement of the instruction decoding of 6.4.2 / 7.24: every iteration decodes the instruction at the
    current offset -- opcode byte, operand count, operand values by kind (low six bits, ULEB128, SLEB128, 1/2/4-byte,
    address-sized, block) -- appends exactly it, and continues at the offset where its operands end; an opcode the table
    does not know is rejected; the walk runs up to (not including) end_offset"""
    params = dict(self=CFIT, structs=StructsT, offset=Nat, end_offset=Nat, pointer_encoding=Opt(U8))
    ghost = {"$B": "self.stream.B", "$W": "structs.address_size", "$S": "structs", "$E": "pointer_encoding", "$A": "self.address"}
    returns = ListOf(Any)
    loops = {0: dict(
        ghost_init={"$off": "offset"}, ghost_update={"$off": "offset"}, ghost_step={"$o": "offset", "$n0": "len(instructions)"},
        invariant=["offset == $off", "offset >= 0"],
        shapes={"instructions": ListOf(Any)},
        step=["known($B, $o)", "len(instructions) == $n0 + 1", C6_LAST + ".opcode == op8($B, $o)",
              "len(" + C6_LAST + ".args) == nargs($B, $o)",
              "nargs($B, $o) < 1 or " + C6_LAST + ".args[0] == arg0($B, $o, $W, $S, $E, $A)",
              "nargs($B, $o) < 2 or " + C6_LAST + ".args[1] == arg1($B, $o, $W, $S)",
              "offset == next_off($B, $o, $W, $S, $E)", "$o < end_offset"],
        variant="len($B) + 1 - offset")}
    ensures = []
    may_raise = ["ELFParseError", "DWARFError", "KeyError", "OverflowError", "AssertionError"]


# ---------------------------------------------------------------- .eh_frame pointer encodings, FDE header



@contract("elftools/dwarf/callframe.py", "CallFrameInfo._eh_encoding_to_field", props=["C06"])
class eh_encoding_to_field:
    inline = True


@contract("elftools/dwarf/callframe.py", "CallFrameInfo._parse_lsda_pointer", props=["C06"])
class parse_lsda_pointer:
    """the LSDA pointer at stream_offset: the value of the basic encoding (low four bits: address-sized word,
    LEB128, 2/4/8-byte word, unsigned or signed), taken as is (modifier absptr) or relative to the address of the
    field itself (modifier pcrel: section address + field offset); an omitted pointer, an unknown basic encoding
    and any other modifier never return"""
    params = dict(self=CFIT, structs=StructsT, stream_offset=Nat, encoding=U8)
    modifies = ["self.stream.pos"]
    returns = Int
    ensures = ["encoding != 0xff", "pe_known(encoding % 16)", "encoding // 16 == 0 or encoding // 16 == 1",
               "result == pe_val(self.stream.B, stream_offset, encoding % 16, structs.address_size)"
               " + ((self.address + stream_offset) if encoding // 16 == 1 else 0)",
               "self.stream.pos == pe_end(self.stream.B, stream_offset, encoding % 16, structs.address_size)",
               "self.stream.pos > stream_offset and self.stream.pos <= len(self.stream.B)"]
    may_raise = CFI_EXC


C6_FDE_LEAF = "sized_word"       # (documentation) .debug_frame FDE headers are the abstract Dwarf_FDE_header layout (K2)
C6_P1 = "(offset + il_size(self.stream.B, offset) + (4 if entry_structs.dwarf_format == 32 else 8))"
C6_ENC = "(final_cie.augmentation_dict['FDE_encoding'] if 'FDE_encoding' in final_cie.augmentation_dict else 0)"


@contract("elftools/dwarf/callframe.py", "CallFrameInfo._parse_fde_header", props=["C06"])
class parse_fde_header:
    """.eh_frame FDE header: initial length, CIE pointer (format-sized word), then initial location and address range
    in the pointer encoding recorded by the 'R' augmentation of the designated CIE (absolute pointers when the CIE has
    none): both use the basic encoding; a pcrel modifier makes the initial location relative to the address of its own
    field (section address + field offset); the stream is left after the address range.  (.debug_frame: the fixed
    Dwarf_FDE_header layout, K2.)"""
    params = dict(self=CFIT, entry_structs=StructsT, offset=Nat)
    modifies = ["self.stream.pos"]
    returns = Rec(length=Nat, CIE_pointer=Nat, initial_location=Int, address_range=Int)
    ensures = ["not self.for_eh_frame or result.length == il_val(self.stream.B, offset)",
               "not self.for_eh_frame or result.CIE_pointer == sized_word(self.stream.B, offset + il_size(self.stream.B, offset), 4 if entry_structs.dwarf_format == 32 else 8)",
               "@check @when self.for_eh_frame :: %s != 0xff and pe_known(%s %% 16) and (%s // 16 == 0 or %s // 16 == 1)" % (C6_ENC, C6_ENC, C6_ENC, C6_ENC),
               "@check @when self.for_eh_frame :: result.initial_location == pe_val(self.stream.B, %s, %s %% 16, entry_structs.address_size)"
               " + ((self.address + %s) if %s // 16 == 1 else 0)" % (C6_P1, C6_ENC, C6_P1, C6_ENC),
               "@check @when self.for_eh_frame :: result.address_range == pe_val(self.stream.B, pe_end(self.stream.B, %s, %s %% 16, entry_structs.address_size),"
               " %s %% 16, entry_structs.address_size)" % (C6_P1, C6_ENC, C6_ENC),
               "@check @when self.for_eh_frame :: self.stream.pos == pe_end(self.stream.B, pe_end(self.stream.B, %s, %s %% 16, entry_structs.address_size),"
               " %s %% 16, entry_structs.address_size)" % (C6_P1, C6_ENC, C6_ENC),
               "@check @when self.for_eh_frame :: final_cie.offset == offset + il_size(self.stream.B, offset) - result.CIE_pointer"
               " or entry_structs.dwarf_format != (32 if il_size(self.stream.B, offset) == 4 else 64)"]
    ensures += ["self.for_eh_frame or result.%s == fde_leaf(self.stream.B, offset, '%s')" % (f, f)
                for f in ('length', 'CIE_pointer', 'initial_location', 'address_range')]
    may_raise = CFI_EXC


# ---------------------------------------------------------------- augmentation data (LSB 10.6.1.1.1)
from specs.lineprog import U, UE


@contract("elftools/dwarf/callframe.py", "CallFrameInfo._read_augmentation_data", props=["C06"])
class read_augmentation_data:
    """.eh_frame: a ULEB128 length followed by that many bytes of augmentation data, which are returned (fewer when
    the section ends first); .debug_frame: nothing is read"""
    params = dict(self=CFIT, entry_structs=StructsT)
    modifies = ["self.stream.pos"]
    returns = Bytes
    ghost = {"$p": "self.stream.pos", "$B": "self.stream.B"}
    ensures = ["self.for_eh_frame or (len(result) == 0 and self.stream.pos == $p)",
               "not self.for_eh_frame or result == $B[UE($B, $p) : UE($B, $p) + U($B, $p)]",
               "not self.for_eh_frame or self.stream.pos == min(len($B), UE($B, $p) + U($B, $p)) or self.stream.pos == UE($B, $p)"]
    may_raise = CFI_EXC

C6_AUGS = (b'', b'z', b'zR', b'zL', b'zLR', b'zRL', b'zPR', b'zPLR', b'zRS', b'zSLR', b'zRX', b'zXR', b'armcc+')
C6_ASZ = "entry_structs.address_size"


def aug_clauses(aug):
    """postconditions for one augmentation string: the data fields follow the ULEB128 length in the order of the letters
    (L: LSDA pointer encoding byte; R: FDE pointer encoding byte; P: encoding byte + personality routine pointer in that
    encoding; S: no data); reading stops at the first letter the library does not know"""
    g = "header.augmentation != %r or " % aug
    if not aug or aug.startswith(b'armcc'):
        return [g + "(len(result[0]) == 0 and len(result[1]) == 0 and self.stream.pos == $p)"]
    # (.debug_frame: the same fields are decoded, the raw bytes are not returned)
    out = [g + "((not self.for_eh_frame and len(result[0]) == 0) or (self.for_eh_frame and result[0] == $B[UE($B, $p) : UE($B, $p) + U($B, $p)]))",
           g + "result[1]['length'] == U($B, $p)"]
    pos = "UE($B, $p)"
    keys = {'length'}
    for ch in aug[1:].decode():
        if ch == 'L':
            out.append(g + "result[1]['LSDA_encoding'] == op8($B, %s)" % pos)
            pos = "(%s + 1)" % pos
            keys.add('LSDA_encoding')
        elif ch == 'R':
            out.append(g + "result[1]['FDE_encoding'] == op8($B, %s)" % pos)
            pos = "(%s + 1)" % pos
            keys.add('FDE_encoding')
        elif ch == 'P':
            out.append(g + "result[1]['personality'].encoding == op8($B, %s)" % pos)
            out.append(g + "result[1]['personality'].function == pe_val($B, %s + 1, op8($B, %s) %% 16, %s)" % (pos, pos, C6_ASZ))
            out.append(g + "pe_known(op8($B, %s) %% 16)" % pos)
            pos = "pe_end($B, %s + 1, op8($B, %s) %% 16, %s)" % (pos, pos, C6_ASZ)
            keys.add('personality')
        elif ch == 'S':
            continue
        else:
            break
    for k in ('LSDA_encoding', 'FDE_encoding', 'personality'):
        if k not in keys:
            out.append(g + "%r not in result[1]" % k)
    return out


@contract("elftools/dwarf/callframe.py", "CallFrameInfo._parse_cie_augmentation", props=["C06"])
class parse_cie_augmentation:
    """the augmentation data of an .eh_frame CIE for each augmentation string of the property's quantifier (and strings
    with an unknown letter, the armcc strings, the empty string): raw bytes and the decoded fields, see aug_clauses"""
    params = dict(self=CFIT, header=Rec(augmentation=OneOf(*C6_AUGS)), entry_structs=StructsT)
    modifies = ["self.stream.pos"]
    returns = TupleT(Bytes, DictOf(U8))          # (call sites see the two encoding bytes; the personality record only here)
    ghost = {"$p": "self.stream.pos", "$B": "self.stream.B"}
    ensures = [c for a in C6_AUGS for c in aug_clauses(a)]
    may_raise = CFI_EXC


@contract("elftools/common/utils.py", "iterbytes", props=["C06"])
class iterbytes_c:
    inline = True


for _q in ("CFIEntry.__init__", "FDE.__init__", "ZERO.__init__"):
    @contract("elftools/dwarf/callframe.py", _q, props=["C06", "C10"])
    class _inl_entry:
        inline = True
