from pyvc.contracts import contract
from pyvc.shapes import *
from specs.dwarf import StructsT

EntryT = Obj('CIE', offset=Int)
CFIT = Obj('CallFrameInfo', stream=Stream, size=Nat, address=Nat, for_eh_frame=Bool, base_structs=StructsT)


@contract("elftools/dwarf/callframe.py", "CallFrameInfo._parse_entry_at", props=["C06"])
class parse_entry_at:
    """(assumed at call sites; the entry parser is covered by the bounded differential of tasks/c06_cfi.py)"""
    mode = 'assume'
    returns = EntryT
    ensures = ["result.offset == offset"]
    modifies = ["self.stream.pos"]
    may_raise = ["ELFParseError", "DWARFError", "OverflowError", "AssertionError", "KeyError"]


@contract("elftools/dwarf/callframe.py", "CallFrameInfo._parse_cie_for_fde", props=["C06", "C10"])
class parse_cie_for_fde:
    """the CIE an FDE designates: .debug_frame: the section offset CIE_pointer; .eh_frame: the distance
    back from the CIE_pointer field itself (which follows the 4- or 12-byte initial length) --
    and the stream position is left where it was"""
    params = dict(self=CFIT, fde_offset=Nat, fde_header=Rec(length=Nat, CIE_pointer=Nat), entry_structs=StructsT)
    returns = EntryT
    ensures = ["result.offset == ((fde_offset + (4 if entry_structs.dwarf_format == 32 else 12) - fde_header.CIE_pointer)"
               " if self.for_eh_frame else fde_header.CIE_pointer)",
               "self.stream.pos == old(self.stream.pos)"]
    may_raise = ["ELFParseError", "DWARFError", "OverflowError", "AssertionError", "KeyError"]


@contract("elftools/dwarf/callframe.py", "instruction_name", props=["C06"])
class instruction_name:
    """primary opcodes (high two bits set) are named by their high bits, extended ones by the byte"""
    params = dict(opcode=U8)
    requires = ["opcode // 64 != 0 or opcode in (0,1,2,3,4,5,6,7,8,9,10,11,12,13,14,15,16,17,18,19,20,21,22,0x2d,0x2e)"]
    returns = Str
    ensures = ["opcode // 64 != 1 or result == 'DW_CFA_advance_loc'", "opcode // 64 != 2 or result == 'DW_CFA_offset'",
               "opcode // 64 != 3 or result == 'DW_CFA_restore'", "opcode != 0x12 or result == 'DW_CFA_def_cfa_sf'",
               "opcode != 0 or result == 'DW_CFA_nop'", "opcode != 0x0c or result == 'DW_CFA_def_cfa'",
               "opcode != 0x16 or result == 'DW_CFA_val_expression'", "opcode != 0x15 or result == 'DW_CFA_val_offset_sf'"]
