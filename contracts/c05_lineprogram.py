from pyvc.contracts import contract
from pyvc.shapes import *
from specs.dwarf import StructsT
from specs.lineprog import (op8, U, UE, SV, u16, taddr, is_special, is_ext, exop, emits, ends, row_address, row_op_index,
                            row_line, next_address, next_op_index, next_line, next_file, next_column, next_isa,
                            next_is_stmt_true, next_discriminator, next_basic_block, next_prologue_end,
                            next_epilogue_begin, next_offset_known, has_uleb_operand, truthy, advances, record)
from specs.attrs import useq_off

HdrT = Rec(unit_length=Nat, version=U16, header_length=Nat, minimum_instruction_length=U8,
           maximum_operations_per_instruction=IntT(1, 256), default_is_stmt=U8, line_base=S(8), line_range=IntT(1, 256),
           opcode_base=IntT(1, 256), standard_opcode_lengths=ListOf(U8), file_entry=ListOf(Nat))
LPT = Obj('LineProgram', stream=Stream, header=HdrT, structs=StructsT, program_start_offset=Nat, program_end_offset=Nat,
          _decoded_entries=NoneT)
RegsT = Obj('LineState', address=Nat, file=Nat, line=Int, column=Nat, op_index=Nat, is_stmt=Bool, basic_block=Bool,
            end_sequence=Bool, prologue_end=Bool, epilogue_begin=Bool, isa=Nat, discriminator=Nat)


@contract("elftools/dwarf/lineprogram.py", "LineState.__init__", props=["C05"])
class linestate_init:
    inline = True


@contract("elftools/dwarf/lineprogram.py", "LineProgram.__getitem__", props=["C05"])
class lp_getitem:
    inline = True


_R = "$r"      # registers at the start of the iteration (captured field by field)
_H, _B, _O = "self.header", "$B", "$o"


def _st(expr):
    return expr.replace('@H', _H).replace('@R', _R).replace('@B', _B).replace('@O', _O)


@contract("elftools/dwarf/lineprogram.py", "LineProgram._decode_line_program", props=["C05"])
class decode_line_program:
    """step refinement of DWARF 6.2.5: every iteration of the decoding loop leaves each register,
    the emitted row (if any) and the instruction offset as the standard's state machine prescribes
    (specs/lineprog.py); the fold over the program follows by induction on the loop (composition lemma)"""
    params = dict(self=LPT)
    requires = ["self.header.maximum_operations_per_instruction >= 1", "self.header.line_range >= 1",
                "len(self.header.standard_opcode_lengths) == self.header.opcode_base - 1",
                "self.program_end_offset < 2**62"]
    ghost = {"$B": "self.stream.B"}
    returns = Any
    loops = {
        0: dict(
            invariant=["offset >= 0", "state.end_sequence == False"],
            shapes={"state": RegsT, "entries": ListOf(Any)},
            ghost_step={"$o": "offset", "$len0": "len(entries)",
                        "$r": "record(address=state.address, file=state.file, line=state.line, column=state.column,"
                              " op_index=state.op_index, is_stmt=state.is_stmt, basic_block=state.basic_block,"
                              " prologue_end=state.prologue_end, epilogue_begin=state.epilogue_begin, isa=state.isa,"
                              " discriminator=state.discriminator)"},
            step=[_st(x) for x in [
                "state.address == next_address(@H, @R, @B, @O, self.structs.address_size)",
                "state.op_index == next_op_index(@H, @R, @B, @O)",
                "state.line == next_line(@H, @R, @B, @O)",
                "state.file == next_file(@H, @R, @B, @O)",
                "state.column == next_column(@H, @R, @B, @O)",
                "state.isa == next_isa(@H, @R, @B, @O)",
                "truthy(state.is_stmt) == next_is_stmt_true(@H, @R, @B, @O)",
                "state.discriminator == next_discriminator(@H, @R, @B, @O)",
                "state.basic_block == next_basic_block(@H, @R, @B, @O)",
                "state.prologue_end == next_prologue_end(@H, @R, @B, @O)",
                "state.epilogue_begin == next_epilogue_begin(@H, @R, @B, @O)",
                "state.end_sequence == False",
                # rows
                "emits(@H, @B, @O) == (len(entries) > $len0 and entries[len(entries) - 1].state is not None)"
                " or not (is_special(@H, @B, @O) or is_ext(@H, @B, @O) or op8(@B, @O) <= 12)",
                "not emits(@H, @B, @O) or entries[len(entries) - 1].state.address == row_address(@H, @R, @B, @O, self.structs.address_size)",
                "not emits(@H, @B, @O) or entries[len(entries) - 1].state.op_index == row_op_index(@H, @R, @B, @O)",
                "not emits(@H, @B, @O) or entries[len(entries) - 1].state.line == row_line(@H, @R, @B, @O)",
                "not emits(@H, @B, @O) or entries[len(entries) - 1].state.file == @R.file",
                "not emits(@H, @B, @O) or entries[len(entries) - 1].state.column == @R.column",
                "not emits(@H, @B, @O) or entries[len(entries) - 1].state.discriminator == @R.discriminator",
                "not emits(@H, @B, @O) or entries[len(entries) - 1].state.basic_block == @R.basic_block",
                "not emits(@H, @B, @O) or entries[len(entries) - 1].state.end_sequence == ends(@H, @B, @O)",
                "not emits(@H, @B, @O) or truthy(entries[len(entries) - 1].state.is_stmt) == truthy(@R.is_stmt)",
                # next instruction
                "not (is_special(@H, @B, @O) or (not is_ext(@H, @B, @O) and op8(@B, @O) <= 12)) or"
                " offset == next_offset_known(@H, @B, @O)",
                "not (is_ext(@H, @B, @O) and exop(@B, @O) not in (1, 2, 3, 4)) or offset == next_offset_known(@H, @B, @O)",
                "not (is_ext(@H, @B, @O) and exop(@B, @O) == 1) or offset == UE(@B, @O + 1) + 1",
                "not (not is_special(@H, @B, @O) and not is_ext(@H, @B, @O) and op8(@B, @O) > 12) or"
                " offset == useq_off(@B, @O + 1, self.header.standard_opcode_lengths[op8(@B, @O) - 1])",
            ]]),
        1: dict(invariant=["self.stream.pos == useq_off($B, $o + 1, $k)"]),
    }
    may_raise = ["ELFParseError", "OverflowError", "DWARFError"]


# ---------------------------------------------------------------- which program, parsed with whose parameters
from contracts._dwarf_shapes import CUFull, DInfoT
from specs.die import attr_has, attr_value

LPRet = Obj('LineProgram', structs=StructsT, header_offset=Nat)


@contract("elftools/dwarf/dwarfinfo.py", "DWARFInfo._parse_line_program_at_offset", props=["C05"])
class parse_line_program_at_offset:
    """(assumed at the call site below; the header/extent handling itself is covered by the bounded
    differential) the line program whose header starts at the offset, read with the parameters
    (format, address size, byte order) of the structs object passed"""
    mode = 'assume'
    returns = LPRet
    ensures = ["result.header_offset == offset", "result.structs.dwarf_format == structs.dwarf_format",
               "result.structs.address_size == structs.address_size", "result.structs.little_endian == structs.little_endian"]
    may_raise = ["ELFParseError", "DWARFError", "OverflowError", "KeyError"]


@contract("elftools/dwarf/dwarfinfo.py", "DWARFInfo.line_program_for_CU", props=["C05"])
class line_program_for_cu:
    """the program DW_AT_stmt_list of the unit's root entry designates, read with the unit's own format
    and address size (6.2.4: offsets in the header have the size of the unit's format); no attribute, no program"""
    params = dict(self=SameAs('CU.dwarfinfo'), CU=CUFull)
    modifies = ["*rep"]
    returns = Opt(LPRet)
    ensures = ["(result is None) == (not attr_has(CU, CU.cu_die_offset, 'DW_AT_stmt_list'))",
               "result is None or (result.header_offset == attr_value(CU, CU.cu_die_offset, 'DW_AT_stmt_list')"
               " and result.structs.dwarf_format == CU.structs.dwarf_format and result.structs.address_size == CU.structs.address_size"
               " and result.structs.little_endian == CU.structs.little_endian)"]
    may_raise = ["ELFParseError", "DWARFError", "OverflowError", "KeyError"]
