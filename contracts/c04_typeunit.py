"""C04 / C10: version 4 type units (typeunit.py).  TypeUnit repeats CompileUnit's entry cache, lookup
by offset and children walk over the .debug_types stream with tu_offset / tu_die_offset in place of
cu_offset / cu_die_offset.  Its contracts are the CompileUnit contracts of c04_die.py with exactly
that renaming applied to every clause and shape (derived mechanically below, so the two cannot
drift apart); the specification functions read the unit's own section (specs/die.py _ctx)."""
from pyvc.contracts import contract
from pyvc.shapes import *
from contracts._dwarf_shapes import *
from contracts import c04_die as C
from specs.die import die_at, has_top

TU = "elftools/dwarf/typeunit.py"
TypesStream = SharedStream('debug_types')
TypesSecT = Rec('DebugSectionDescriptor', stream=TypesStream, name=Str, global_offset=Nat, size=Nat, address=Nat)
DInfoTT = DInfoT.extend(debug_types_sec=TypesSecT)
DIETT = DIET.extend(stream=TypesStream)
TUHdr = Rec(unit_length=Nat, version=U16, address_size=U8, debug_abbrev_offset=Nat, signature=U(64), type_offset=Nat)


def _txt(t):
    return t.replace('self.cu_die_offset', 'self.tu_die_offset').replace('self.cu_offset', 'self.tu_offset') \
            .replace('debug_info_sec', 'debug_types_sec')


TU_RI = [_txt(t) for t in DIE_RI]
TUFull = Obj('TypeUnit', _inv=TU_RI, _rep=('_dielist', '_diemap'), tu_offset=Nat, tu_die_offset=Nat, dwarfinfo=DInfoTT,
             header=TUHdr, structs=StructsT, _dielist=ListOf(DIETT), _diemap=ListOf(Nat))


def _shape(sh):
    if sh is CUFull:
        return TUFull
    if sh is DIET:
        return DIETT
    if isinstance(sh, ListOf):
        return ListOf(_shape(sh.inner))
    return sh


def _conv(v):
    if isinstance(v, str):
        return _txt(v)
    if isinstance(v, Shape):
        return _shape(v)
    if isinstance(v, list):
        return [_conv(x) for x in v]
    if isinstance(v, tuple):
        return tuple(_conv(x) for x in v)
    if isinstance(v, dict):
        return {(_txt(k) if isinstance(k, str) else k): _conv(x) for k, x in v.items()}
    return v


def tu_variant(cls):
    """the contract class with the CompileUnit -> TypeUnit renaming applied to every clause and shape"""
    d = {k: _conv(v) for k, v in vars(cls).items() if not k.startswith('__')}
    d['__doc__'] = '(TypeUnit) ' + (cls.__doc__ or '')
    return type('tu_' + cls.__name__, (), d)


for _q, _c in (("TypeUnit.get_top_DIE", C.get_top_die), ("TypeUnit.has_top_DIE", C.has_top_die),
               ("TypeUnit._get_cached_DIE", C.get_cached_die), ("TypeUnit.get_DIE_from_refaddr", C.cu_get_die_from_refaddr),
               ("TypeUnit.iter_DIE_children", C.iter_die_children)):
    contract(TU, _q, props=["C04", "C10"])(tu_variant(_c))

for _q in ("TypeUnit.cu_offset", "TypeUnit.cu_die_offset", "TypeUnit.dwarf_format", "TypeUnit.size", "TypeUnit.__getitem__"):
    @contract(TU, _q, props=["C04", "C10"])
    class _inl_tu:
        inline = True


# ---------------------------------------------------------------- DWARFInfo: type units of .debug_types
from specs.dwarf import tu_at, tunit_off, SecT
from specs.dwarf import StructsT as DwStructsT

DI = "elftools/dwarf/dwarfinfo.py"
PARSE_EXC = ["ELFParseError", "DWARFError", "OverflowError", "AssertionError"]
CfgT = Rec('DwarfConfig', little_endian=Bool, machine_arch=Str, default_address_size=Choice(4, 8))
# what a unit object holds when it is created (empty entry cache)
TUNewT = Obj('TypeUnit', tu_offset=Nat, tu_die_offset=Nat, header=TUHdr, structs=DwStructsT, _dielist=ListOf(DIETT), _diemap=ListOf(Nat),
             dwarfinfo=DInfoTT)


@contract(TU, "TypeUnit.__init__", props=["C04", "C10"])
class tu_init:
    inline = True


@contract(DI, "DWARFInfo._parse_TU_at_offset", props=["C04", "C10"])
class parse_tu_at:
    """the type unit object for the header at `offset` of .debug_types: format from the first word (7.4), header
    fields and the offset of the root entry from the header layout (v4 7.5.1.2, K2), structs of the unit's own
    format, address size and version; versions outside 2..5 are rejected"""
    params = dict(self=Obj('DWARFInfo', debug_types_sec=TypesSecT, debug_info_sec=InfoSecT, structs=DwStructsT, config=CfgT), offset=Nat)
    returns = TUNewT
    ensures = ["tu_at(result, self.debug_types_sec.stream.B, offset)", "result.header.version >= 2 and result.header.version <= 5",
               "result.structs.little_endian == self.config.little_endian", "@check result.dwarfinfo is self",
               "len(result._dielist) == 0 and len(result._diemap) == 0"]
    may_raise = PARSE_EXC


@contract(DI, "DWARFInfo._parse_TUs_iter", props=["C04", "C10"])
class parse_tus_iter:
    """type units in section order from `offset`: unit k+1 starts at unit k + unit_length + initial length size;
    nothing when the file has no .debug_types"""
    params = dict(self=Obj('DWARFInfo', debug_types_sec=SymOpt(TypesSecT), structs=DwStructsT, config=CfgT), offset=Nat)
    ghost = {"$o0": "offset"}
    yield_shape = TUNewT
    loops = {0: dict(invariant=["offset == tunit_off(self.debug_types_sec.stream.B, $o0, $k)", "$k == $n"])}
    each_yield = ["tu_at(value, self.debug_types_sec.stream.B, tunit_off(self.debug_types_sec.stream.B, $o0, $n))",
                  "tunit_off(self.debug_types_sec.stream.B, $o0, $n) < self.debug_types_sec.size"]
    ensures = ["self.debug_types_sec is None or tunit_off(self.debug_types_sec.stream.B, $o0, $n) >= self.debug_types_sec.size",
               "self.debug_types_sec is not None or $n == 0"]
    may_raise = PARSE_EXC


@contract(DI, "DWARFInfo.iter_TUs", props=["C04", "C10"])
class iter_tus:
    inline = True


# ---------------------------------------------------------------- the signature map of .debug_types
from specs.dwarf import types_wellformed

TUCached = TUFull          # a type unit of the map: with its own lazily built entry cache in view
SigMapT = DictOf(TUCached)
SIG_INV = "forall(lambda s: not (s in self._type_units_by_sig) or (tu_at(self._type_units_by_sig[s], self.debug_types_sec.stream.B," \
          " self._type_units_by_sig[s].tu_offset) and self._type_units_by_sig[s].header.signature == s))"
# the map is a representation field: only _parse_debug_types writes it; once built it satisfies SIG_INV
SIG_RI = ["self._type_units_by_sig is None or self.debug_types_sec is None or " + SIG_INV,
          "self._type_units_by_sig is None or self.debug_types_sec is not None or forall(lambda s: not (s in self._type_units_by_sig))"]
TUOwnerT = Obj('DWARFInfo', _inv=SIG_RI, _rep=('_type_units_by_sig',), debug_types_sec=SymOpt(TypesSecT), debug_info_sec=InfoSecT,
               structs=DwStructsT, config=CfgT, _type_units_by_sig=SymOpt(SigMapT))


@contract(DI, "DWARFInfo._parse_debug_types", props=["C04", "C10"])
class parse_debug_types:
    """the map from type signatures to the type units of .debug_types, built on first use and kept: every entry is a type
    unit parsed from the section at its own offset whose header carries the key as its signature (a signature that occurs
    twice keeps the later unit); an already built map is left alone; without the section the map is empty"""
    params = dict(self=TUOwnerT)
    modifies = ["self._type_units_by_sig", "*rep", "self.debug_types_sec.stream.pos"]
    loops = {0: dict(invariant=[SIG_INV, "offset >= 0"], shapes={"self._type_units_by_sig": SigMapT})}
    havoc_shapes = {"self._type_units_by_sig": SigMapT}
    ensures = ["self._type_units_by_sig is not None",
               "self.debug_types_sec is not None or forall(lambda s: not (s in self._type_units_by_sig))",
               "@when old(self._type_units_by_sig) is None and self.debug_types_sec is not None :: " + SIG_INV]
    may_raise = PARSE_EXC


@contract(DI, "DWARFInfo.get_TU_by_sig8", props=["C04", "C10"])
class get_tu_by_sig8:
    """the type unit registered under the signature: a unit of .debug_types whose header carries that signature; an
    unknown signature is a KeyError"""
    params = dict(self=TUOwnerT, sig8=U(64))
    modifies = ["*rep", "self.debug_types_sec.stream.pos"]
    rep_reader = True
    returns = TUCached
    ensures = ["result.header.signature == sig8", "self.debug_types_sec is not None",
               "tu_at(result, self.debug_types_sec.stream.B, result.tu_offset)"]
    may_raise = PARSE_EXC + ["KeyError"]
