from pyvc.contracts import contract
from pyvc.shapes import *
from contracts._shapes import *
from specs.notes import ru4, note_off, nhdr


@contract("elftools/common/utils.py", "bytes2str", props=["C14"])
class bytes2str:
    inline = True


@contract("elftools/elf/sections.py", "Section.__getitem__", props=["C01", "C02", "C03", "C14"])
class section_getitem:
    inline = True


@contract("elftools/elf/segments.py", "Segment.__getitem__", props=["C01", "C02", "C14"])
class segment_getitem:
    inline = True


@contract("elftools/elf/elffile.py", "ELFFile.__getitem__", props=["C01", "C02", "C14"])
class elffile_getitem:
    inline = True


@contract("elftools/elf/notes.py", "iter_notes", props=["C14", "C19"])
class iter_notes:
    """notes_spec (gABI 'Note Section'): note k starts at note_off(k); header =
    three words; name padded to 4; descriptor padded to 4; a note is present while
    a complete header fits in [offset, offset+size)."""
    params = dict(elffile=ELFFileT(), offset=U64, size=U64)
    requires = ["elffile.structs.elfclass == elffile.elfclass",
                "offset + size <= len(elffile.stream.B)"]      # well-formed: the extent lies inside the file
    ghost = {"$B": "elffile.stream.B", "$o0": "offset", "$end": "offset + size"}
    loops = {
        0: dict(invariant=["offset == note_off($B, $o0, $k)", "$k == $n", "end == $end", "nhdr_size == 12"],
                variant="end - offset"),
        1: dict(invariant=["off >= offset", "current_note_end == offset + note['n_descsz']"],
                variant="current_note_end - off",
                shapes={"props": ListOf(Any)}),
    }
    each_yield = [
        "value['n_offset'] == note_off($B, $o0, $n)",
        "value['n_namesz'] == nhdr($B, value['n_offset']).n_namesz",
        "value['n_descsz'] == nhdr($B, value['n_offset']).n_descsz",
        "value['n_type'] == nhdr($B, value['n_offset']).n_type",
        "value['n_size'] == 12 + ru4(value['n_namesz']) + ru4(value['n_descsz'])",
        "value['n_offset'] + 12 <= $end",
        # raw descriptor: the bytes after the padded name, clipped at end of file
        "value['n_descdata'] == $B[value['n_offset'] + 12 + ru4(value['n_namesz']) :"
        " value['n_offset'] + 12 + ru4(value['n_namesz']) + value['n_descsz']]",
    ]
    ensures = ["not (note_off($B, $o0, $n) + 12 <= $end)"]
    may_raise = ["ELFParseError", "ConstructError", "UnicodeDecodeError"]


@contract("elftools/common/utils.py", "bytes2hex", props=["C14"])
class bytes2hex:
    """hex text of the build id: value not interpreted by any contract (listed as unverified)"""
    mode = 'assume'
    returns = Any


@contract("elftools/elf/sections.py", "StabSection.iter_stabs", props=["C14"])
class iter_stabs:
    """stab records are 12 bytes: record k at sh_offset + 12 k, every record that starts before the end of the
    section is yielded (the last one included)"""
    params = dict(self=SectionT('StabSection'))
    requires = ["self.structs.elfclass == self.elffile.elfclass"]
    ghost = {"$B": "self.stream.B", "$o": "self.header.sh_offset", "$end": "self.header.sh_offset + self.header.sh_size"}
    yield_shape = Any
    loops = {0: dict(invariant=["offset == $o + 12 * $k", "$k == $n"], variant="$end + 12 - offset")}
    each_yield = ["value == P('Elf_Stabs', $B, $o + 12 * $n) or True", "value.n_offset == $o + 12 * $n", "$o + 12 * $n < $end"]
    ensures = ["$o + 12 * $n >= $end"]
    may_raise = ["ELFParseError", "OverflowError"]
