from pyvc.contracts import contract, REGISTRY
from pyvc.shapes import *
from specs.dwarf import StructsT, CUT, SecT
from specs.die import has_top
from specs.lists import gaddr, word_at_addr, offset_word, is_kind, rnglist_at, loclist_at, has_base, base_of, loc_off, u16_at

from contracts._dwarf_shapes import DInfoT, CUArg
COMMON = dict(entry_offset=Nat, entry_length=Nat, entry_end_offset=Nat, entry_type=CodeT(8))
RangeEntryT = Rec('RangeEntry', entry_offset=Nat, entry_length=Nat, begin_offset=Int, end_offset=Int, is_absolute=Bool)
RBaseT = Rec('BaseAddressEntry', entry_offset=Nat, base_address=Nat)
LocEntryT = Rec('LocationEntry', entry_offset=Nat, entry_length=Nat, begin_offset=Int, end_offset=Int, loc_expr=ListOf(U8), is_absolute=Bool)
LBaseT = Rec('BaseAddressEntry', entry_offset=Nat, entry_length=Nat, base_address=Nat)
FIELD = dict(index=Nat, start_index=Nat, end_index=Nat, length=Nat, start_offset=Nat, end_offset=Nat, address=Nat,
             start_address=Nat, end_address=Nat, loc_expr=ListOf(U8))


@contract("elftools/dwarf/dwarfinfo.py", "DWARFInfo.get_addr", props=["C07"])
class get_addr:
    """the address at an index of the unit's address table (7.27): the address-sized word at
    DW_AT_addr_base + index * address_size of .debug_addr; no section, no address"""
    params = dict(self=SameAs('cu.dwarfinfo'), cu=CUArg, addr_index=Nat)
    returns = Nat
    modifies = ["*rep"]         # the unit's root entry may be parsed and cached on the way
    ensures = ["self.debug_addr_sec is not None", "has_base(cu, 'DW_AT_addr_base')", "result == gaddr(cu, addr_index)",
               "not old(has_top(cu)) or cu.dwarfinfo.debug_info_sec.stream.pos == old(cu.dwarfinfo.debug_info_sec.stream.pos)", "not old(has_top(cu)) or has_top(cu)"]
    may_raise = ["DWARFError", "ELFParseError", "OverflowError", "KeyError"]


def _tr(relpath, qual, kind, fields, ret, ensures, doc):
    """contract of one entry translator: the parameter carries exactly the fields the DWARF entry
    kind has (7.7.3 / 7.25), so reading any other field is an AttributeError on the proof path"""
    shape = Rec(**dict(COMMON, **{f: FIELD[f] for f in fields}))

    @contract(relpath, qual, props=["C07"])
    class _t:
        __doc__ = doc
        params = dict(e=shape, cu=CUArg)
        modifies = ["*rep"]
        returns = ret
        may_raise = ["DWARFError", "ELFParseError", "OverflowError", "KeyError"]
    c = REGISTRY[(relpath, qual)]
    c.ensures = ["is_kind(result, '%s')" % ret.kind, "result.entry_offset == e.entry_offset"] + list(ensures)
    c.entry_kind = kind
    return _t


R = "elftools/dwarf/ranges.py"
RNG = ["result.entry_length == e.entry_length"]
_tr(R, "_translate_startx_length", 'DW_RLE_startx_length', ['start_index', 'length'], RangeEntryT,
    RNG + ["result.begin_offset == gaddr(cu, e.start_index)", "result.end_offset == gaddr(cu, e.start_index) + e.length",
           "result.is_absolute == True"], "DW_RLE_startx_length: [addr(start_index), addr(start_index) + length)")
# lambdas of ranges.entry_translate in source order
_tr(R, "<lambda>0", 'DW_RLE_base_address', ['address'], RBaseT, ["result.base_address == e.address"], "DW_RLE_base_address")
_tr(R, "<lambda>1", 'DW_RLE_offset_pair', ['start_offset', 'end_offset'], RangeEntryT,
    RNG + ["result.begin_offset == e.start_offset", "result.end_offset == e.end_offset", "result.is_absolute == False"],
    "DW_RLE_offset_pair: relative to the base")
_tr(R, "<lambda>2", 'DW_RLE_start_end', ['start_address', 'end_address'], RangeEntryT,
    RNG + ["result.begin_offset == e.start_address", "result.end_offset == e.end_address", "result.is_absolute == True"],
    "DW_RLE_start_end")
_tr(R, "<lambda>3", 'DW_RLE_start_length', ['start_address', 'length'], RangeEntryT,
    RNG + ["result.begin_offset == e.start_address", "result.end_offset == e.start_address + e.length",
           "result.is_absolute == True"], "DW_RLE_start_length: [start, start + length)")
_tr(R, "<lambda>4", 'DW_RLE_base_addressx', ['index'], RBaseT, ["result.base_address == gaddr(cu, e.index)"], "DW_RLE_base_addressx")
_tr(R, "<lambda>5", 'DW_RLE_startx_endx', ['start_index', 'end_index'], RangeEntryT,
    RNG + ["result.begin_offset == gaddr(cu, e.start_index)", "result.end_offset == gaddr(cu, e.end_index)",
           "result.is_absolute == True"], "DW_RLE_startx_endx")

L = "elftools/dwarf/locationlists.py"
LOC = ["result.entry_length == e.entry_length", "len(result.loc_expr) == len(e.loc_expr)",
       "forall(lambda i: result.loc_expr[i] == e.loc_expr[i], 0, len(e.loc_expr))"]
_tr(L, "_translate_startx_length", 'DW_LLE_startx_length', ['start_index', 'length', 'loc_expr'], LocEntryT,
    LOC + ["result.begin_offset == gaddr(cu, e.start_index)", "result.end_offset == gaddr(cu, e.start_index) + e.length",
           "result.is_absolute == True"], "DW_LLE_startx_length")
_tr(L, "<lambda>0", 'DW_LLE_base_address', ['address'], LBaseT,
    ["result.base_address == e.address", "result.entry_length == e.entry_length"], "DW_LLE_base_address")
_tr(L, "<lambda>1", 'DW_LLE_offset_pair', ['start_offset', 'end_offset', 'loc_expr'], LocEntryT,
    LOC + ["result.begin_offset == e.start_offset", "result.end_offset == e.end_offset", "result.is_absolute == False"],
    "DW_LLE_offset_pair")
_tr(L, "<lambda>2", 'DW_LLE_start_length', ['start_address', 'length', 'loc_expr'], LocEntryT,
    LOC + ["result.begin_offset == e.start_address", "result.end_offset == e.start_address + e.length",
           "result.is_absolute == True"], "DW_LLE_start_length")
_tr(L, "<lambda>3", 'DW_LLE_start_end', ['start_address', 'end_address', 'loc_expr'], LocEntryT,
    LOC + ["result.begin_offset == e.start_address", "result.end_offset == e.end_address", "result.is_absolute == True"],
    "DW_LLE_start_end")
_tr(L, "<lambda>4", 'DW_LLE_default_location', ['loc_expr'], LocEntryT,
    LOC + ["result.begin_offset == -1", "result.end_offset == -1", "result.is_absolute == True"], "DW_LLE_default_location")
_tr(L, "<lambda>5", 'DW_LLE_base_addressx', ['index'], LBaseT,
    ["result.base_address == gaddr(cu, e.index)", "result.entry_length == e.entry_length"], "DW_LLE_base_addressx")
_tr(L, "<lambda>6", 'DW_LLE_startx_endx', ['start_index', 'end_index', 'loc_expr'], LocEntryT,
    LOC + ["result.begin_offset == gaddr(cu, e.start_index)", "result.end_offset == gaddr(cu, e.end_index)",
           "result.is_absolute == True"], "DW_LLE_startx_endx")


def kind_clauses(relpath, elem, src):
    """for each entry kind: the translated element `elem` is what the kind's translator contract
    states about the raw entry `src` (contract text reused, e -> src, result -> elem)"""
    import re
    out = []
    for (rp, q), c in sorted(REGISTRY.items()):
        if rp != relpath or not getattr(c, 'entry_kind', None):
            continue
        body = ' and '.join('(%s)' % x for x in c.ensures)
        body = re.sub(r'\bresult\b', elem, body)
        body = re.sub(r'\be\.', src + '.', body)
        out.append("%s.entry_type != '%s' or (%s)" % (src, c.entry_kind, body))
    return out


RLT = Obj('RangeLists', stream=Stream, structs=StructsT, _max_addr=Nat, version=Choice(4, 5), _dwarfinfo=Any)
RElemT = Tagged(RBaseT, RangeEntryT)
V4R_INV = ["forall(lambda j: word_at_addr($B, $p + 2 * $W * j, $W) != 0 or word_at_addr($B, $p + 2 * $W * j + $W, $W) != 0, 0, %s)",
           "forall(lambda j: lst[j].entry_offset == $p + 2 * $W * j, 0, %s)",
           "forall(lambda j: is_kind(lst[j], 'BaseAddressEntry') == (word_at_addr($B, $p + 2 * $W * j, $W) == self._max_addr), 0, %s)",
           "forall(lambda j: is_kind(lst[j], 'RangeEntry') == (word_at_addr($B, $p + 2 * $W * j, $W) != self._max_addr), 0, %s)",
           "forall(lambda j: not is_kind(lst[j], 'BaseAddressEntry') or lst[j].base_address == word_at_addr($B, $p + 2 * $W * j + $W, $W), 0, %s)",
           "forall(lambda j: not is_kind(lst[j], 'RangeEntry') or (lst[j].begin_offset == word_at_addr($B, $p + 2 * $W * j, $W)"
           " and lst[j].end_offset == word_at_addr($B, $p + 2 * $W * j + $W, $W) and lst[j].entry_length == 2 * $W"
           " and lst[j].is_absolute == False), 0, %s)"]


@contract(R, "RangeLists._parse_range_list_from_stream", props=["C07"])
class parse_range_list:
    """pre-v5 (7.7.3 of v4 / 2.17.3): pairs of address-sized words up to (0, 0); a first word of all ones is a
    base address selection.  v5: the decoded entries (layout K2) translated kind by kind."""
    params = dict(self=RLT, cu=CUArg)
    requires = ["self._max_addr == (2**32 - 1 if self.structs.address_size == 4 else 2**64 - 1)"]
    ghost = {"$B": "self.stream.B", "$p": "self.stream.pos", "$W": "self.structs.address_size"}
    returns = ListOf(RElemT)
    loops = {0: dict(
        invariant=["self.stream.pos == $p + 2 * $W * $k", "len(lst) == $k"] + [x % '$k' for x in V4R_INV],
        shapes={"lst": ListOf(RElemT)},
        variant="len($B) + 1 - self.stream.pos")}
    maps = {0: dict(elem=RElemT, ensures=kind_clauses(R, 'value', 'entry'), rep=True)}
    modifies = ["*rep"]
    ensures = ["self.version >= 5 or (word_at_addr($B, $p + 2 * $W * len(result), $W) == 0 and word_at_addr($B, $p + 2 * $W * len(result) + $W, $W) == 0)"] + \
              ["self.version >= 5 or " + (x % 'len(result)').replace('lst[', 'result[') for x in V4R_INV] + \
              ["self.version < 5 or len(result) == len(rnglist_at($B, $p))"] + \
              ["self.version < 5 or forall(lambda j: %s, 0, len(result))" % c
               for c in kind_clauses(R, 'result[j]', 'rnglist_at($B, $p)[j]')]
    may_raise = ["ELFParseError", "DWARFError", "OverflowError", "KeyError"]


LLT = Obj('LocationLists', stream=Stream, structs=StructsT, _max_addr=Nat, version=Choice(4, 5), dwarfinfo=Any)
LElemT = Tagged(LBaseT, LocEntryT)
OFFJ = "loc_off($B, $p, $W, j)"
V4L_INV = ["forall(lambda j: word_at_addr($B, OFFJ, $W) != 0 or word_at_addr($B, OFFJ + $W, $W) != 0, 0, %s)",
           "forall(lambda j: lst[j].entry_offset == OFFJ, 0, %s)",
           "forall(lambda j: lst[j].entry_length == loc_off($B, $p, $W, j + 1) - OFFJ, 0, %s)",
           "forall(lambda j: is_kind(lst[j], 'BaseAddressEntry') == (word_at_addr($B, OFFJ, $W) == self._max_addr), 0, %s)",
           "forall(lambda j: is_kind(lst[j], 'LocationEntry') == (word_at_addr($B, OFFJ, $W) != self._max_addr), 0, %s)",
           "forall(lambda j: not is_kind(lst[j], 'BaseAddressEntry') or lst[j].base_address == word_at_addr($B, OFFJ + $W, $W), 0, %s)",
           "forall(lambda j: not is_kind(lst[j], 'LocationEntry') or (lst[j].begin_offset == word_at_addr($B, OFFJ, $W)"
           " and lst[j].end_offset == word_at_addr($B, OFFJ + $W, $W) and lst[j].is_absolute == False"
           " and len(lst[j].loc_expr) == u16_at($B, OFFJ + 2 * $W)), 0, %s)",
           "forall(lambda j, i: not is_kind(lst[j], 'LocationEntry') or i >= u16_at($B, OFFJ + 2 * $W)"
           " or lst[j].loc_expr[i] == $B[OFFJ + 2 * $W + 2 + i], 0, %s, 0, 65536)"]
V4L_INV = [x.replace('OFFJ', OFFJ) for x in V4L_INV]


@contract(L, "LocationLists._parse_location_list_from_stream", props=["C07"])
class parse_location_list_v4:
    """pre-v5 (2.6.2 / 7.7.3 of v4): entries up to the (0, 0) pair; a first word of all ones selects a base
    address (2W bytes); a location entry is two words, a 2-byte expression length and the expression"""
    params = dict(self=LLT)
    requires = ["self._max_addr == (2**32 - 1 if self.structs.address_size == 4 else 2**64 - 1)"]
    ghost = {"$B": "self.stream.B", "$p": "self.stream.pos", "$W": "self.structs.address_size"}
    returns = ListOf(LElemT)
    loops = {0: dict(
        invariant=["self.stream.pos == loc_off($B, $p, $W, $k)", "len(lst) == $k"] + [x % '$k' for x in V4L_INV],
        shapes={"lst": ListOf(LElemT)},
        variant="len($B) + 1 - self.stream.pos")}
    ensures = ["word_at_addr($B, loc_off($B, $p, $W, len(result)), $W) == 0 and word_at_addr($B, loc_off($B, $p, $W, len(result)) + $W, $W) == 0",
               "self.stream.pos == loc_off($B, $p, $W, len(result)) + 2 * $W"] + \
              [(x % 'len(result)').replace('lst[', 'result[') for x in V4L_INV]
    may_raise = ["ELFParseError", "OverflowError"]


@contract(L, "LocationLists._parse_location_list_from_stream_v5", props=["C07"])
class parse_location_list_v5:
    """v5: the decoded entries (layout K2) translated kind by kind with the unit's address table"""
    params = dict(self=LLT, cu=CUArg)
    ghost = {"$B": "self.stream.B", "$p": "self.stream.pos"}
    returns = ListOf(LElemT)
    maps = {0: dict(elem=LElemT, ensures=kind_clauses(L, 'value', 'entry'), rep=True)}
    modifies = ["*rep"]
    ensures = ["len(result) == len(loclist_at($B, $p))"] + \
              ["forall(lambda j: %s, 0, len(result))" % c for c in kind_clauses(L, 'result[j]', 'loclist_at($B, $p)[j]')]
    may_raise = ["ELFParseError", "DWARFError", "OverflowError", "KeyError"]
