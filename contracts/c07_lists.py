from pyvc.contracts import contract
from pyvc.shapes import *
from specs.dwarf import StructsT, CUT
from specs.lists import gaddr, word_at_addr, pair_off, loc_next

CUArg = Obj('CompileUnit', dwarfinfo=Obj('DWARFInfo', debug_addr_sec=Any), header=Rec(version=U16, address_size=U8), structs=StructsT)
RE = lambda **f: Rec(**f)
RLEntry = Rec(entry_offset=Nat, entry_length=Nat, entry_type=CodeT(8), address=Nat, start_offset=Nat, end_offset=Nat,
              start_address=Nat, end_address=Nat, length=Nat, index=Nat, start_index=Nat, end_index=Nat)
LLEntry = RLEntry.extend(loc_expr=ListOf(U8))


@contract("elftools/dwarf/dwarfinfo.py", "DWARFInfo.get_addr", props=["C07"])
class get_addr:
    """(assumed at the translators' call sites) the address at index: .debug_addr[addr_base + index * address_size]"""
    mode = 'assume'
    returns = Nat
    ensures = ["result == gaddr(cu, addr_index)"]
    may_raise = ["DWARFError", "ELFParseError", "OverflowError"]


def _tr(relpath, qual, params_shape, ensures, doc):
    @contract(relpath, qual, props=["C07"])
    class _t:
        __doc__ = doc
        params = dict(e=params_shape, cu=CUArg)
        returns = Any
        may_raise = ["DWARFError", "ELFParseError", "OverflowError"]
    _t_ensures = ensures
    from pyvc.contracts import REGISTRY
    REGISTRY[(relpath, qual)].ensures = list(ensures)
    return _t


R = "elftools/dwarf/ranges.py"
_tr(R, "_translate_startx_length", RLEntry,
    ["result.begin_offset == gaddr(cu, e.start_index)", "result.end_offset == gaddr(cu, e.start_index) + e.length",
     "result.is_absolute == True", "result.entry_offset == e.entry_offset", "result.entry_length == e.entry_length"],
    "DW_RLE_startx_length: [addr(start_index), addr(start_index) + length)")
# lambdas of ranges.entry_translate in source order: base_address, offset_pair, start_end, start_length, base_addressx, startx_endx
_tr(R, "<lambda>0", RLEntry, ["result.entry_offset == e.entry_offset", "result.base_address == e.address"], "DW_RLE_base_address")
_tr(R, "<lambda>1", RLEntry, ["result.begin_offset == e.start_offset", "result.end_offset == e.end_offset",
                              "result.is_absolute == False", "result.entry_length == e.entry_length"], "DW_RLE_offset_pair: relative to the base")
_tr(R, "<lambda>2", RLEntry, ["result.begin_offset == e.start_address", "result.end_offset == e.end_address",
                              "result.is_absolute == True"], "DW_RLE_start_end")
_tr(R, "<lambda>3", RLEntry, ["result.begin_offset == e.start_address", "result.end_offset == e.start_address + e.length",
                              "result.is_absolute == True"], "DW_RLE_start_length: [start, start + length)")
_tr(R, "<lambda>4", RLEntry, ["result.base_address == gaddr(cu, e.index)", "result.entry_offset == e.entry_offset"], "DW_RLE_base_addressx")
_tr(R, "<lambda>5", RLEntry, ["result.begin_offset == gaddr(cu, e.start_index)", "result.end_offset == gaddr(cu, e.end_index)",
                              "result.is_absolute == True"], "DW_RLE_startx_endx")

L = "elftools/dwarf/locationlists.py"
_tr(L, "_translate_startx_length", LLEntry,
    ["result.begin_offset == gaddr(cu, e.start_index)", "result.end_offset == gaddr(cu, e.start_index) + e.length",
     "result.is_absolute == True", "result.loc_expr is e.loc_expr", "result.entry_offset == e.entry_offset"],
    "DW_LLE_startx_length")
_tr(L, "<lambda>0", LLEntry, ["result.base_address == e.address", "result.entry_offset == e.entry_offset",
                              "result.entry_length == e.entry_length"], "DW_LLE_base_address")
_tr(L, "<lambda>1", LLEntry, ["result.begin_offset == e.start_offset", "result.end_offset == e.end_offset",
                              "result.is_absolute == False", "result.loc_expr is e.loc_expr"], "DW_LLE_offset_pair")
_tr(L, "<lambda>2", LLEntry, ["result.begin_offset == e.start_address", "result.end_offset == e.start_address + e.length",
                              "result.is_absolute == True", "result.loc_expr is e.loc_expr"], "DW_LLE_start_length")
_tr(L, "<lambda>3", LLEntry, ["result.begin_offset == e.start_address", "result.end_offset == e.end_address",
                              "result.is_absolute == True"], "DW_LLE_start_end")
_tr(L, "<lambda>4", LLEntry, ["result.begin_offset == -1", "result.end_offset == -1", "result.loc_expr is e.loc_expr"], "DW_LLE_default_location")
_tr(L, "<lambda>5", LLEntry, ["result.base_address == gaddr(cu, e.index)"], "DW_LLE_base_addressx")
_tr(L, "<lambda>6", LLEntry, ["result.begin_offset == gaddr(cu, e.start_index)", "result.end_offset == gaddr(cu, e.end_index)",
                              "result.is_absolute == True", "result.loc_expr is e.loc_expr"], "DW_LLE_startx_endx")


RLT = Obj('RangeLists', stream=Stream, structs=StructsT, _max_addr=Nat, version=Const(4), _dwarfinfo=Any)


@contract(R, "RangeLists._parse_range_list_from_stream", props=["C07"])
class parse_range_list_v4:
    """pre-v5 list: pairs of address-sized words up to (0, 0); a first word of all ones selects a base address"""
    params = dict(self=RLT, cu=Any)
    requires = ["self._max_addr == 2**(8 * self.structs.address_size) - 1",
                "self.structs.address_size == 4 or self.structs.address_size == 8"]
    ghost = {"$B": "self.stream.B", "$p": "self.stream.pos", "$W": "self.structs.address_size"}
    returns = ListOf(Any)
    loops = {0: dict(
        invariant=["self.stream.pos == $p + 2 * $W * $k", "len(lst) == $k",
                   "forall(lambda j: word_at_addr($B, $p + 2 * $W * j) != 0 or word_at_addr($B, $p + 2 * $W * j + $W) != 0, 0, $k)",
                   "forall(lambda j: lst[j].entry_offset == $p + 2 * $W * j, 0, $k)"],
        shapes={"lst": ListOf(Rec(entry_offset=Nat))},
        step=["True"],
        variant="len($B) + 1 - self.stream.pos")}
    ensures = ["word_at_addr($B, $p + 2 * $W * len(result)) == 0 and word_at_addr($B, $p + 2 * $W * len(result) + $W) == 0",
               "forall(lambda j: word_at_addr($B, $p + 2 * $W * j) != 0 or word_at_addr($B, $p + 2 * $W * j + $W) != 0, 0, len(result))",
               "forall(lambda j: result[j].entry_offset == $p + 2 * $W * j, 0, len(result))"]
    may_raise = ["ELFParseError"]
