"""C04 / C10: the per-unit entry cache, lookups by offset, children iteration against the
structural tree specification (specs/die.py)."""
from pyvc.contracts import contract
from pyvc.shapes import *
from specs.die import (has_top, die_at, child_off, is_null_at, term_off, subtree_end, nchildren_def, size_at, has_children_at,
                       attr_has, attr_form, attr_value, attr_raw, siblings_wellformed,
                       unit_stream, unit_die_offset)
from specs.lists import has_base, base_of
from contracts._dwarf_shapes import *

CU = "elftools/dwarf/compileunit.py"
DIEF = "elftools/dwarf/die.py"
PARSE_EXC = ["ELFParseError", "DWARFError", "OverflowError", "KeyError"]
BASES = ('DW_AT_rnglists_base', 'DW_AT_loclists_base', 'DW_AT_str_offsets_base', 'DW_AT_addr_base')


@contract(DIEF, "DIE.__init__", props=["C04", "C10", "C07"])
class die_init:
    """(assumed at the cache's call sites; the parse itself is _parse_DIE) a new entry object for
    (unit, offset) read from the unit's section stream: every observable is the function of
    (section bytes, unit, offset) of specs/die.py"""
    mode = 'assume'
    # the second precondition is _parse_DIE's: an entry is constructed only when the unit's root entry is cached or is
    # the entry itself (otherwise resolving an index form would parse the root from the same stream mid-entry)
    requires = ["stream is unit_stream(cu)", "has_top(cu) or offset == unit_die_offset(cu)"]
    sets = dict(cu="cu", stream="stream", offset="offset", _terminator="None", _parent="None")
    sets_shape = dict(size=Nat, abbrev_code=Nat, tag=SymOpt(CodeT(32)), has_children=SymOpt(Bool), attributes=DictOf(AttrT))
    ensures = ["die_at(self, cu, offset)"]
    may_raise = PARSE_EXC


@contract(DIEF, "DIE._translate_indirect_attributes", props=["C04", "C10", "C07"])
class translate_indirect_attributes:
    """(assumed) replaces the values of index-form attributes of the root entry by their resolved
    values; presence, forms, raw values and non-index values are unchanged"""
    mode = 'assume'
    sets_shape = dict(attributes=DictOf(AttrT))
    ensures = ["die_at(self, self.cu, self.offset)"]
    may_raise = PARSE_EXC


@contract(CU, "CompileUnit.get_top_DIE", props=["C04", "C10", "C07"])
class get_top_die:
    """the unit's root entry: the entry at cu_die_offset, parsed once and kept first in the cache"""
    params = dict(self=CUFull)
    modifies = ["self._dielist", "self._diemap"]
    havoc_shapes = CACHE_SHAPES
    returns = DIET
    ensures = ["die_at(result, self, self.cu_die_offset)", "result.stream is self.dwarfinfo.debug_info_sec.stream",
               "len(self._diemap) >= 1",
               # a cached root entry is returned without touching the section stream
               "not old(has_top(self)) or self.dwarfinfo.debug_info_sec.stream.pos == old(self.dwarfinfo.debug_info_sec.stream.pos)"] + DIE_RI + \
              ["('%s' in result.attributes) == has_base(self, '%s')" % (b, b) for b in BASES] + \
              ["not has_base(self, '%s') or result.attributes['%s'].value == base_of(self, '%s')" % (b, b, b) for b in BASES]
    may_raise = PARSE_EXC


@contract(CU, "CompileUnit.has_top_DIE", props=["C04", "C10"])
class has_top_die:
    """whether the root entry is cached (the one query that exposes the cache: used only to postpone the
    resolution of the root entry's own index forms)"""
    params = dict(self=CUFull)
    rep_reader = True
    pure = True
    returns = Bool
    ensures = ["result == has_top(self)"]


@contract(CU, "CompileUnit._get_cached_DIE", props=["C04", "C10"])
class get_cached_die:
    """the entry at `offset`: what a fresh parse at that offset yields, whatever the cache holds;
    the cache stays sorted, duplicate free and exact"""
    params = dict(self=CUFull, offset=Nat)
    requires = ["offset >= self.cu_die_offset"]
    modifies = ["self._dielist", "self._diemap"]
    havoc_shapes = CACHE_SHAPES
    returns = DIET
    ensures = ["die_at(result, self, offset)"] + DIE_RI
    may_raise = PARSE_EXC


@contract(CU, "CompileUnit.get_DIE_from_refaddr", props=["C04", "C10"])
class cu_get_die_from_refaddr:
    """a reference into this unit resolves to the entry at the designated offset; offsets outside
    the unit's entries are rejected"""
    params = dict(self=CUFull, refaddr=Int)
    modifies = ["*rep"]
    own_raises = {"DWARFError": "not (self.cu_die_offset <= refaddr and refaddr < self.cu_offset + self.header.unit_length"
                                " + (4 if self.structs.dwarf_format == 32 else 12))"}
    returns = DIET
    ensures = ["die_at(result, self, refaddr)", "self.cu_die_offset <= refaddr",
               "refaddr < self.cu_offset + self.header.unit_length + (4 if self.structs.dwarf_format == 32 else 12)"] + DIE_RI
    may_raise = PARSE_EXC


@contract(DIEF, "DIE.set_parent", props=["C04", "C10"])
class set_parent:
    inline = True


@contract(DIEF, "DIE.is_null", props=["C04", "C10"])
class is_null:
    inline = True


@contract(CU, "CompileUnit.iter_DIE_children", props=["C04", "C10"])
class iter_die_children:
    """the children of an entry in order: the first follows the parent, each next one follows the
    whole subtree of the previous (child_off), up to the null entry, which is recorded as the
    parent's terminator; a DW_AT_sibling shortcut gives the same offsets on well-formed input"""
    params = dict(self=CUFull, die=DIET)
    requires = ["die_at(die, self, die.offset)", "die.offset >= self.cu_die_offset", "siblings_wellformed(self)"]
    axioms = ["nchildren_def(self, die.offset)"]
    yield_shape = DIET
    yield_havoc = ["*rep"]
    modifies = ["*rep", "die._terminator"]
    havoc_shapes = CACHE_SHAPES
    loops = {0: dict(invariant=["cur_offset == child_off(self, die.offset, $k)", "$k == $n", "die.has_children == True",
                                "forall(lambda j: not is_null_at(self, child_off(self, die.offset, j)), 0, $k)",
                                "cur_offset > die.offset"] + DIE_RI),
             1: dict(invariant=[])}
    each_yield = ["die_at(value, self, child_off(self, die.offset, $n))", "not is_null_at(self, child_off(self, die.offset, $n))",
                  "@check value._parent is die"]
    ensures = ["die.has_children == True or $n == 0",
               "die.has_children != True or (die._terminator is not None and die._terminator.offset == child_off(self, die.offset, $n)"
               " and is_null_at(self, child_off(self, die.offset, $n)))",
               "die.has_children != True or die._terminator.offset == term_off(self, die.offset)",
               "die.has_children != True or die._terminator.size == size_at(self, term_off(self, die.offset))",
               "forall(lambda j: not is_null_at(self, child_off(self, die.offset, j)), 0, $n)"] + DIE_RI
    may_raise = PARSE_EXC + ["NotImplementedError"]


from specs.contents import cstr_end
from specs.lists import gaddr, offset_word
from specs.die import has_top

for _q in ("DWARFInfo.get_string_from_table", "DWARFInfo.get_string_from_linetable"):
    @contract("elftools/dwarf/dwarfinfo.py", _q, props=["C04"])
    class _inl:
        inline = True

ADDRX = "(form == 'DW_FORM_addrx' or form == 'DW_FORM_addrx1' or form == 'DW_FORM_addrx2' or form == 'DW_FORM_addrx3' or form == 'DW_FORM_addrx4')"
STRX = "(form == 'DW_FORM_strx' or form == 'DW_FORM_strx1' or form == 'DW_FORM_strx2' or form == 'DW_FORM_strx3' or form == 'DW_FORM_strx4')"
SUPS = "(form == 'DW_FORM_GNU_strp_alt' or form == 'DW_FORM_strp_sup')"
OSZ = "(4 if self.cu.structs.dwarf_format == 32 else 8)"


ALL_FORMS = ('DW_FORM_strp', 'DW_FORM_line_strp', 'DW_FORM_GNU_strp_alt', 'DW_FORM_strp_sup', 'DW_FORM_flag', 'DW_FORM_flag_present',
             'DW_FORM_addrx', 'DW_FORM_addrx1', 'DW_FORM_addrx2', 'DW_FORM_addrx3', 'DW_FORM_addrx4', 'DW_FORM_strx', 'DW_FORM_strx1',
             'DW_FORM_strx2', 'DW_FORM_strx3', 'DW_FORM_strx4', 'DW_FORM_loclistx', 'DW_FORM_rnglistx',
             # representatives of the forms whose value is the raw value
             'DW_FORM_addr', 'DW_FORM_data1', 'DW_FORM_sec_offset', 'DW_FORM_ref4', 'DW_FORM_exprloc', 'DW_FORM_indirect',
             'DW_FORM_implicit_const')


def _cstr(sec, off):
    return "(%s.stream.B[%s : cstr_end(%s.stream.B, %s)] if exists(lambda j: %s.stream.B[j] == 0, %s, len(%s.stream.B)) else None)" % (
        sec, off, sec, off, sec, off, sec)


@contract(DIEF, "DIE._translate_attr_value", props=["C04", "C07"])
class translate_attr_value:
    """resolved value of an attribute (DWARF v5 7.5.5, 7.26, 7.27, 7.28, 7.29): strings through the string
    tables, flags as booleans, index forms through the unit's tables -- entry width from the unit's
    format, bases from the unit's root entry -- everything else unchanged.  The index forms of the root
    entry itself are resolved later (after the entry has been read to its end), which is the only place
    where the state of the entry cache is consulted."""
    params = dict(self=Obj('DIE', cu=CUFull, dwarfinfo=Alias('cu.dwarfinfo'), offset=Nat, stream=InfoStream), form=OneOf(*ALL_FORMS),
                  raw_value=Nat)
    requires = ["self.offset >= self.cu.cu_die_offset"]
    ghost = {"$t": "has_top(self.cu) or self.offset != self.cu.cu_die_offset", "$D": "self.cu.dwarfinfo"}
    modifies = ["*rep"]
    returns = Any
    ensures = [
        "form != 'DW_FORM_strp' or result == " + _cstr("$D.debug_str_sec", "raw_value"),
        "form != 'DW_FORM_line_strp' or result == " + _cstr("$D.debug_line_str_sec", "raw_value"),
        "not (%s and $D.supplementary_dwarfinfo is not None) or result == %s" % (SUPS, _cstr("$D.supplementary_dwarfinfo.debug_str_sec", "raw_value")),
        "form != 'DW_FORM_flag' or result == (raw_value != 0)",
        "form != 'DW_FORM_flag_present' or result == True",
        "not (%s and $t) or result == gaddr(self.cu, raw_value)" % ADDRX,
        "not (%s and $t) or result == %s" % (STRX, _cstr("$D.debug_str_sec",
            "offset_word($D.debug_str_offsets_sec.stream.B, base_of(self.cu, 'DW_AT_str_offsets_base') + raw_value * %s, self.cu.structs.dwarf_format)" % OSZ)),
        "not (form == 'DW_FORM_loclistx' and $t) or result == base_of(self.cu, 'DW_AT_loclists_base') + "
        "offset_word($D.debug_loclists_sec.stream.B, base_of(self.cu, 'DW_AT_loclists_base') + raw_value * %s, self.cu.structs.dwarf_format)" % OSZ,
        "not (form == 'DW_FORM_rnglistx' and $t) or result == base_of(self.cu, 'DW_AT_rnglists_base') + "
        "offset_word($D.debug_rnglists_sec.stream.B, base_of(self.cu, 'DW_AT_rnglists_base') + raw_value * %s, self.cu.structs.dwarf_format)" % OSZ,
        # everything else, and the root entry's index forms before the root is complete, is the raw value
        "(form == 'DW_FORM_strp' or form == 'DW_FORM_line_strp' or (%s and $D.supplementary_dwarfinfo is not None) or form == 'DW_FORM_flag'"
        " or form == 'DW_FORM_flag_present' or ((%s or %s or form == 'DW_FORM_loclistx' or form == 'DW_FORM_rnglistx') and $t))"
        " or result == raw_value" % (SUPS, ADDRX, STRX),
        # the entry's own stream (.debug_info) is left where it was, provided the unit's root entry need not be parsed
        # on the way: it is cached, or this entry is the root entry itself (whose index forms are resolved later)
        "not (old(has_top(self.cu)) or self.offset == self.cu.cu_die_offset) or self.stream.pos == old(self.stream.pos)",
        "not old(has_top(self.cu)) or has_top(self.cu)"]          # the entry cache only grows
    may_raise = ["ELFParseError", "DWARFError", "OverflowError", "KeyError"]


# ---------------------------------------------------------------- the parse of one entry
from specs.dieparse import form_val, form_end, uleb_val, uleb_next, ind_q, form_name
from specs.dwarf import StructsT as DwStructs

DieP = Obj('DIE', cu=Obj('CompileUnit', structs=DwStructs), stream=Stream, offset=Nat)
IND = "'DW_FORM_indirect'"


@contract(DIEF, "DIE._resolve_indirect", props=["C04"])
class resolve_indirect:
    """DW_FORM_indirect (7.5.3) with arbitrary nesting: the form codes are adjacent ULEB128 numbers q0, q1, ...; the
    first code that is not DW_FORM_indirect names the real form, whose value follows; the length is the number of
    codes read; an unknown code is rejected"""
    params = dict(self=DieP)
    ghost = {"$B": "self.stream.B", "$p": "self.stream.pos", "$S": "self.cu.structs"}
    returns = TupleT(Str, Int, Nat)
    loops = {0: dict(invariant=["length == $k + 1", "self.stream.pos == ind_q($B, $p, $k + 1)",
                                "real_form_code == uleb_val($B, ind_q($B, $p, $k))",
                                "forall(lambda j: form_name(uleb_val($B, ind_q($B, $p, j))) == %s, 0, $k)" % IND],
                     variant="len($B) + 1 - self.stream.pos")}
    ensures = ["result[2] >= 1",
               "result[0] == form_name(uleb_val($B, ind_q($B, $p, result[2] - 1)))", "result[0] != %s" % IND,
               "forall(lambda j: form_name(uleb_val($B, ind_q($B, $p, j))) == %s, 0, result[2] - 1)" % IND,
               "result[1] == form_val($B, ind_q($B, $p, result[2]), result[0], $S)",
               "self.stream.pos == form_end($B, ind_q($B, $p, result[2]), result[0], $S)"]
    may_raise = ["DWARFError", "ELFParseError", "KeyError"]


SpecT = Rec('AttrSpec', name=CodeT(16), form=CodeT(16), value=Int)
DeclT = Obj('AbbrevDecl', decl=Rec(tag=CodeT(16), attr_spec=ListOf(SpecT)), _has_children=Bool, code=Nat)


# a table with its map in view; the invariant is what AbbrevTable._parse_abbrev_table establishes (contracts/c10_abbrev.py)
TableMapT = Obj('AbbrevTable', _inv=["forall(lambda c: not (c in self._abbrev_map) or self._abbrev_map[c].code == c)"],
                _abbrev_map=DictOf(DeclT))


@contract("elftools/dwarf/compileunit.py", "CompileUnit.get_abbrev_table", props=["C04"])
class get_abbrev_table:
    """(assumed) the abbreviation table of the unit (parsed once from .debug_abbrev at debug_abbrev_offset): the per-unit memo
    of DWARFInfo.get_abbrev_table (under contract), whose tables AbbrevTable.__init__ builds (under contract)"""
    mode = 'assume'
    returns = TableMapT
    may_raise = ["ELFParseError", "OverflowError", "DWARFError"]


@contract("elftools/dwarf/abbrevtable.py", "AbbrevTable.get_abbrev", props=["C04"])
class get_abbrev:
    """the declaration registered under the code -- tag, child flag, attribute specifications in order (layout K2) --
    and KeyError exactly for a code the table does not declare; `_parse_abbrev_table` (contracts/c10_abbrev.py)
    establishes that every declaration is registered under its own code"""
    params = dict(self=TableMapT, code=Nat)
    returns = DeclT
    ensures = ["result.code == code", "code in self._abbrev_map"]
    raises = {"KeyError": "code not in self._abbrev_map"}


for _q in ("AbbrevDecl.__getitem__", "AbbrevDecl.has_children"):
    @contract("elftools/dwarf/abbrevtable.py", _q, props=["C04"])
    class _inl3:
        inline = True


DieFull = Obj('DIE', cu=CUFull, stream=InfoStream, offset=Nat, attributes=EmptyDict(), tag=NoneT,
              has_children=NoneT, abbrev_code=NoneT, size=Const(0), dwarfinfo=Alias('cu.dwarfinfo'))
A = "self.attributes[$sp.name]"


@contract(DIEF, "DIE._parse_DIE", props=["C04"])
class parse_die:
    """one entry (7.5.2): the abbreviation code is the ULEB128 number at the entry's offset; code 0 is a null entry of
    that size; otherwise tag and child flag come from the declaration of the code and the attributes are read in the
    order of the declaration, each starting where the previous one ended: name from the specification, offset of its
    first byte, final form / raw value / indirection length by form (implicit_const: the declaration's constant, no
    bytes; indirect: the chain of 7.5.3; otherwise the form's operand parser), the resolved value by
    _translate_attr_value (its own contract); the size is the distance from the offset to the end of the last attribute"""
    params = dict(self=DieFull)
    # the callers (get_top_DIE, _get_cached_DIE) construct entries only in these situations; otherwise resolving an
    # index form would parse the root entry from the same stream in the middle of this entry
    requires = ["self.offset >= self.cu.cu_die_offset", "has_top(self.cu) or self.offset == self.cu.cu_die_offset",
                "self.stream is self.cu.dwarfinfo.debug_info_sec.stream"]
    ghost = {"$B": "self.stream.B", "$S": "self.cu.structs", "$o": "self.offset"}
    loops = {0: dict(
        ghost_init={"$pos": "self.stream.pos"}, ghost_update={"$pos": "self.stream.pos"},
        ghost_step={"$a": "self.stream.pos", "$sp": "$seq0[$k]"},
        invariant=["self.stream.pos == $pos", "self.abbrev_code == uleb_val($B, $o)", "self.abbrev_code != 0",
                   "has_top(self.cu) or self.offset == self.cu.cu_die_offset"],
        step=[A + ".name == $sp.name", A + ".offset == $a",
              # implicit_const: the constant of the declaration, no bytes consumed
              "$sp.form != 'DW_FORM_implicit_const' or (%s.form == 'DW_FORM_implicit_const' and %s.value == $sp.value and"
              " %s.raw_value == $sp.value and %s.indirection_length == 0 and self.stream.pos == $a)" % (A, A, A, A),
              # indirect: chain of form codes from the attribute's offset
              "$sp.form != %s or (%s.indirection_length >= 1 and"
              " %s.form == form_name(uleb_val($B, ind_q($B, $a, %s.indirection_length - 1))) and %s.form != %s and"
              " %s.raw_value == form_val($B, ind_q($B, $a, %s.indirection_length), %s.form, $S) and"
              " self.stream.pos == form_end($B, ind_q($B, $a, %s.indirection_length), %s.form, $S))" % (IND, A, A, A, A, IND, A, A, A, A, A),
              # every other form: the form's operand parser at the attribute's offset
              "$sp.form == 'DW_FORM_implicit_const' or $sp.form == %s or (%s.form == $sp.form and %s.indirection_length == 0 and"
              " %s.raw_value == form_val($B, $a, $sp.form, $S) and self.stream.pos == form_end($B, $a, $sp.form, $S))" % (IND, A, A, A)],
        shapes={"self.attributes": CodeDictOf(Rec('AttributeValue', name=CodeT(16), form=CodeT(16), value=Any, raw_value=Int, offset=Nat,
                                                  indirection_length=Nat))})}
    ensures = ["self.abbrev_code == uleb_val($B, $o)",
               "self.abbrev_code != 0 or (self.size == uleb_next($B, $o) - $o and self.tag is None and self.has_children is None)",
               "self.abbrev_code == 0 or self.size == self.stream.pos - $o"]
    modifies = ["self.attributes", "self.tag", "self.has_children", "self.abbrev_code", "self.size", "*rep"]
    may_raise = ["ELFParseError", "DWARFError", "KeyError", "OverflowError"]
