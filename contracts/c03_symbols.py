from pyvc.contracts import contract
from pyvc.shapes import *
from contracts._shapes import *
from specs.elf import P, SZ, secname

StrTab = SectionT('StringTableSection')
SymTabT = SectionT('SymbolTableSection', stringtable=StrTab, _symbol_name_map=NoneT)
SymRet = Obj('Symbol', entry=SymT, name=Str)


@contract("elftools/elf/sections.py", "Symbol.__init__", props=["C03"])
class symbol_init:
    inline = True


@contract("elftools/elf/sections.py", "Symbol.__getitem__", props=["C03"])
class symbol_getitem:
    inline = True


@contract("elftools/elf/sections.py", "SymbolTableSection.num_symbols", props=["C03", "C19"])
class num_symbols:
    """gABI: the table holds sh_size / sh_entsize entries"""
    params = dict(self=SymTabT)
    requires = ["self.header.sh_entsize > 0"]
    returns = Int
    ensures = ["result == self.header.sh_size // self.header.sh_entsize"]


@contract("elftools/elf/sections.py", "SymbolTableSection.get_symbol", props=["C03"])
class get_symbol:
    """entry n lives at sh_offset + n * sh_entsize (entry sizes larger than the standard
    structure are legal); its name is the string at st_name in the linked string table"""
    params = dict(self=SymTabT, n=Nat)
    requires = ["self.structs.elfclass == self.elffile.elfclass"]
    returns = SymRet
    ghost = {"$o": "self.header.sh_offset + n * self.header.sh_entsize"}
    ensures = ["result.entry == P('Elf_Sym', self.stream.B, $o)",
               "result.name == secname(self.stringtable, result.entry.st_name)"]
    raises = {"ELFParseError": "$o + SZ('Elf_Sym', self.elffile.elfclass) > len(self.stream.B)",
              "OverflowError": "($o + SZ('Elf_Sym', self.elffile.elfclass) <= len(self.stream.B) and"
                               " self.stringtable.header.sh_offset + P('Elf_Sym', self.stream.B, $o).st_name >= 2**63)"}


@contract("elftools/elf/sections.py", "SymbolTableSection.iter_symbols", props=["C03", "C19"])
class iter_symbols:
    """exactly the encoded entries in index order"""
    params = dict(self=SymTabT)
    requires = ["self.structs.elfclass == self.elffile.elfclass", "self.header.sh_entsize > 0"]
    yield_shape = SymRet
    loops = {0: dict(invariant=["$k == $n"])}
    each_yield = ["value.entry == P('Elf_Sym', self.stream.B, self.header.sh_offset + $n * self.header.sh_entsize)",
                  "value.name == secname(self.stringtable, value.entry.st_name)"]
    ensures = ["$n == self.header.sh_size // self.header.sh_entsize"]
    may_raise = ["ELFParseError", "OverflowError"]


@contract("elftools/elf/sections.py", "SymbolTableSection.__init__", props=["C03", "C19"])
class symtab_init:
    """rejects a zero entry size and a size that is not a multiple of the entry size"""
    params = dict(self=Obj('SymbolTableSection'), header=ShdrT, name=Str, elffile=ELFFileT(), stringtable=StrTab)
    requires = ["elffile.structs.elfclass == elffile.elfclass"]
    sets = dict(header="header", name="name", elffile="elffile", stream="elffile.stream", structs="elffile.structs",
                stringtable="stringtable", _symbol_name_map="None")
    # (a compressed symbol table is legal: its compression header must then lie within the file)
    raises = {"ELFError": "header.sh_entsize == 0 or header.sh_size % header.sh_entsize != 0 or ((header.sh_flags // 0x800) % 2 == 1"
                          " and header.sh_offset + SZ('Elf_Chdr', elffile.elfclass) > len(elffile.stream.B))"}


@contract("elftools/elf/sections.py", "SymbolTableIndexSection.get_section_index", props=["C03"])
class get_section_index:
    """SHT_SYMTAB_SHNDX: one Elf32_Word per symbol"""
    params = dict(self=SectionT('SymbolTableIndexSection'), n=Nat)
    requires = ["self.structs.elfclass == self.elffile.elfclass"]
    returns = Int
    ghost = {"$o": "self.header.sh_offset + n * self.header.sh_entsize"}
    ensures = ["result == P('Elf_word', self.stream.B, $o)"]
    raises = {"ELFParseError": "$o + 4 > len(self.stream.B)"}


SyminfoT = SectionT('SUNWSyminfoTableSection', symboltable=SymTabT)


@contract("elftools/elf/sections.py", "SUNWSyminfoTableSection.num_symbols", props=["C03"])
class syminfo_num:
    """entry 0 holds the table version: size/entsize - 1 symbols"""
    params = dict(self=SyminfoT)
    requires = ["self.header.sh_entsize > 0"]
    returns = Int
    ensures = ["result == self.header.sh_size // self.header.sh_entsize - 1"]


@contract("elftools/elf/sections.py", "SUNWSyminfoTableSection.get_symbol", props=["C03"])
class syminfo_get:
    params = dict(self=SyminfoT, n=Nat)
    requires = ["self.structs.elfclass == self.elffile.elfclass",
                "self.symboltable.structs.elfclass == self.symboltable.elffile.elfclass"]
    returns = Obj('Symbol', entry=Rec(si_boundto=CodeT(16), si_flags=U16), name=Str)
    ghost = {"$o": "self.header.sh_offset + n * self.header.sh_entsize",
             "$so": "self.symboltable.header.sh_offset + n * self.symboltable.header.sh_entsize"}
    ensures = ["result.entry == P('Elf_Sunw_Syminfo', self.stream.B, $o)",
               "result.name == secname(self.symboltable.stringtable, P('Elf_Sym', self.symboltable.stream.B, $so).st_name)"]
    may_raise = ["ELFParseError", "OverflowError"]
from specs.hash import elfhash32, gnuhash32


@contract("elftools/elf/hash.py", "ELFHashTable.elf_hash", props=["C03", "C09"])
class elf_hash:
    """the gABI hash function, computed on 32-bit words (the value the linker stored)"""
    params = dict(name=Bytes)
    returns = Int
    loops = {0: dict(invariant=["h == elfhash32(name, $k)", "0 <= h", "h < 2**28"])}
    native_seeds = [dict(name=b'\xfc<=$\xbc7\xf0'), dict(name=b'\xff' * 9)]
    ensures = ["result == elfhash32(name, len(name))"]
    solver = dict(timeout_ms=60000)       # the step lemma takes z3 about 9 s on an idle machine: keep the verdict stable under load


@contract("elftools/elf/hash.py", "GNUHashTable.gnu_hash", props=["C03", "C09"])
class gnu_hash:
    """dl_new_hash: h = 5381; h = h*33 + c (mod 2^32)"""
    params = dict(key=Bytes)
    returns = Int
    loops = {0: dict(invariant=["h % 2**32 == gnuhash32(key, $k)", "h >= 0"])}
    ensures = ["result == gnuhash32(key, len(key))"]
from specs.hash import u32at

GnuParams = Rec(nbuckets=U32, symoffset=U32, bloom_size=U32, bloom_shift=U32, bloom=ListOf(U64), buckets=ListOf(U32))
GnuTabT = Obj('GNUHashTable', elffile=ELFFileT(), _symboltable=Any, params=GnuParams, _wordsize=Const(4),
              _xwordsize=Choice(4, 8), _chain_pos=Nat)


@contract("elftools/elf/hash.py", "GNUHashTable.get_number_of_symbols", props=["C03", "C09", "C19"])
class gnu_count:
    """the hashed part starts at symoffset; the symbol count is one past the last chain entry:
    walk the chain of the bucket with the highest symbol index ($m0) to the first entry whose low
    bit is set.  No bucket at or above symoffset: exactly symoffset symbols."""
    params = dict(self=GnuTabT)
    requires = ["len(self.params.buckets) == self.params.nbuckets", "self.params.nbuckets > 0",
                "self._chain_pos < 2**62"]
    returns = Int
    ghost = {"$B": "self.elffile.stream.B", "$le": "self.elffile.little_endian",
             "$so": "self.params.symoffset", "$cp": "self._chain_pos", "$m0": "max(self.params.buckets)"}
    loops = {0: dict(
        invariant=["max_idx == $m0 + $k", "$m0 >= $so",
                   "self.elffile.stream.pos == $cp + (max_idx - $so) * 4",
                   "forall(lambda j: u32at($B, $cp + (j - $so) * 4, $le) % 2 == 0, $m0, max_idx)"],
        variant="len($B) + 4 - self.elffile.stream.pos")}
    ensures = ["$m0 >= $so or result == $so",
               "$m0 < $so or (result - 1 >= $m0 and u32at($B, $cp + (result - 1 - $so) * 4, $le) % 2 == 1)",
               "$m0 < $so or forall(lambda j: u32at($B, $cp + (j - $so) * 4, $le) % 2 == 0, $m0, result - 1)"]
    may_raise = ["error"]     # struct.error when the chain runs past the end of the file


@contract("elftools/elf/hash.py", "ELFHashTable.get_number_of_symbols", props=["C03", "C09", "C19"])
class sysv_count:
    """SysV: nchains equals the number of symbol table entries"""
    params = dict(self=Obj('ELFHashTable', params=Rec(nbuckets=U32, nchains=U32)))
    returns = Int
    ensures = ["result == self.params.nchains"]


def _EF():
    return ELFFileT(stream=SharedStream('elf'))


SymTabShared = SectionT('SymbolTableSection', elffile=_EF(), stringtable=SectionT('StringTableSection', elffile=_EF()), _symbol_name_map=NoneT)
GnuTabL = Obj('GNUHashTable', elffile=_EF(), _symboltable=SymTabShared, params=GnuParams, _wordsize=Const(4),
              _xwordsize=Choice(4, 8), _chain_pos=Nat)


@contract("elftools/elf/hash.py", "GNUHashTable._matches_bloom", props=["C03"])
class matches_bloom:
    """the GNU hash bloom filter test (glibc dl-lookup.c, do_lookup_x): the filter word is number (H1 / C) mod
    bloom_size, C the class in bits (the format requires bloom_size to be a power of two, so the mask of the loader and
    this remainder agree); the name may be present only if bit H1 mod C and bit (H1 >> bloom_shift) mod C of that word
    are both set.  The mask test `(word & BITMASK) == BITMASK` with BITMASK = (1 << a) | (1 << b) is decided through the
    rule mask-test-two-bits, proved in Lean for all natural numbers (lean/Bitops.lean)."""
    params = dict(self=GnuTabT, H1=U32)
    requires = ["len(self.params.bloom) == self.params.bloom_size"]
    returns = Bool
    ghost = {"$c": "self.elffile.elfclass", "$w": "self.params.bloom[(H1 // self.elffile.elfclass) % self.params.bloom_size]"}
    ensures = ["result == ((($w >> (H1 % $c)) & 1) == 1 and (($w >> ((H1 >> self.params.bloom_shift) % $c)) & 1) == 1)"]
    raises = {"ZeroDivisionError": "self.params.bloom_size == 0"}


@contract("elftools/elf/hash.py", "GNUHashTable.get_symbol", props=["C03", "C10"])
class gnu_get_symbol:
    """walks the chain of the name's bucket from its first symbol index: chain word j (at
    chain_pos + (j - symoffset) * 4) carries the hash of symbol j with the low bit marking the end of the
    chain; a symbol is returned only if it bears the name (soundness), and when nothing is returned no
    entry of the chain up to its end has both the name's hash and the name (completeness) -- the file
    stream is shared with the symbol and string tables, whose reads move it"""
    params = dict(self=GnuTabL, name=Str)
    requires = ["len(self.params.buckets) == self.params.nbuckets", "self.params.nbuckets > 0", "self._chain_pos < 2**62",
                "self._symboltable.structs.elfclass == self._symboltable.elffile.elfclass",
                # the header's arrays have the lengths the header announces (layout K2); a valid table has at least one
                # filter word (the loader masks with bloom_size - 1; zero words make the code divide by zero)
                "len(self.params.bloom) == self.params.bloom_size", "self.params.bloom_size > 0"]
    returns = Opt(SymRet)
    ghost = {"$B": "self.elffile.stream.B", "$le": "self.elffile.little_endian", "$so": "self.params.symoffset", "$cp": "self._chain_pos",
             "$T": "self._symboltable"}
    loops = {0: dict(
        ghost_entry={"$s0": "symidx"},
        invariant=["symidx == $s0 + $k", "$s0 >= $so",
                   "forall(lambda j: u32at($B, $cp + (j - $so) * 4, $le) % 2 == 0, $s0, symidx)"],
        # every iteration reads the chain word of the current index, and a candidate whose hash matches is
        # symbol #index of the table (its name is then compared by the code): together with the exit condition
        # below, every entry of the chain up to its end marker is examined -- completeness of the lookup
        step=["cur_hash == u32at($B, $cp + (symidx - 1 - $so) * 4, $le)",
              "cur_hash // 2 != namehash // 2 or symbol.entry == P('Elf_Sym', $B, $T.header.sh_offset + (symidx - 1) * $T.header.sh_entsize)",
              "cur_hash // 2 != namehash // 2 or symbol.name != name"],
        on_break=["u32at($B, $cp + (symidx - $so) * 4, $le) % 2 == 1",
                  "cur_hash == u32at($B, $cp + (symidx - $so) * 4, $le)",
                  "cur_hash // 2 != namehash // 2 or (symbol.entry == P('Elf_Sym', $B, $T.header.sh_offset + symidx * $T.header.sh_entsize)"
                  " and symbol.name != name)"],
        variant="len($B) + 4 - ($cp + (symidx - $so) * 4)")}
    ensures = ["result is None or result.name == name"]
    may_raise = ["error", "ELFParseError", "OverflowError", "UnicodeDecodeError"]


@contract("elftools/elf/sections.py", "SUNWSyminfoTableSection.iter_symbols", props=["C03"])
class syminfo_iter:
    """entries 1 .. num_symbols in index order (entry 0 is the table header): all of them"""
    params = dict(self=SyminfoT)
    requires = ["self.structs.elfclass == self.elffile.elfclass", "self.header.sh_entsize > 0",
                "self.symboltable.structs.elfclass == self.symboltable.elffile.elfclass"]
    yield_shape = Obj('Symbol', entry=Rec(si_boundto=CodeT(16), si_flags=U16), name=Str)
    loops = {0: dict(invariant=["$k == $n"])}
    each_yield = ["value.entry == P('Elf_Sunw_Syminfo', self.stream.B, self.header.sh_offset + ($n + 1) * self.header.sh_entsize)"]
    ensures = ["$n == max(0, self.header.sh_size // self.header.sh_entsize - 1)"]
    may_raise = ["ELFParseError", "OverflowError"]


SysvParams = Rec(nbuckets=U32, nchains=U32, buckets=ListOf(U32), chains=ListOf(U32))
SysvTabL = Obj('ELFHashTable', elffile=_EF(), _symboltable=SymTabShared, params=SysvParams)


@contract("elftools/elf/hash.py", "ELFHashTable.get_symbol", props=["C03"])
class sysv_get_symbol:
    """gABI hash lookup: start at the bucket of the name's hash, follow the chain array until index 0; a symbol is
    returned only if it bears the name; every index on the chain is examined (its symbol is symbol #index of the
    table) until a match or the end of the chain.  Termination on a cyclic chain is not claimed (a well-formed table
    has none)."""
    params = dict(self=SysvTabL, name=Str)
    requires = ["len(self.params.buckets) == self.params.nbuckets", "len(self.params.chains) == self.params.nchains",
                "self._symboltable.structs.elfclass == self._symboltable.elffile.elfclass"]
    returns = Opt(SymRet)
    ghost = {"$B": "self.elffile.stream.B", "$T": "self._symboltable"}
    loops = {0: dict(ghost_init={"$cur": "symndx"}, ghost_update={"$cur": "symndx"}, ghost_step={"$i": "symndx"},
                     invariant=["symndx == $cur", "$k > 0 or symndx == self.params.buckets[hval]", "hval >= 0 and hval < self.params.nbuckets"],
                     step=["sym.entry == P('Elf_Sym', $B, $T.header.sh_offset + $i * $T.header.sh_entsize)", "sym.name != name",
                           "symndx == self.params.chains[$i]", "$i != 0"])}
    ensures = ["result is None or result.name == name", "self.params.nbuckets != 0 or result is None"]
    may_raise = ["ELFParseError", "OverflowError", "UnicodeDecodeError", "IndexError"]
