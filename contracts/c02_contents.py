from pyvc.contracts import contract
from pyvc.shapes import *
from contracts._shapes import *
from specs.elf import P, SZ, secname
from specs.contents import in_segment_spec, cstr_end, chunks_view, decode_utf8
from specs.elf import nseg, phdr, loadseg

SegShape = Obj('Segment', header=PhdrT, stream=Stream)


@contract("elftools/elf/segments.py", "Segment.section_in_segment", props=["C02"])
class section_in_segment:
    """binutils ELF_SECTION_IN_SEGMENT_STRICT (include/elf/internal.h), the four condition
    groups the property names, over unsigned 64-bit fields (specs/contents.py)"""
    params = dict(self=SegShape, section=Obj('Section', header=ShdrT))
    requires = ["section.header.sh_addr + section.header.sh_size < 2**64",
                "section.header.sh_offset + section.header.sh_size < 2**64"]
    returns = Bool
    ensures = ["result == in_segment_spec(self.header, section.header)"]


@contract("elftools/elf/segments.py", "Segment.data", props=["C02"])
class segment_data:
    """exactly the file extent [p_offset, p_offset + p_filesz), clipped at end of file"""
    params = dict(self=SegShape)
    returns = Bytes
    ghost = {"$B": "self.stream.B"}
    ensures = ["result == $B[self.header.p_offset : self.header.p_offset + self.header.p_filesz]"]
    # CPython streams cannot seek or read beyond ssize_t (64-bit fields above 2^63 are not well-formed extents)
    raises = {"OverflowError": "self.header.p_offset >= 2**63 or self.header.p_filesz >= 2**63"}


@contract("elftools/common/utils.py", "parse_cstring_from_stream", props=["C02", "C16"])
class parse_cstring:
    """the bytes from the start position up to the first NUL, whatever the length
    (the 64-byte chunking is invisible); None when no NUL follows"""
    params = dict(stream=Stream, stream_pos=Opt(Nat))
    ghost = {"$B": "stream.B", "$p": "stream.pos if stream_pos is None else stream_pos"}
    returns = Opt(Bytes)
    raises = {"OverflowError": "stream_pos is not None and stream_pos >= 2**63"}
    result_expr = "$B[$p : cstr_end($B, $p)] if exists(lambda j: $B[j] == 0, $p, len($B)) else None"
    loops = {0: dict(
        invariant=["stream.pos >= $p",
                   "found == False",
                   "forall(lambda j: $B[j] != 0, $p, min(stream.pos, len($B)))",
                   "chunks_view(chunks, $B, $p, stream.pos)"],
        variant="len($B) + 64 - stream.pos",
        shapes={'chunks': ChunksOf('$B')})}
    ensures = []


@contract("elftools/elf/sections.py", "StringTableSection.get_string", props=["C01", "C02", "C03"])
class get_string:
    """the NUL-terminated string at sh_offset + offset, whatever its length"""
    params = dict(self=SectionT('StringTableSection'), offset=Nat)
    returns = Str
    ensures = ["result == secname(self, offset)"]
    raises = {"OverflowError": "self.header.sh_offset + offset >= 2**63"}


@contract("elftools/elf/segments.py", "InterpSegment.get_interp_name", props=["C02"])
class get_interp_name:
    """the NUL-terminated string at the segment start"""
    params = dict(self=Obj('InterpSegment', header=PhdrT, stream=Stream))
    returns = Str
    ghost = {"$B": "self.stream.B", "$o": "self.header.p_offset"}
    ensures = ["result == decode_utf8($B[$o : cstr_end($B, $o)])"]
    raises = {"ELFParseError": "not exists(lambda j: $B[j] == 0, $o, len($B))"}
    may_raise = ["UnicodeDecodeError"]


@contract("elftools/elf/elffile.py", "ELFFile.address_offsets", props=["C02", "C09"])
class address_offsets:
    """for exactly the PT_LOAD segments that wholly contain [start, start+size):
    start - p_vaddr + p_offset, in segment order"""
    params = dict(self=ELFFileT(_section_header_stringtable=Opt(SectionT('StringTableSection'))), start=U64, size=U64)
    requires = ELFFILE_INV
    solver = dict(timeout_ms=60000)     # the per-yield clause was once left undecided when nineteen checks shared the machine (0.6 s alone)
    yield_shape = Int
    # step: an iteration yields exactly when its segment wholly contains the range -- with the enumeration's own step clause
    # (every index is visited, a segment is passed on exactly when its type matches) this is the completeness half of
    # "exactly those loadable segments": no containing PT_LOAD segment is skipped
    loops = {0: dict(invariant=["$n <= $k", "end == start + size"], ghost_step={"$n0": "$n"},
                     step=["(start >= seg.header.p_vaddr and end <= seg.header.p_vaddr + seg.header.p_filesz) == ($n == $n0 + 1)",
                           "$n == $n0 or $n == $n0 + 1"])}
    each_yield = ["exists(lambda j: loadseg(self, j) and value == start - phdr(self, j).p_vaddr + phdr(self, j).p_offset"
                  " and start >= phdr(self, j).p_vaddr and start + size <= phdr(self, j).p_vaddr + phdr(self, j).p_filesz,"
                  " 0, max(0, nseg(self)))"]
    # the enumeration is consumed to its end: the function does not return from inside the loop
    ensures = ["@check $k0 == gen_len($seq0)"]
    may_raise = ["ELFError", "OverflowError", "TypeError", "AttributeError"]     # TypeError: PN_XNUM and a section 0 whose link lies beyond the file
from specs.contents import inflated, inflatable, zeros, inflated_len

SHF_COMPRESSED = 0x800
SecObj = Obj('Section', header=ShdrT, name=Str, elffile=ELFFileT(), stream=Alias('elffile.stream'),
             structs=Alias('elffile.structs'), _compressed=Nat, _compression_type=CodeV, _decompressed_size=U64,
             _decompressed_align=U64)


@contract("elftools/elf/sections.py", "Section.data", props=["C02", "C11"])
class section_data:
    """zero block for SHT_NOBITS; inflated payload after the compression header for
    SHF_COMPRESSED/ELFCOMPRESS_ZLIB (rejected when the size of the WHOLE inflated stream differs from ch_size -- too
    large or too small -- or the type is unknown); otherwise the file bytes of the extent"""
    params = dict(self=SecObj)
    requires = ["self.structs.elfclass == self.elffile.elfclass",
                "self._compressed == 0 or self.header.sh_size >= SZ('Elf_Chdr', self.elffile.elfclass)",
                "self.header.sh_offset + self.header.sh_size < 2**63", "self._decompressed_size < 2**63"]
    ghost = {"$B": "self.stream.B", "$o": "self.header.sh_offset", "$h": "SZ('Elf_Chdr', self.elffile.elfclass)",
             "$nobits": "self.header.sh_type == 'SHT_NOBITS'",
             "$z": "self.stream.B[self.header.sh_offset + SZ('Elf_Chdr', self.elffile.elfclass) :"
                   " self.header.sh_offset + self.header.sh_size]"}
    returns = Bytes
    native_requires = ["self._decompressed_size < 2**24"]      # CPython replay only: do not allocate terabytes
    result_expr = ("zeros(self._decompressed_size) if $nobits else"
                   " (inflated($z, self._decompressed_size) if self._compressed != 0 else"
                   " $B[$o : $o + self._decompressed_size])")
    raises = {"ELFCompressionError": "(not $nobits) and self._compressed != 0 and"
                                     " (self._compression_type != 'ELFCOMPRESS_ZLIB' or"
                                     " (inflatable($z) and inflated_len($z) != self._decompressed_size))",
              "zlib.error": "(not $nobits) and self._compressed != 0 and self._compression_type == 'ELFCOMPRESS_ZLIB'"
                            " and not inflatable($z)"}


@contract("elftools/elf/sections.py", "Section.__init__", props=["C01", "C02", "C11"])
class section_init:
    """logical size/alignment come from the compression header when SHF_COMPRESSED is set"""
    inline = True
    also_check = True
    params = dict(self=Obj('Section'), header=ShdrT, name=Str, elffile=ELFFileT())
    requires = ["elffile.structs.elfclass == elffile.elfclass"]
    ghost = {"$c": "(header.sh_flags // 0x800) % 2 == 1",
             "$ch": "P('Elf_Chdr', elffile.stream.B, header.sh_offset)"}
    ensures = ["self.header == header", "self.name == name", "self.stream is elffile.stream",
               "(self._compressed != 0) == $c",
               "self._decompressed_size == ($ch.ch_size if $c else header.sh_size)",
               "self._decompressed_align == ($ch.ch_addralign if $c else header.sh_addralign)",
               "(not $c) or self._compression_type == $ch.ch_type"]
    raises = {"ELFParseError": "$c and header.sh_offset + SZ('Elf_Chdr', elffile.elfclass) > len(elffile.stream.B)"}


from specs.contents import crc32_of, view_at


@contract("elftools/dwarf/dwarf_util.py", "_file_crc32", props=["C11"])
class file_crc32:
    """the CRC-32 of everything from the current position to the end of the file, from the initial value 0
    (the checksum a .gnu_debuglink records), whatever the chunking"""
    params = dict(file=Stream)
    requires = ["file.pos <= len(file.B)"]
    ghost = {"$B": "file.B", "$p": "file.pos"}
    returns = Int
    loops = {0: dict(invariant=["file.pos <= len($B)", "file.pos - len(d) >= $p",
                                "view_at(d, $B, file.pos - len(d))",
                                "checksum == crc32_of($B, $p, file.pos - len(d), 0)",
                                "len(d) > 0 or file.pos == len($B)"],
                     shapes={"d": ViewOf("$B")},
                     variant="len($B) - file.pos + len(d)")}
    ensures = ["result == crc32_of($B, $p, len($B), 0)"]
