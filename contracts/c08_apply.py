"""C08: applying one relocation to a section's bytes (RelocationHandler._do_apply_relocation).  The postconditions are
generated from the psABI oracle of tasks/c08_recipes.py (machine, type) -> (field width, addend source, formula), with the
type numbers taken from the vendored registry: for every supported pair the field at r_offset holds the formula's value
wrapped to the field width and every other byte of the section keeps its value; a symbol index outside the table, the wrong
REL/RELA flavour for the machine and a type outside the supported set are rejected with the relocation error."""
import json
import os
from pyvc.contracts import contract
from pyvc.shapes import *
from pyvc.shapes import Shape
from contracts._shapes import *
from contracts.c03_symbols import SymTabT
from specs.elf import P
from specs.contents import field_at
import z3

_HERE = os.path.dirname(os.path.dirname(os.path.abspath(__file__)))
_REG = {}
for _f in ('elf_h.json', 'llvm_elf.json', 'supplement.json'):
    for _n, _v in json.load(open(os.path.join(_HERE, 'registry', _f)))['names'].items():
        _REG.setdefault(_n, set()).update(_v)

def _nums(tname, enum=None):
    """type numbers of a relocation name: the vendored registries; for a name no registry in the sandbox knows (the newer
    LoongArch types) the library's own enumeration, whose numbers are then unchecked here as they are in C17"""
    if _REG.get(tname):
        return sorted(_REG[tname])
    import elftools.elf.enums as E
    for n, d in vars(E).items():
        if n.startswith('ENUM_RELOC_TYPE_') and isinstance(d, dict) and tname in d:
            return [d[tname]]
    return []


# recipes attribute -> (e_machine name, flavour the library accepts: 'REL', 'RELA' or None for both)
MACHINE = {'_RELOCATION_RECIPES_X86': ('EM_386', 'REL'), '_RELOCATION_RECIPES_X64': ('EM_X86_64', 'RELA'),
           '_RELOCATION_RECIPES_ARM': ('EM_ARM', 'REL'), '_RELOCATION_RECIPES_AARCH64': ('EM_AARCH64', 'RELA'),
           '_RELOCATION_RECIPES_MIPS_REL': ('EM_MIPS', 'REL'), '_RELOCATION_RECIPES_MIPS_RELA': ('EM_MIPS', 'RELA'),
           '_RELOCATION_RECIPES_PPC64': ('EM_PPC64', 'RELA'), '_RELOCATION_RECIPES_S390X': ('EM_S390', 'RELA'),
           '_RELOCATION_RECIPES_LOONGARCH': ('EM_LOONGARCH', 'RELA')}


class _Reloc(Shape):
    """one relocation entry of either flavour (checked for both): REL entries have no r_addend member"""

    def make(self, mk, name, idx=None):
        rela = mk.branch(mk.const(name + '.rela', z3.BoolSort()))
        f = dict(r_offset=U64, r_info=U64, r_info_sym=U32, r_info_type=U32)
        if rela:
            f.update(r_addend=S(64), r_type2=U8, r_type3=U8, r_ssym=U8)
        return Obj('Relocation', entry=Rec(**f), elffile=Any).make(mk, name, idx)


def _clauses():
    from tasks.c08_recipes import SPEC
    S_ = "P('Elf_Sym', symtab.stream.B, symtab.header.sh_offset + reloc.entry.r_info_sym * symtab.header.sh_entsize).st_value"
    out = []
    for (attr, _enum, tname), (size, has_addend, formula) in sorted(SPEC.items()):
        machine, flavour = MACHINE[attr]
        nums = _nums(tname)
        if not nums:
            continue
        is_rela = "('r_addend' in reloc.entry)"
        # MIPS RELA: the library adds the in-place value (recorded known finding); the clause states the psABI formula
        import re
        sub = {'sym_value': '(%s)' % S_, 'offset': 'reloc.entry.r_offset', 'addend': '(reloc.entry.r_addend if %s else 0)' % is_rela,
               'value': 'field_at(old(stream.B), reloc.entry.r_offset, %d)' % size}
        f = re.sub(r'\b(sym_value|offset|addend|value)\b', lambda m: sub[m.group(1)], formula)
        guard = "@when self.elffile.header.e_machine == '%s' and (%s) and %s :: " % (
            machine, " or ".join("reloc.entry.r_info_type == %d" % n for n in nums),
            is_rela if flavour == 'RELA' else ("not %s" % is_rela))
        out.append("%sfield_at(stream.B, reloc.entry.r_offset, %d) == (%s) %% %d" % (guard, size, f, 2 ** (8 * size)))
        out.append("%sforall(lambda j: stream.B[j] == old(stream.B)[j] or (reloc.entry.r_offset <= j and j < reloc.entry.r_offset + %d),"
                   " 0, len(old(stream.B)))" % (guard, size))
    return out


def _rejections():
    """a normal return implies: the flavour the machine's psABI uses (x86, ARM: REL; x86-64, AArch64?, PPC64, S390x, LoongArch:
    RELA; MIPS: both), and a type the recipe oracle or the list of further library-supported types names"""
    from tasks.c08_recipes import SPEC, OUTSIDE
    is_rela = "('r_addend' in reloc.entry)"
    out = []
    for m, fl in (('EM_386', 'REL'), ('EM_ARM', 'REL'), ('EM_X86_64', 'RELA'), ('EM_LOONGARCH', 'RELA')):
        out.append("self.elffile.header.e_machine != '%s' or %s" % (m, is_rela if fl == 'RELA' else 'not ' + is_rela))
    by_machine = {}
    for (attr, _e, tname), _v in SPEC.items():
        by_machine.setdefault(MACHINE[attr][0], set()).update(_nums(tname))
    extra = {'EM_ARM': ['R_ARM_CALL'], 'EM_BPF': ['R_BPF_NONE', 'R_BPF_64_64', 'R_BPF_64_32', 'R_BPF_64_NODYLD32', 'R_BPF_64_ABS64', 'R_BPF_64_ABS32']}
    for m, names in extra.items():
        for n in names:
            by_machine.setdefault(m, set()).update(_nums(n))
    for m, nums in sorted(by_machine.items()):
        out.append("self.elffile.header.e_machine != '%s' or %s" % (m, " or ".join("reloc.entry.r_info_type == %d" % n for n in sorted(nums))))
    out.append(" or ".join("self.elffile.header.e_machine == '%s'" % m for m in sorted(by_machine)))
    return out


def _ensures():
    """(the value clauses of the two MIPS RELA types come last: the recorded known finding -- in-place value added to the
    explicit addend -- is matched by their obligation names)"""
    allc = _clauses()
    mips = [c for c in allc if "'EM_MIPS'" in c and "('r_addend' in reloc.entry) :: field_at(stream.B" in c and "and not" not in c.split(' :: ')[0]
            and ("r_info_type == 2)" in c or "r_info_type == 18)" in c)]
    return [c for c in allc if c not in mips] + ["reloc.entry.r_info_sym < symtab.header.sh_size // symtab.header.sh_entsize"] + \
        _rejections() + mips


ARCH = (('EM_386', 'x86'), ('EM_X86_64', 'x64'), ('EM_MIPS', 'MIPS'), ('EM_ARM', 'ARM'), ('EM_AARCH64', 'AArch64'),
        ('EM_PPC64', '64-bit PowerPC'), ('EM_S390', 'IBM S/390'), ('EM_BPF', 'Linux BPF - in-kernel virtual machine'),
        ('EM_LOONGARCH', 'LoongArch'))


@contract("elftools/elf/elffile.py", "ELFFile.get_machine_arch", props=["C08"])
class get_machine_arch:
    """the architecture names the relocation handler dispatches on are given to exactly the machines whose recipe tables
    they select (the name table has some hundred entries: proved once here, used as facts at the nine call sites)"""
    params = dict(self=ELFFileT())
    pure = True
    returns = Str
    ensures = ["(result == '%s') == (self.header.e_machine == '%s')" % (a, m) for m, a in ARCH]


@contract("elftools/elf/relocation.py", "RelocationHandler._do_apply_relocation", props=["C08"])
class do_apply_relocation:
    """see the module docstring; S is the st_value of symbol #r_info_sym of the linked symbol table, A the explicit addend
    (RELA) or 0, P the offset of the field, V the field's value before"""
    params = dict(self=Obj('RelocationHandler', elffile=ELFFileT()), stream=Stream, reloc=_Reloc(), symtab=SymTabT)
    # the machines with a recipe table plus two representatives of the machines without one (the architecture name is looked
    # up in a table of some hundred machines: one path each)
    requires = [" or ".join("self.elffile.header.e_machine == '%s'" % m for m in
                            ('EM_386', 'EM_X86_64', 'EM_ARM', 'EM_AARCH64', 'EM_MIPS', 'EM_PPC64', 'EM_S390', 'EM_BPF', 'EM_LOONGARCH',
                             'EM_SPARC', 'EM_RISCV')),
                "symtab.header.sh_entsize > 0", "symtab.structs.elfclass == symtab.elffile.elfclass",
                "self.elffile.structs.elfclass == self.elffile.elfclass"]
    modifies = ["stream.B", "stream.pos", "symtab.stream.pos", "self.elffile.stream.pos"]
    ensures = _ensures()
    may_raise = ["ELFRelocationError", "ELFParseError", "OverflowError", "KeyError"]       # (no FieldError: the wrapped value always fits)
