"""C12: the parse loop of DWARFExprParser -- opcode, offset and operand bookkeeping for every byte string; what each
opcode's operand parser reads is decided by the dispatch-table conformance obligations (tasks/c12_expr.py)."""
from pyvc.contracts import contract
from pyvc.shapes import *
from specs.expr import op_off, op_args

OpT = Rec('DWARFExprOp', op=U8, op_name=Any, args=Int, offset=Nat)


@contract("elftools/dwarf/dwarf_expr.py", "DWARFExprParser.parse_expr", props=["C12"])
class parse_expr:
    """operation k starts at op_off(k) (operation 0 at 0, the next one where this one's operands end); its opcode is
    the byte there, its offset is recorded, its operands are what the opcode's parser yields right after the opcode
    byte; the whole byte string is consumed"""
    params = dict(self=Obj('DWARFExprParser', _dispatch_table=ParserTable('dw_op')), expr=Bytes)
    returns = ListOf(OpT)
    # $B: the content of the stream the function builds from the argument (proved equal to the argument)
    loops = {0: dict(ghost_entry={"$B": "stream.B"},
                     invariant=["len(parsed) == $k", "stream.pos == op_off($B, $k)", "stream.pos <= len($B)", "$B == expr",
                                "forall(lambda j: parsed[j].offset == op_off($B, j) and parsed[j].op == $B[op_off($B, j)]"
                                " and parsed[j].args == op_args($B, op_off($B, j)) and op_off($B, j) < len($B), 0, $k)"],
                     shapes={"parsed": ListOf(OpT)},
                     variant="len($B) + 1 - stream.pos")}
    ensures = ["$B == expr", "op_off($B, len(result)) == len($B)",
               "forall(lambda j: result[j].offset == op_off($B, j) and result[j].op == $B[op_off($B, j)]"
               " and result[j].args == op_args($B, op_off($B, j)), 0, len(result))"]
    may_raise = ["KeyError", "ELFParseError"]
