"""C19: the constructor of ELFFile -- what it stores and the only exception type it lets escape."""
from pyvc.contracts import contract
from pyvc.shapes import *
from contracts._shapes import *
from specs.elf import P, SZ

E = "elftools/elf/elffile.py"


@contract("elftools/elf/structs.py", "ELFStructs.__init__", props=["C19", "C01"])
class elfstructs_init:
    inline = True


@contract("elftools/elf/structs.py", "ELFStructs.create_basic_structs", props=["C19", "C01"])
class create_basic_structs:
    """(assumed in K1: no effect on the model, no exception) the struct factories are the subject of the K2 obligations:
    every struct they build is compared with its specification layout in every configuration; that they RETURN in every
    configuration is the ground obligation c19-struct-factories-raise-nothing (tasks/k2_elf.py), decided on every run"""
    mode = 'assume'


@contract("elftools/elf/structs.py", "ELFStructs.create_advanced_structs", props=["C19", "C01"])
class create_advanced_structs:
    """(assumed: no effect on the K1 model) see create_basic_structs"""
    mode = 'assume'


@contract(E, "ELFFile._identify_file", props=["C19", "C01"])
class identify_file:
    """magic, class and byte order from e_ident: the only accepted values are the gABI ones"""
    params = dict(self=Obj('ELFFile', stream=Stream))
    ghost = {"$B": "self.stream.B"}
    sets_shape = dict(elfclass=ElfClass, little_endian=Bool)
    raises = {"ELFError": "not (len($B) >= 6 and $B[0] == 0x7f and $B[1] == 0x45 and $B[2] == 0x4c and $B[3] == 0x46"
                          " and ($B[4] == 1 or $B[4] == 2) and ($B[5] == 1 or $B[5] == 2))"}
    ensures = ["self.elfclass == (32 if $B[4] == 1 else 64)", "self.little_endian == ($B[5] == 1)"]


@contract(E, "ELFFile._parse_elf_header", props=["C19", "C01"])
class parse_elf_header:
    inline = True


StrTabT = SectionT('StringTableSection')


@contract(E, "ELFFile._get_section_header_stringtable", props=["C19", "C01"])
class get_section_header_stringtable:
    """the section-name string table: the section whose index is e_shstrndx (or sh_link of header 0 with
    SHN_XINDEX); absent when its header lies beyond the end of the file"""
    params = dict(self=ELFFileT())
    requires = ELFFILE_INV
    returns = Opt(Obj('StringTableSection', header=ShdrT, name=Str))
    ensures = ["result is None or result.name == ''"]
    may_raise = ["ELFError"]


@contract(E, "ELFFile.__init__", props=["C19", "C01"])
class elffile_init:
    """opening any byte string either succeeds or raises ELFError (ELFParseError is a subclass); on
    success the object satisfies the invariants the other contracts assume (ELFFILE_INV) and holds the
    file header decoded at offset 0 in the class and byte order e_ident announces"""
    params = dict(self=Obj('ELFFile'), stream=Stream, stream_loader=Any)
    ghost = {"$B": "stream.B"}
    sets = dict(stream="stream", stream_len="len(stream.B)", stream_loader="stream_loader", _section_name_map="None")
    sets_shape = dict(elfclass=ElfClass, little_endian=Bool, header=EhdrT, structs=ELFStructsT, e_ident_raw=Bytes,
                      _section_header_stringtable=Opt(Obj('StringTableSection', header=ShdrT, name=Str)))
    ensures = ["self.structs.elfclass == self.elfclass", "self.stream_len == len(self.stream.B)",
               "self.elfclass == (32 if $B[4] == 1 else 64)", "self.little_endian == ($B[5] == 1)",
               "self.structs.little_endian == self.little_endian",
               "self.header == P('Elf_Ehdr', $B, 0)"]
    may_raise = ["ELFError"]
