"""C04: reference resolution -- the dispatch of DIE.get_DIE_from_attribute over the reference
forms (7.5.4: unit-relative, section-relative, type signature) and the section-level lookup."""
from pyvc.contracts import contract
from pyvc.shapes import *
from specs.die import die_at
from specs.dwarf import cu_at
from contracts._dwarf_shapes import *
from contracts.c13_lookup import DWARFInfoT, CU_RI, CU_CACHE_SHAPES

PARSE_EXC = ["ELFParseError", "DWARFError", "OverflowError", "KeyError", "ValueError", "AssertionError"]


@contract("elftools/dwarf/dwarfinfo.py", "DWARFInfo.get_DIE_from_refaddr", props=["C04"])
class di_get_die_from_refaddr:
    """a .debug_info offset resolves to the entry at that offset of the unit whose extent contains it"""
    params = dict(self=DWARFInfoT, refaddr=Int, cu=Const(None))
    modifies = ["*rep"]
    returns = DIET
    ensures = ["result.offset == refaddr", "@check die_at(result, final_cu, refaddr)", "@check final_cu.cu_offset <= refaddr",
               "@check refaddr < final_cu.cu_offset + final_cu.header.unit_length + (4 if final_cu.structs.dwarf_format == 32 else 12)",
               "@check cu_at(final_cu, self.debug_info_sec.stream.B, final_cu.cu_offset)"]
    may_raise = PARSE_EXC


DIE_FORMS = ('DW_FORM_addr', 'DW_FORM_block2', 'DW_FORM_block4', 'DW_FORM_data2', 'DW_FORM_data4', 'DW_FORM_data8', 'DW_FORM_string',
             'DW_FORM_block', 'DW_FORM_block1', 'DW_FORM_data1', 'DW_FORM_flag', 'DW_FORM_sdata', 'DW_FORM_strp', 'DW_FORM_udata',
             'DW_FORM_ref_addr', 'DW_FORM_ref1', 'DW_FORM_ref2', 'DW_FORM_ref4', 'DW_FORM_ref8', 'DW_FORM_ref_udata',
             'DW_FORM_indirect', 'DW_FORM_sec_offset', 'DW_FORM_exprloc', 'DW_FORM_flag_present', 'DW_FORM_strx', 'DW_FORM_addrx',
             'DW_FORM_ref_sup4', 'DW_FORM_strp_sup', 'DW_FORM_data16', 'DW_FORM_line_strp', 'DW_FORM_ref_sig8',
             'DW_FORM_implicit_const', 'DW_FORM_loclistx', 'DW_FORM_rnglistx', 'DW_FORM_ref_sup8', 'DW_FORM_strx1', 'DW_FORM_strx2',
             'DW_FORM_strx3', 'DW_FORM_strx4', 'DW_FORM_addrx1', 'DW_FORM_addrx2', 'DW_FORM_addrx3', 'DW_FORM_addrx4',
             'DW_FORM_GNU_addr_index', 'DW_FORM_GNU_str_index', 'DW_FORM_GNU_ref_alt', 'DW_FORM_GNU_strp_alt', 'DW_FORM_ref')
UNIT_REL = ('DW_FORM_ref1', 'DW_FORM_ref2', 'DW_FORM_ref4', 'DW_FORM_ref8', 'DW_FORM_ref', 'DW_FORM_ref_udata')
SUP_REF = ('DW_FORM_ref_sup4', 'DW_FORM_ref_sup8', 'DW_FORM_GNU_ref_alt')
REF_CLASS = UNIT_REL + ('DW_FORM_ref_addr', 'DW_FORM_ref_sig8') + SUP_REF


def _isin(e, names):
    return "(" + " or ".join("%s == '%s'" % (e, n) for n in names) + ")"


from contracts.c04_typeunit import TUOwnerT, SIG_RI, SigMapT, TypesSecT
from specs.dwarf import tu_at, types_wellformed

SigOwnerT = Obj('DWARFInfo', _inv=SIG_RI + CU_RI, _rep=('_type_units_by_sig', '_cu_cache', '_cu_offsets_map'),
                debug_types_sec=SymOpt(TypesSecT), debug_info_sec=InfoSecT, structs=TUOwnerT.attrs['structs'], config=TUOwnerT.attrs['config'],
                _type_units_by_sig=SymOpt(SigMapT), _cu_cache=DWARFInfoT.attrs['_cu_cache'], _cu_offsets_map=ListOf(Nat))


@contract("elftools/dwarf/dwarfinfo.py", "DWARFInfo.iter_CUs", props=["C04"])
class iter_cus_inl:
    inline = True


@contract("elftools/dwarf/dwarfinfo.py", "DWARFInfo.get_DIE_by_sig8", props=["C04"])
class get_die_by_sig8:
    """a type signature registered in .debug_types resolves to the entry at type_offset (relative to the unit) of the type
    unit whose header carries that signature.  The scan of the version 5 type units of .debug_info that follows a miss is
    explored but NOT specified here: the unit objects the unit walk yields carry no version 5 header members in this
    contract's view, so no claim is made about what that scan returns (the bounded reference differential decides it)."""
    params = dict(self=SigOwnerT, sig8=U(64))
    requires = ["self.debug_types_sec is None or types_wellformed(self.debug_types_sec.stream.B)"]
    modifies = ["*rep", "self.debug_types_sec.stream.pos", "self.debug_info_sec.stream.pos"]
    rep_reader = True
    returns = DIET
    loops = {0: dict(invariant=CU_RI + SIG_RI)}
    ensures = ["@check @when final_tu is not None :: final_tu.header.signature == sig8"
               " and tu_at(final_tu, self.debug_types_sec.stream.B, final_tu.tu_offset)",
               "@check @when final_tu is not None :: die_at(result, final_tu, final_tu.tu_offset + final_tu.header.type_offset)"]
    may_raise = PARSE_EXC


SupInfoT = Obj('DWARFInfo')
RefDInfoT = SigOwnerT.extend(supplementary_dwarfinfo=SymOpt(SupInfoT))
RefCUT = CUFull.extend(dwarfinfo=RefDInfoT)
RefDIET = Obj('DIE', offset=Nat, attributes=DictOf(AttrT), cu=RefCUT, dwarfinfo=Alias('cu.dwarfinfo'))
REF_NAMES = ('DW_AT_type', 'DW_AT_sibling', 'DW_AT_specification', 'DW_AT_abstract_origin', 'DW_AT_signature', 'DW_AT_import')

for _name in REF_NAMES:
    pass


@contract("elftools/dwarf/die.py", "DIE.get_DIE_from_attribute", props=["C04"])
class get_die_from_attribute:
    """the dispatch over the reference forms (7.5.4): a unit-relative form designates unit offset + value within the
    entry's own unit, DW_FORM_ref_addr a .debug_info offset, DW_FORM_ref_sig8 a type signature; a form outside the
    reference class is rejected.  The attribute name only selects the attribute (checked for six reference
    attributes: the engine looks attribute tables up with constant keys)."""
    params = dict(self=RefDIET, name=OneOf(*REF_NAMES))
    requires = ["name in self.attributes", _isin("self.attributes[name].form", DIE_FORMS),
                "self.cu.dwarfinfo.debug_types_sec is None or types_wellformed(self.cu.dwarfinfo.debug_types_sec.stream.B)"]
    modifies = ["*rep"]
    returns = DIET
    own_raises = {"DWARFError": "not " + _isin("self.attributes[name].form", REF_CLASS),
                  "NotImplementedError": _isin("self.attributes[name].form", SUP_REF) + " and self.cu.dwarfinfo.supplementary_dwarfinfo is None"}
    ensures = ["not %s or die_at(result, self.cu, self.cu.cu_offset + self.attributes[name].raw_value)" % _isin("self.attributes[name].form", UNIT_REL),
               "self.attributes[name].form != 'DW_FORM_ref_addr' or result.offset == self.attributes[name].raw_value"]
    may_raise = PARSE_EXC
