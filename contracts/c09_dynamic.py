from pyvc.contracts import contract
from pyvc.shapes import *
from contracts._shapes import *
from specs.elf import P, SZ, secname
from specs.dynamic import dyn, dynstr, dynfirst
from specs.elf import nseg, phdr, loadseg

DynRec = Rec(d_tag=CodeT(64), d_val=U64, d_ptr=U64)
StrTabLike = Opt(SectionT('StringTableSection'))


def DynamicT(cls='Dynamic', **more):
    a = dict(elffile=ELFFileT(), elfstructs=Alias('elffile.structs'), _stream=Alias('elffile.stream'),
             _num_tags=IntT(-1, None), _offset=U64, _tagsize=Choice(8, 16), _empty=Bool, _stringtable=Any)
    a.update(more)
    return Obj(cls, **a)


DYN_INV = ["self.elfstructs.elfclass == self.elffile.elfclass",
           "self._tagsize == SZ('Elf_Dyn', self.elffile.elfclass)"]


@contract("elftools/elf/dynamic.py", "Dynamic._get_tag", props=["C09"])
class get_tag_raw:
    """entry n of the dynamic table lives at offset + n * sizeof(Elf_Dyn)"""
    params = dict(self=DynamicT(), n=Nat)
    requires = DYN_INV
    returns = DynRec
    ghost = {"$o": "self._offset + n * self._tagsize"}
    ensures = ["result == P('Elf_Dyn', self._stream.B, $o)"]
    raises = {"IndexError": "self._num_tags != -1 and n >= self._num_tags",
              "ELFParseError": "not (self._num_tags != -1 and n >= self._num_tags) and"
                               " $o + self._tagsize > len(self._stream.B)"}


@contract("elftools/elf/dynamic.py", "Dynamic._iter_tags", props=["C09", "C19"])
class iter_tags_raw:
    """exactly the entries up to and including the first DT_NULL (those of the requested type)"""
    params = dict(self=DynamicT(), type=Opt(Str))
    requires = DYN_INV + ["self._num_tags == -1 or self._empty"]
    yield_shape = DynRec
    loops = {0: dict(invariant=["forall(lambda j: dyn(self, j).d_tag != 'DT_NULL', 0, $k)", "$n <= $k",
                                "type is not None or $n == $k",
                                "type is None or $n > 0 or forall(lambda j: dyn(self, j).d_tag != type, 0, $k)"],
                     variant="len(self._stream.B) + self._tagsize - (self._offset + $k * self._tagsize)")}
    each_yield = ["value == dyn(self, $k0)", "type is None or value.d_tag == type", "type is not None or $k0 == $n",
                  "forall(lambda j: dyn(self, j).d_tag != 'DT_NULL', 0, $k0)",
                  "type is None or $n > 0 or forall(lambda j: dyn(self, j).d_tag != type, 0, $k0)"]
    ensures = ["self._empty or dyn(self, $k0).d_tag == 'DT_NULL'",
               "(not self._empty) or $n == 0",
               "self._empty or type is not None or $n == $k0 + 1",
               "self._empty or forall(lambda j: dyn(self, j).d_tag != 'DT_NULL', 0, $k0)",
               "self._empty or type is None or $n > 0 or forall(lambda j: dyn(self, j).d_tag != type, 0, $k0 + 1)"]
    may_raise = ["ELFParseError", "OverflowError"]


@contract("elftools/elf/dynamic.py", "_DynamicStringTable.get_string", props=["C09"])
class dynstr_get_string:
    """the NUL-terminated string at table_offset + offset (strict UTF-8 on the segment side)"""
    params = dict(self=Obj('_DynamicStringTable', _stream=Stream, _table_offset=U64), offset=U64)
    returns = Str
    ensures = ["result == dynstr(self._stream.B, self._table_offset + offset)"]
    raises = {"OverflowError": "self._table_offset + offset >= 2**63"}       # (no UnicodeDecodeError: bytes that are not UTF-8 are replaced, as in the section view)


@contract("elftools/elf/dynamic.py", "Dynamic.get_table_offset", props=["C09"])
class get_table_offset:
    """(pointer of the first entry bearing the tag, its file offset through the loadable segments)"""
    params = dict(self=DynamicT(), tag_name=Str)
    requires = DYN_INV + ["self._num_tags == -1 or self._empty"] + ELFFILE_INV_EF
    returns = Any
    requires_wf = []
    ghost = {"$f": "dynfirst(self, tag_name)"}
    ensures = ["self._empty or tag_name == 'DT_NULL' or"
               " result[0] == (dyn(self, $f).d_ptr if dyn(self, $f).d_tag == tag_name else None)",
               "(not self._empty) or result[0] is None",
               # the offset comes from a loadable segment that wholly contains the pointer
               "result[1] is None or (result[0] is not None and exists(lambda j: loadseg(self.elffile, j) and"
               " result[1] == result[0] - phdr(self.elffile, j).p_vaddr + phdr(self.elffile, j).p_offset and"
               " result[0] >= phdr(self.elffile, j).p_vaddr and"
               " result[0] + 1 <= phdr(self.elffile, j).p_vaddr + phdr(self.elffile, j).p_filesz,"
               " 0, max(0, nseg(self.elffile))))"]
    may_raise = ["ELFError", "OverflowError", "TypeError", "AttributeError"]      # TypeError: from the segment enumeration (PN_XNUM, section 0 with a link beyond the file)


TagRet = Obj('DynamicTag', entry=DynRec)


@contract("elftools/elf/dynamic.py", "DynamicTag.__init__", props=["C09"])
class dyntag_init:
    """string-valued tags (needed, soname, rpath, runpath, sunw_filter) carry the string at d_val of
    the dynamic string table under the attribute named after the tag"""
    params = dict(self=Obj('DynamicTag'), entry=DynRec,
                  stringtable=Opt(Obj('_DynamicStringTable', _stream=Stream, _table_offset=U64)))
    sets = dict(entry="entry")
    _S = "dynstr(stringtable._stream.B, stringtable._table_offset + entry.d_val)"
    sets_if = dict(needed=("entry.d_tag == 'DT_NEEDED'", _S), soname=("entry.d_tag == 'DT_SONAME'", _S),
                   rpath=("entry.d_tag == 'DT_RPATH'", _S), runpath=("entry.d_tag == 'DT_RUNPATH'", _S),
                   sunw_filter=("entry.d_tag == 'DT_SUNW_FILTER'", _S))
    raises = {"ELFError": "stringtable is None"}
    may_raise = ["OverflowError", "UnicodeDecodeError", "ELFError"]


@contract("elftools/elf/dynamic.py", "Dynamic.num_tags", props=["C09", "C19"])
class num_tags:
    """number of entries up to and including the first DT_NULL"""
    params = dict(self=DynamicT(_stringtable=Obj('_DynamicStringTable', _stream=Stream, _table_offset=U64)))
    requires = DYN_INV + ["self._num_tags == -1", "self._offset < 2**62"]
    returns = Int
    modifies = ["self._num_tags"]
    loops = {0: dict(invariant=["forall(lambda j: dyn(self, j).d_tag != 'DT_NULL', 0, $k)", "self._num_tags == -1",
                                "$k == 0 or self._offset + $k * self._tagsize <= len(self._stream.B)"],
                     variant="len(self._stream.B) + self._tagsize - (self._offset + $k * self._tagsize)")}
    ensures = ["result >= 1", "dyn(self, result - 1).d_tag == 'DT_NULL'",
               "forall(lambda j: dyn(self, j).d_tag != 'DT_NULL', 0, result - 1)", "self._num_tags == result"]
    may_raise = ["ELFError", "OverflowError", "UnicodeDecodeError"]


@contract("elftools/elf/dynamic.py", "Dynamic.get_tag", props=["C09"])
class get_tag:
    params = dict(self=DynamicT(_stringtable=Obj('_DynamicStringTable', _stream=Stream, _table_offset=U64)), n=Nat)
    requires = DYN_INV
    returns = TagRet
    ghost = {"$o": "self._offset + n * self._tagsize"}
    ensures = ["result.entry == dyn(self, n)"]
    raises = {"IndexError": "self._num_tags != -1 and n >= self._num_tags",
              "ELFParseError": "not (self._num_tags != -1 and n >= self._num_tags) and"
                               " $o + self._tagsize > len(self._stream.B)"}
    may_raise = ["OverflowError", "UnicodeDecodeError", "ELFError"]


@contract("elftools/elf/dynamic.py", "Dynamic._get_stringtable", props=["C09"])
class get_stringtable:
    """the linked string table when the section view supplied one; otherwise the table DT_STRTAB points at,
    mapped through the loadable segments; last resort the section named .dynstr"""
    mode = 'assume'
    returns = Obj('_DynamicStringTable', _stream=Stream, _table_offset=U64)
    may_raise = ["ELFError", "OverflowError"]


@contract("elftools/elf/dynamic.py", "Dynamic.iter_tags", props=["C09"])
class iter_tags_public:
    """the raw walk (_iter_tags: entries up to and including the first DT_NULL, filtered by type), each entry wrapped
    in a DynamicTag with the dynamic string table: the same entries, in the same order, none dropped"""
    params = dict(self=DynamicT(), type=Opt(Str))
    requires = DYN_INV + ["self._num_tags == -1 or self._empty"]
    yield_shape = TagRet
    loops = {0: dict(invariant=["$k == $n"])}
    each_yield = ["value.entry == $seq0[$n]"]
    ensures = ["$n == len($seq0)"]
    may_raise = ["ELFParseError", "OverflowError", "ELFError", "UnicodeDecodeError"]
