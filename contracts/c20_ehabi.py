from pyvc.contracts import contract
from pyvc.shapes import *
from specs.prim import sext31


@contract("elftools/ehabi/ehabiinfo.py", "arm_expand_prel31", props=["C20"])
class prel31:
    params = dict(address=U32, place=U64)
    requires = ["address & 0x80000000 == 0"]
    returns = Int
    ensures = ["result == (place + sext31(address)) % 2**64"]
from contracts._shapes import *
from specs.elf import P, kind
from specs.ehabi_k1 import prel31, entry_kind, nth_opcode

IdxSec = Obj('Section', header=ShdrT, name=Str, stream=Stream)
InfoT = Obj('EHABIInfo', _arm_idx_section=IdxSec, _struct=StructsT('EHABIStructs'), _num_entry=Opt(Nat))


@contract("elftools/ehabi/ehabiinfo.py", "EHABIInfo.num_entry", props=["C20"])
class num_entry:
    """index entries are 8 bytes"""
    params = dict(self=InfoT)
    requires = ["self._num_entry is None or self._num_entry == self._arm_idx_section.header.sh_size // 8"]
    returns = Int
    modifies = ["self._num_entry"]
    ensures = ["result == self._arm_idx_section.header.sh_size // 8", "self._num_entry == result"]


@contract("elftools/ehabi/ehabiinfo.py", "EHABIInfo.section_offset", props=["C20"])
class section_offset:
    inline = True


for _c in ("EHABIEntry", "CorruptEHABIEntry", "CannotUnwindEHABIEntry", "GenericEHABIEntry"):
    @contract("elftools/ehabi/ehabiinfo.py", "%s.__init__" % _c, props=["C20"])
    class _e:
        inline = True


@contract("elftools/ehabi/ehabiinfo.py", "EHABIInfo.get_entry", props=["C20"])
class get_entry:
    """EHABI 5 (index table entry) and 6.3 (compact model table entries): function address =
    prel31(word0) relative to the entry; word1 = 1: cannot unwind; bit 31 clear: prel31 offset of a
    table entry (generic model when its first word has bit 31 clear, else compact model 0/1/2 with
    its byte-code); bit 31 set: inline compact model 0"""
    params = dict(self=InfoT, n=Nat)
    requires = ["self._num_entry is None or self._num_entry == self._arm_idx_section.header.sh_size // 8",
                "self._arm_idx_section.header.sh_offset + self._arm_idx_section.header.sh_size < 2**62"]
    modifies = ["self._num_entry"]       # memo of the entry count (set by num_entry)
    returns = Any
    ghost = {"$B": "self._arm_idx_section.stream.B", "$o": "self._arm_idx_section.header.sh_offset + 8 * n",
             "$w0": "P('EH_index_struct', self._arm_idx_section.stream.B, self._arm_idx_section.header.sh_offset + 8 * n).word0",
             "$w1": "P('EH_index_struct', self._arm_idx_section.stream.B, self._arm_idx_section.header.sh_offset + 8 * n).word1",
             "$t0": "P('EH_table_struct', self._arm_idx_section.stream.B, prel31(P('EH_index_struct', self._arm_idx_section.stream.B,"
                    " self._arm_idx_section.header.sh_offset + 8 * n).word1, self._arm_idx_section.header.sh_offset + 8 * n + 4)).word0"}
    ensures = ["kind(result) == entry_kind($B, $o, $w0, $w1)",
               "result.corrupt or result.function_offset == prel31($w0, $o)",
               "kind(result) != 'GenericEHABIEntry' or result.personality == "
               "prel31(P('EH_table_struct', $B, prel31($w1, $o + 4)).word0, prel31($w1, $o + 4))",
               "kind(result) != 'EHABIEntry' or $w1 < 2**31 or (result.personality == 0 and"
               " result.bytecode_array == [($w1 // 2**16) % 256, ($w1 // 2**8) % 256, $w1 % 256])",
               "kind(result) != 'EHABIEntry' or $w1 >= 2**31 or"
               " result.personality == (P('EH_table_struct', $B, prel31($w1, $o + 4)).word0 // 2**24) % 128",
               "kind(result) != 'EHABIEntry' or $w1 >= 2**31 or result.eh_table_offset is None or"
               " result.eh_table_offset == prel31($w1, $o + 4)",
               # compact models 1 and 2: two opcodes in the first word, then `more` words of four opcodes each,
               # most significant byte first whatever the file's byte order
               "kind(result) != 'EHABIEntry' or $w1 >= 2**31 or result.personality == 0 or"
               " (len(result.bytecode_array) == 2 + 4 * (($t0 // 2**16) % 256) and"
               " result.bytecode_array[0] == ($t0 // 2**8) % 256 and result.bytecode_array[1] == $t0 % 256 and"
               " forall(lambda j: result.bytecode_array[2 + j] =="
               " nth_opcode(P('EH_table_struct', $B, prel31($w1, $o + 4) + 4 + 4 * (j // 4)).word0, j % 4),"
               " 0, 4 * (($t0 // 2**16) % 256)))",
               "kind(result) != 'EHABIEntry' or $w1 >= 2**31 or result.personality != 0 or"
               " result.bytecode_array == [($t0 // 2**16) % 256, ($t0 // 2**8) % 256, $t0 % 256]"]
    raises = {"IndexError": "n >= self._arm_idx_section.header.sh_size // 8"}
    may_raise = ["ELFParseError", "OverflowError"]
    loops = {0: dict(invariant=[
        "len(opcode) == 2 + 4 * $k",
        "self._arm_idx_section.stream.pos == eh_table_offset + 4 + 4 * $k",
        "opcode[0] == (word0 // 2**8) % 256", "opcode[1] == word0 % 256",
        "forall(lambda j: opcode[2 + j] == nth_opcode(P('EH_table_struct', $B, eh_table_offset + 4 + 4 * (j // 4)).word0, j % 4),"
        " 0, 4 * $k)"])}
