from pyvc.contracts import contract
from pyvc.shapes import *
from specs.prim import sext31


@contract("elftools/ehabi/ehabiinfo.py", "arm_expand_prel31", props=["C20"])
class prel31:
    params = dict(address=U32, place=U64)
    requires = ["address & 0x80000000 == 0"]
    ensures = ["result == (place + sext31(address)) % 2**64"]
