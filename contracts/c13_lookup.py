from pyvc.contracts import contract
from pyvc.shapes import *
from specs.dwarf import cu_at, CUT, SecT
from specs.dwarf import StructsT as DwStructsT

# representation invariant of the unit cache: parallel, strictly increasing, entry i is the unit at offsets[i]
CU_RI = ["len(self._cu_cache) == len(self._cu_offsets_map)",
         "forall(lambda i, j: i >= j or self._cu_offsets_map[i] < self._cu_offsets_map[j],"
         " 0, len(self._cu_offsets_map), 0, len(self._cu_offsets_map))",
         "forall(lambda i: cu_at(self._cu_cache[i], self.debug_info_sec.stream.B, self._cu_offsets_map[i]), 0, len(self._cu_cache))"]


# the unit cache lists are representation fields: only _cached_CU_at_offset touches them; CU_RI is the
# object invariant (assumed for every DWARFInfo object, re-established by the owner, checked at yields)
from contracts._dwarf_shapes import InfoSecT, CUFull
DWARFInfoT = Obj('DWARFInfo', _inv=CU_RI, _rep=('_cu_cache', '_cu_offsets_map'), debug_info_sec=InfoSecT,
                 _cu_cache=ListOf(CUT), _cu_offsets_map=ListOf(Nat),
                 config=Rec('DwarfConfig', little_endian=Bool, machine_arch=Str, default_address_size=Choice(4, 8)))
CU_CACHE_SHAPES = {"self._cu_cache": ListOf(CUT), "self._cu_offsets_map": ListOf(Nat)}


@contract("elftools/dwarf/dwarfinfo.py", "DWARFInfo._parse_CU_at_offset", props=["C13", "C10", "C04"])
class parse_cu_at:
    """the unit object for the header at `offset`: format from the first word (7.4), header fields and the
    offset of the root entry from the header layout (7.5.1, K2), structs of the unit's own format, address
    size and version; versions outside 2..5 are rejected"""
    params = dict(self=Obj('DWARFInfo', debug_info_sec=SecT, structs=DwStructsT,
                           config=Rec('DwarfConfig', little_endian=Bool, machine_arch=Str, default_address_size=Choice(4, 8))), offset=Nat)
    returns = CUT
    ensures = ["cu_at(result, self.debug_info_sec.stream.B, offset)", "result.header.version >= 2 and result.header.version <= 5",
               "result.structs.little_endian == self.config.little_endian", "result.dwarfinfo is self"]
    may_raise = ["ELFParseError", "DWARFError", "OverflowError", "AssertionError"]


@contract("elftools/dwarf/dwarfinfo.py", "DWARFInfo._cached_CU_at_offset", props=["C13", "C10"])
class cached_cu_at:
    """returns the unit at `offset` (what a fresh parse returns) whatever the cache holds, and keeps
    the cache invariant"""
    params = dict(self=DWARFInfoT, offset=Nat)
    modifies = ["self._cu_cache", "self._cu_offsets_map"]
    havoc_shapes = CU_CACHE_SHAPES
    returns = CUT
    ensures = ["cu_at(result, self.debug_info_sec.stream.B, offset)"] + CU_RI
    may_raise = ["ELFParseError", "DWARFError", "OverflowError", "AssertionError"]
from specs.dwarf import unit_off, tuple_word


@contract("elftools/dwarf/structs.py", "DWARFStructs.initial_length_field_size", props=["C13", "C04", "C10"])
class ilfs:
    inline = True


@contract("elftools/dwarf/compileunit.py", "CompileUnit.__getitem__", props=["C13", "C04", "C10"])
class cu_getitem:
    inline = True


@contract("elftools/dwarf/compileunit.py", "CompileUnit.size", props=["C13", "C04", "C10"])
class cu_size:
    inline = True


@contract("elftools/common/utils.py", "dwarf_assert", props=["C13", "C04", "C10"])
class dwarf_assert:
    inline = True


@contract("elftools/dwarf/dwarfinfo.py", "DWARFInfo.has_debug_info", props=["C13", "C10"])
class has_debug_info:
    inline = True


@contract("elftools/dwarf/dwarfinfo.py", "DWARFInfo.get_CU_at", props=["C13", "C10"])
class get_cu_at:
    """an offset-exact lookup returns the unit starting there"""
    params = dict(self=DWARFInfoT, offset=Int)
    modifies = ["*rep"]
    returns = CUT
    ensures = ["cu_at(result, self.debug_info_sec.stream.B, offset)",
               "0 <= offset and offset < self.debug_info_sec.size"] + CU_RI      # out-of-range offsets never return
    may_raise = ["DWARFError", "ELFParseError", "OverflowError", "AssertionError"]


@contract("elftools/dwarf/dwarfinfo.py", "DWARFInfo._parse_CUs_iter", props=["C13", "C10", "C04"])
class parse_cus_iter:
    """units in section order from `offset`: unit k+1 starts at unit k + unit_length + initial length size"""
    params = dict(self=DWARFInfoT, offset=Nat)
    ghost = {"$B": "self.debug_info_sec.stream.B", "$o0": "offset"}
    yield_shape = CUT
    yield_havoc = ["*rep"]
    modifies = ["*rep"]
    loops = {0: dict(invariant=["offset == unit_off($B, $o0, $k)", "$k == $n"] + CU_RI)}
    each_yield = ["cu_at(value, $B, unit_off($B, $o0, $n))",
                  "unit_off($B, $o0, $n) < self.debug_info_sec.size"]
    ensures = ["unit_off($B, $o0, $n) >= self.debug_info_sec.size"] + CU_RI
    may_raise = ["ELFParseError", "DWARFError", "OverflowError", "AssertionError"]


@contract("elftools/dwarf/dwarfinfo.py", "DWARFInfo.get_CU_containing", props=["C13", "C10"])
class get_cu_containing:
    """the unit whose extent [cu_offset, cu_offset + size) contains the offset"""
    params = dict(self=DWARFInfoT, refaddr=Int)
    modifies = ["self._cu_cache", "self._cu_offsets_map"]      # reads the offsets map directly (bisect)
    havoc_shapes = CU_CACHE_SHAPES
    # the unit is returned with its own lazily built entry cache in view (object invariant DIE_RI of every CompileUnit);
    # its section stream is the one .debug_info stream
    returns = CUFull
    loops = {0: dict(invariant=CU_RI)}
    ensures = ["result.cu_offset <= refaddr",
               "refaddr < result.cu_offset + result.header.unit_length + (4 if result.structs.dwarf_format == 32 else 12)",
               "cu_at(result, self.debug_info_sec.stream.B, result.cu_offset)"] + CU_RI
    may_raise = ["DWARFError", "ValueError", "ELFParseError", "OverflowError", "AssertionError"]
from specs.elf import P

ArHdr = Rec(unit_length=Nat, version=U16, debug_info_offset=Nat, address_size=U8, segment_size=U8)
AREntryT = Rec('ARangeEntry', begin_addr=Nat, length=Nat, info_offset=Nat, unit_length=Nat, version=U16,
               address_size=U8, segment_size=U8)
DStructsT = StructsT('DWARFStructs', little_endian=Bool, dwarf_format=Const(32), address_size=Choice(4, 8), dwarf_version=U16)


@contract("elftools/dwarf/aranges.py", "ARanges._get_addr_size_struct", props=["C13"])
class get_addr_size_struct:
    inline = True


@contract("elftools/dwarf/aranges.py", "ARanges._get_entries", props=["C13"])
class aranges_get_entries:
    """each set: header, tuples from the next multiple of 2*address_size, up to the (0, 0) terminator;
    set k+1 starts at set k + unit_length + 4 (32-bit DWARF sets)"""
    params = dict(self=Obj('ARanges', stream=Stream, size=Nat, structs=DStructsT), need_empty=Const(False))
    ghost = {"$B": "self.stream.B"}
    returns = ListOf(AREntryT)
    loops = {
        0: dict(invariant=["offset >= 0"], shapes={"entries": ListOf(AREntryT)}),
        1: dict(ghost_entry={"$base": "len(entries)", "$t0": "self.stream.pos - 2 * aranges_header.address_size"},
                invariant=["len(entries) == $base + $k",
                           "self.stream.pos == $t0 + 2 * aranges_header.address_size * ($k + 1)",
                           "addr == tuple_word($B, $t0 + 2 * aranges_header.address_size * $k, aranges_header.address_size, self.structs.little_endian)",
                           "length == tuple_word($B, $t0 + 2 * aranges_header.address_size * $k + aranges_header.address_size,"
                           " aranges_header.address_size, self.structs.little_endian)",
                           "forall(lambda j: entries[$base + j].begin_addr == tuple_word($B, $t0 + 2 * aranges_header.address_size * j,"
                           " aranges_header.address_size, self.structs.little_endian), 0, $k)",
                           "forall(lambda j: entries[$base + j].length == tuple_word($B, $t0 + 2 * aranges_header.address_size * j + aranges_header.address_size,"
                           " aranges_header.address_size, self.structs.little_endian), 0, $k)",
                           "forall(lambda j: entries[$base + j].begin_addr != 0 or entries[$base + j].length != 0, 0, $k)",
                           "forall(lambda j: entries[$base + j].info_offset == aranges_header.debug_info_offset, 0, $k)"],
                exit=["addr == 0 and length == 0"], shapes={"entries": ListOf(AREntryT)}),
    }
    may_raise = ["ELFParseError", "NotImplementedError", "AssertionError", "ZeroDivisionError", "OverflowError"]


ARangesT = Obj('ARanges', entries=ListOf(AREntryT), keys=ListOf(Nat))


@contract("elftools/dwarf/aranges.py", "ARanges.cu_offset_at_addr", props=["C13"])
class cu_offset_at_addr:
    """the info offset of the range [begin, begin + length) containing the address; nothing when no
    range contains it.  Well-formed table: entries sorted by start (established by the constructor)
    and pairwise disjoint."""
    params = dict(self=ARangesT, addr=Nat)
    requires = ["len(self.keys) == len(self.entries)",
                "forall(lambda i: self.keys[i] == self.entries[i].begin_addr, 0, len(self.entries))",
                "forall(lambda i, j: i >= j or self.entries[i].begin_addr + self.entries[i].length <= self.entries[j].begin_addr,"
                " 0, len(self.entries), 0, len(self.entries))"]
    returns = Opt(Nat)
    ensures = ["result is None or exists(lambda i: self.entries[i].begin_addr <= addr and"
               " addr < self.entries[i].begin_addr + self.entries[i].length and result == self.entries[i].info_offset,"
               " 0, len(self.entries))",
               "result is not None or forall(lambda i: not (self.entries[i].begin_addr <= addr and"
               " addr < self.entries[i].begin_addr + self.entries[i].length), 0, len(self.entries))"]


for _q in ("DWARFInfo._is_supported_version",):
    @contract("elftools/dwarf/dwarfinfo.py", _q, props=["C13", "C04", "C10"])
    class _inl2:
        inline = True


@contract("elftools/dwarf/compileunit.py", "CompileUnit.__init__", props=["C13", "C04", "C10"])
class cu_init:
    inline = True
