from pyvc.contracts import contract
from pyvc.shapes import *
from pyvc.shapes import Shape
from contracts._shapes import *
from specs.elf import P, SZ, secname, chain_off, gen_len, gen_elem

StrTab = SectionT('StringTableSection')
VernauxT = Rec(vna_hash=U32, vna_flags=U16, vna_other=U16, vna_name=U32, vna_next=U32)
VerdauxT = Rec(vda_name=U32, vda_next=U32)
VerneedT = Rec(vn_version=U16, vn_cnt=U16, vn_file=U32, vn_aux=U32, vn_next=U32)
VerdefT = Rec(vd_version=U16, vd_flags=U16, vd_ndx=U16, vd_cnt=U16, vd_hash=U32, vd_aux=U32, vd_next=U32)
AuxNeed = Obj('VersionAuxiliary', entry=VernauxT, name=Str)
AuxDef = Obj('VersionAuxiliary', entry=VerdauxT, name=Str)


def AuxRet(self, **kw):
    return AuxNeed if self.attrs['field_prefix'] == 'vn' else AuxDef


def VerSecT(prefix):
    main, aux = ('Elf_Verneed', 'Elf_Vernaux') if prefix == 'vn' else ('Elf_Verdef', 'Elf_Verdaux')
    cls = 'GNUVerNeedSection' if prefix == 'vn' else 'GNUVerDefSection'
    return SectionT(cls, stringtable=StrTab, field_prefix=Const(prefix), version_struct=StructOf(main),
                    version_auxiliaries_struct=StructOf(aux), _has_indexes=Const(None))


for _cls in ("Version", "VersionAuxiliary"):
    for _m in ("__init__", "__getitem__"):
        @contract("elftools/elf/gnuversions.py", "%s.%s" % (_cls, _m), props=["C15"])
        class _i:
            inline = True


@contract("elftools/elf/gnuversions.py", "GNUVersionSection._field_name", props=["C15"])
class field_name:
    inline = True


@contract("elftools/elf/gnuversions.py", "GNUVersionSection.num_versions", props=["C15", "C19"])
class num_versions:
    """sh_info holds the number of entries"""
    params = dict(self=VerSecT('vn'))
    returns = Int
    ensures = ["result == self.header.sh_info"]


class _AuxParams(Shape):
    """self of either section kind (the contract is checked for both instantiations)"""

    def make(self, mk, name, idx=None):
        if mk.branch(mk.const(name + '.isneed', z3.BoolSort())):
            return VerSecT('vn').make(mk, name, idx)
        return VerSecT('vd').make(mk, name, idx)


import z3


@contract("elftools/elf/gnuversions.py", "GNUVersionSection._iter_version_auxiliaries", props=["C15", "C19"])
class iter_aux:
    """the auxiliary chain: entry 0 at entry_offset, entry k+1 at entry k + v[dn]a_next (a displacement,
    not contiguity); names through the linked string table"""
    params = dict(self=_AuxParams(), entry_offset=U64, count=U16)
    requires = ["self.structs.elfclass == self.elffile.elfclass"]
    ghost = {"$B": "self.stream.B", "$o0": "entry_offset",
             "$lay": "'Elf_Vernaux' if self.field_prefix == 'vn' else 'Elf_Verdaux'",
             "$nx": "'vna_next' if self.field_prefix == 'vn' else 'vda_next'",
             "$nm": "'vna_name' if self.field_prefix == 'vn' else 'vda_name'"}
    yield_shape = AuxRet
    # the walk yields `count` entries, or stops after the first entry whose displacement is zero (the end of the chain)
    loops = {0: dict(invariant=["entry_offset == chain_off($B, $o0, $k, $lay, $nx)", "$k == $n", "forall(lambda j: P($lay, $B, chain_off($B, $o0, j, $lay, $nx))[$nx] != 0, 0, $k)"],
                     # every completed iteration moves on by a non-zero displacement and a record is only read inside the
                     # file: the trip count is bounded by the file size whatever the counts say (C19)
                     variant="len($B) + 1 - entry_offset")}
    each_yield = ["value.entry == P($lay, $B, chain_off($B, $o0, $n, $lay, $nx))",
                  "value.name == secname(self.stringtable, value.entry[$nm])"]
    ensures = ["$n <= count", "$n == count or P($lay, $B, chain_off($B, $o0, $n - 1, $lay, $nx))[$nx] == 0", "forall(lambda j: P($lay, $B, chain_off($B, $o0, j, $lay, $nx))[$nx] != 0, 0, $n - 1)"]
    may_raise = ["ELFParseError", "OverflowError"]

VerNeed = Obj('Version', entry=VerneedT, name=Any)
VerDef = Obj('Version', entry=VerdefT, name=Any)


def VerRet(self, **kw):
    if self.attrs['field_prefix'] == 'vn':
        return TupleT(VerNeed, GenOf(AuxNeed))
    return TupleT(VerDef, GenOf(AuxDef))


@contract("elftools/elf/gnuversions.py", "GNUVersionSection.iter_versions", props=["C15", "C19"])
class iter_versions:
    """entry 0 at sh_offset, entry k+1 at entry k + v[dn]_next; each comes with the generator of its
    v[dn]_cnt auxiliaries starting at entry + v[dn]_aux"""
    params = dict(self=_AuxParams())
    requires = ["self.structs.elfclass == self.elffile.elfclass"]
    ghost = {"$B": "self.stream.B", "$o0": "self.header.sh_offset",
             "$lay": "'Elf_Verneed' if self.field_prefix == 'vn' else 'Elf_Verdef'",
             "$alay": "'Elf_Vernaux' if self.field_prefix == 'vn' else 'Elf_Verdaux'",
             "$nx": "'vn_next' if self.field_prefix == 'vn' else 'vd_next'",
             "$anx": "'vna_next' if self.field_prefix == 'vn' else 'vda_next'",
             "$aux": "'vn_aux' if self.field_prefix == 'vn' else 'vd_aux'",
             "$cnt": "'vn_cnt' if self.field_prefix == 'vn' else 'vd_cnt'"}
    yield_shape = VerRet
    loops = {0: dict(invariant=["entry_offset == chain_off($B, $o0, $k, $lay, $nx)", "$k == $n", "forall(lambda j: P($lay, $B, chain_off($B, $o0, j, $lay, $nx))[$nx] != 0, 0, $k)"],
                     # every completed iteration moves on by a non-zero displacement and a record is only read inside the
                     # file: the trip count is bounded by the file size whatever the counts say (C19)
                     variant="len($B) + 1 - entry_offset")}
    each_yield = ["value[0].entry == P($lay, $B, chain_off($B, $o0, $n, $lay, $nx))",
                  "gen_len(value[1]) <= value[0].entry[$cnt]",
                  "value[0].entry[$cnt] > 0",
                  "gen_len(value[1]) <= 0 or gen_elem(value[1], 0).entry =="
                  " P($alay, $B, chain_off($B, $o0, $n, $lay, $nx) + value[0].entry[$aux])"]
    ensures = ["$n <= self.header.sh_info",
               "$n == self.header.sh_info or P($lay, $B, chain_off($B, $o0, $n - 1, $lay, $nx))[$nx] == 0", "forall(lambda j: P($lay, $B, chain_off($B, $o0, j, $lay, $nx))[$nx] != 0, 0, $n - 1)"]
    raises_note = "a zero auxiliary count is rejected"
    may_raise = ["ELFError", "OverflowError"]


VersymT = SectionT('GNUVerSymSection', symboltable=SectionT('SymbolTableSection', stringtable=StrTab,
                                                                _symbol_name_map=NoneT))


@contract("elftools/elf/gnuversions.py", "GNUVerSymSection.num_symbols", props=["C15"])
class versym_num:
    params = dict(self=VersymT)
    requires = ["self.header.sh_entsize > 0"]
    returns = Int
    ensures = ["result == self.header.sh_size // self.header.sh_entsize"]


@contract("elftools/elf/gnuversions.py", "GNUVerSymSection.get_symbol", props=["C15"])
class versym_get:
    """exactly one index per dynamic symbol, paired with that symbol's name"""
    params = dict(self=VersymT, n=Nat)
    requires = ["self.structs.elfclass == self.elffile.elfclass",
                "self.symboltable.structs.elfclass == self.symboltable.elffile.elfclass"]
    returns = Obj('Symbol', entry=Rec(ndx=CodeT(16)), name=Str)
    ghost = {"$o": "self.header.sh_offset + n * self.header.sh_entsize",
             "$so": "self.symboltable.header.sh_offset + n * self.symboltable.header.sh_entsize"}
    ensures = ["result.entry == P('Elf_Versym', self.stream.B, $o)",
               "result.name == secname(self.symboltable.stringtable, P('Elf_Sym', self.symboltable.stream.B, $so).st_name)"]
    raises = {"ELFParseError": "$o + 2 > len(self.stream.B) or"
                               " $so + SZ('Elf_Sym', self.symboltable.elffile.elfclass) > len(self.symboltable.stream.B)"}
    may_raise = ["OverflowError"]


@contract("elftools/elf/gnuversions.py", "GNUVerSymSection.iter_symbols", props=["C15"])
class versym_iter:
    params = dict(self=VersymT)
    requires = ["self.structs.elfclass == self.elffile.elfclass", "self.header.sh_entsize > 0",
                "self.symboltable.structs.elfclass == self.symboltable.elffile.elfclass"]
    yield_shape = Obj('Symbol', entry=Rec(ndx=CodeT(16)), name=Str)
    loops = {0: dict(invariant=["$k == $n"])}
    each_yield = ["value.entry == P('Elf_Versym', self.stream.B, self.header.sh_offset + $n * self.header.sh_entsize)"]
    ensures = ["$n == self.header.sh_size // self.header.sh_entsize"]
    may_raise = ["ELFParseError", "OverflowError"]


@contract("elftools/elf/gnuversions.py", "GNUVerDefSection.get_version", props=["C15"])
class verdef_get_version:
    """the first definition carrying the index; nothing when no entry carries it"""
    params = dict(self=VerSecT('vd'), index=U16)
    requires = ["self.structs.elfclass == self.elffile.elfclass"]
    ghost = {"$B": "self.stream.B", "$o0": "self.header.sh_offset"}
    returns = Any
    loops = {0: dict(invariant=["forall(lambda j: P('Elf_Verdef', $B, chain_off($B, $o0, j, 'Elf_Verdef', 'vd_next')).vd_ndx != index, 0, $k)"])}
    ensures = ["result is None or result[0].entry.vd_ndx == index",
               "result is None or (result[0].entry == P('Elf_Verdef', $B, chain_off($B, $o0, $k0, 'Elf_Verdef', 'vd_next'))"
               " and forall(lambda j: P('Elf_Verdef', $B, chain_off($B, $o0, j, 'Elf_Verdef', 'vd_next')).vd_ndx != index, 0, $k0))",
               # nothing: no enumerated definition carries the index; the enumeration covers sh_info definitions or ends at the
               # first zero displacement
               "result is not None or forall(lambda j: P('Elf_Verdef', $B, chain_off($B, $o0, j, 'Elf_Verdef', 'vd_next')).vd_ndx != index,"
               " 0, $k0)",
               "result is not None or $k0 == self.header.sh_info"
               " or P('Elf_Verdef', $B, chain_off($B, $o0, $k0 - 1, 'Elf_Verdef', 'vd_next')).vd_next == 0"]
    may_raise = ["ELFError", "OverflowError"]


@contract("elftools/elf/gnuversions.py", "GNUVerNeedSection.iter_versions", props=["C15"])
class verneed_iter_versions:
    """the base enumeration, each requirement named by the string at vn_file"""
    params = dict(self=VerSecT('vn'))
    requires = ["self.structs.elfclass == self.elffile.elfclass"]
    ghost = {"$B": "self.stream.B", "$o0": "self.header.sh_offset"}
    yield_shape = TupleT(Obj('Version', entry=VerneedT, name=Str), GenOf(AuxNeed))
    loops = {0: dict(invariant=["$k == $n"])}
    each_yield = ["value[0].entry == P('Elf_Verneed', $B, chain_off($B, $o0, $n, 'Elf_Verneed', 'vn_next'))",
                  "value[0].name == secname(self.stringtable, value[0].entry.vn_file)",
                  "gen_len(value[1]) <= value[0].entry.vn_cnt",
                  "gen_len(value[1]) <= 0 or gen_elem(value[1], 0).entry =="
                  " P('Elf_Vernaux', $B, chain_off($B, $o0, $n, 'Elf_Verneed', 'vn_next') + value[0].entry.vn_aux)"]
    ensures = ["$n <= self.header.sh_info",
               "$n == self.header.sh_info or P('Elf_Verneed', $B, chain_off($B, $o0, $n - 1, 'Elf_Verneed', 'vn_next')).vn_next == 0"]
    may_raise = ["ELFError", "OverflowError"]


def _linked(name, want):
    @contract("elftools/elf/elffile.py", "ELFFile." + name, props=["C01", "C03", "C15"])
    class _l:
        """section links are followed with target type validation"""
        params = dict(self=ELFFileT(_section_header_stringtable=Opt(SectionT('StringTableSection'))), n=Nat)
        requires = ELFFILE_INV
        returns = Obj('Section', header=ShdrT, name=Str)
        ghost = {"$o": "self.header.e_shoff + n * self.header.e_shentsize",
                 "$h": "P('Elf_Shdr', self.stream.B, self.header.e_shoff + n * self.header.e_shentsize)"}
        ensures = ["result.header == $h", "result.header.sh_type in %r" % (want,), "$o <= self.stream_len"]
        # a link to a slot that starts beyond the end of the file: the header lookup answers None and the type test
        # subscripts it (TypeError: allowed from an enumeration by C19, never reached by the constructor); so may the
        # construction of the linked section itself, which follows its own link
        may_raise = ["ELFError", "OverflowError", "TypeError", "AttributeError"]
    return _l


_linked("_get_linked_symtab_section", ('SHT_SYMTAB', 'SHT_DYNSYM'))
_linked("_get_linked_strtab_section", ('SHT_STRTAB',))


@contract("elftools/elf/gnuversions.py", "GNUVerNeedSection.get_version", props=["C15"])
class verneed_get_version:
    """the requirement and auxiliary entry whose vna_other equals the index, searched over EVERY requirement
    entry and every auxiliary of each; nothing only when no auxiliary of any entry carries the index"""
    params = dict(self=VerSecT('vn'), index=Nat)
    requires = ["self.structs.elfclass == self.elffile.elfclass"]
    returns = Opt(TupleT(VerNeed, AuxNeed))
    loops = {0: dict(invariant=["forall(lambda i, j: j >= gen_len($seq0[i][1]) or gen_elem($seq0[i][1], j).entry.vna_other != index,"
                                " 0, $k, 0, 65536)"]),
             1: dict(invariant=["forall(lambda j: gen_elem(vernaux_iter, j).entry.vna_other != index, 0, $k)"])}
    ensures = ["result is None or result[1].entry.vna_other == index",
               "result is not None or forall(lambda i, j: j >= gen_len($seq0[i][1]) or gen_elem($seq0[i][1], j).entry.vna_other != index,"
               " 0, len($seq0), 0, 65536)"]
    may_raise = ["ELFError", "OverflowError"]


ALLZ = ("forall(lambda i, j: j >= gen_len($seq0[i][1]) or gen_elem($seq0[i][1], j).entry.vna_other == 0, 0, %s, 0, 65536)")


@contract("elftools/elf/gnuversions.py", "GNUVerNeedSection.has_indexes", props=["C15"])
class verneed_has_indexes:
    """(first call: nothing memoised) False only if every auxiliary of every requirement has vna_other == 0; the
    answer is memoised"""
    params = dict(self=VerSecT('vn'))
    requires = ["self.structs.elfclass == self.elffile.elfclass"]
    returns = Bool
    modifies = ["self._has_indexes"]
    loops = {0: dict(invariant=["self._has_indexes == True or self._has_indexes == False",
                                "self._has_indexes == True or " + ALLZ % "$k"]),
             1: dict(ghost_entry={"$h0": "self._has_indexes"},
                     invariant=["forall(lambda j: gen_elem(vernaux_iter, j).entry.vna_other == 0, 0, $k)", "self._has_indexes == $h0"])}
    ensures = ["result == True or result == False", "self._has_indexes == result",
               "result == True or " + ALLZ % "len($seq0)"]
    may_raise = ["ELFError", "OverflowError"]
