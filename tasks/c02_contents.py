"""C02 (bounded part): images written by the independent writer (specs/elf_writer.py, gABI layouts) are
read through the real ELFFile:
  * address ranges against random program header tables (overlapping, abutting, nested and disjoint PT_LOAD
    segments, other segment types interleaved): ELFFile.address_offsets yields, in table order, exactly
    start - p_vaddr + p_offset of every PT_LOAD segment whose file-backed extent wholly contains the range;
  * section contents by index for plain, SHF_COMPRESSED and SHT_NOBITS-free images in which several sections
    carry the same name and different payloads (COMDAT-style), read in several orders and repeatedly.
Complements the K1 contracts of contracts/c02_contents.py (which prove each yielded offset and the contents of
one section for all inputs, but not the completeness of the enumeration nor independence between sections)."""
import io
import random
import struct
import zlib
from pyvc.run import task

PT_LOAD, PT_DYNAMIC, PT_NOTE, PT_TLS = 1, 2, 4, 7


def phdr_image(cls, le, segs):
    e = '<' if le else '>'
    ident = b'\x7fELF' + bytes([1 if cls == 32 else 2, 1 if le else 2, 1, 0]) + b'\x00' * 8
    if cls == 64:
        hdr = ident + struct.pack(e + 'HHIQQQIHHHHHH', 2, 62, 1, 0, 64, 0, 0, 64, 56, len(segs), 64, 0, 0)
        tab = b''.join(struct.pack(e + 'IIQQQQQQ', t, 4, off, va, va, fsz, msz, 1) for (t, off, va, fsz, msz) in segs)
    else:
        hdr = ident + struct.pack(e + 'HHIIIIIHHHHHH', 2, 3, 1, 0, 52, 0, 0, 52, 32, len(segs), 40, 0, 0)
        tab = b''.join(struct.pack(e + 'IIIIIIII', t, off, va, va, fsz, msz, 4, 1) for (t, off, va, fsz, msz) in segs)
    return hdr + tab


def gen_segments(rng, cls):
    top = 1 << (31 if cls == 32 else 47)
    segs = []
    anchors = [rng.randrange(0, top) & ~0xfff for _ in range(3)]
    for _ in range(rng.choice([0, 1, 2, 4, 7])):
        t = rng.choice([PT_LOAD, PT_LOAD, PT_LOAD, PT_DYNAMIC, PT_NOTE, PT_TLS])
        va = rng.choice(anchors) + rng.choice([0, 0, 0x10, 0x800, 0x1000])       # overlapping / nested / abutting extents
        fsz = rng.choice([0, 1, 0x10, 0x800, 0x1000, 0x1800])
        msz = fsz + rng.choice([0, 0, 0x100])
        segs.append((t, rng.randrange(0, 1 << 20), va, fsz, msz))
    return segs, anchors


def case_offsets(rng):
    from elftools.elf.elffile import ELFFile
    cls, le = rng.choice([32, 64]), rng.random() < 0.5
    segs, anchors = gen_segments(rng, cls)
    ef = ELFFile(io.BytesIO(phdr_image(cls, le, segs)))
    for _ in range(12):
        start = rng.choice(anchors) + rng.choice([0, 1, 0xf, 0x10, 0x7ff, 0x800, 0xfff, 0x1000, 0x17ff, 0x1800, 0x2000])
        size = rng.choice([0, 1, 1, 2, 0x10, 0x800, 0x1000])
        want = [start - va + off for (t, off, va, fsz, msz) in segs if t == PT_LOAD and start >= va and start + size <= va + fsz]
        got = list(ef.address_offsets(start, size))
        if got != want:
            return ('address_offsets(%#x, %#x) = %r; the PT_LOAD segments containing the range give %r' % (
                start, size, [hex(x) for x in got], [hex(x) for x in want]),
                'class %d le=%s segments (type, offset, vaddr, filesz, memsz) = %r' % (cls, le, segs), phdr_image(cls, le, segs).hex())
    return None


def case_same_names(rng):
    from elftools.elf.elffile import ELFFile
    from specs import elf_writer as W
    cls, le = rng.choice([32, 64]), rng.random() < 0.5
    names = ['.debug_macro', '.debug_macro', '.text.f', '.debug_info', '.debug_macro', '.text.f']
    rng.shuffle(names)
    secs, payloads = [], []
    for n in names[:rng.choice([2, 4, 6])]:
        p = bytes(rng.randrange(256) for _ in range(rng.choice([0, 1, 63, 64, 65, 600])))
        if rng.random() < 0.6:
            secs.append((n, W.chdr(cls, le, len(p), rng.choice([1, 4, 16])) + zlib.compress(p, rng.choice([0, 1, 9])), W.SHF_COMPRESSED))
        else:
            secs.append((n, p, 0))
        payloads.append(p)
    img = W.write_elf(cls, le, secs)
    ef = ELFFile(io.BytesIO(img))
    order = list(range(len(secs))) * 2
    rng.shuffle(order)
    for i in order:
        s = ef.get_section(i + 1)
        d = s.data()
        if s.name != secs[i][0] or d != payloads[i]:
            return ('section #%d %s: data() returns %d bytes %s..., the encoded contents are %d bytes %s...' % (
                i + 1, s.name, len(d), d[:8].hex(), len(payloads[i]), payloads[i][:8].hex()),
                'class %d le=%s sections %r read in order %r' % (cls, le, [(n, len(p), f) for (n, _d, f), p in zip(secs, payloads)], order),
                img.hex()[:3000])
    return None


def case_strings(rng):
    """a string table whose strings have lengths around the multiples of the 64-byte read chunk, at arbitrary offsets: the
    lookup at any offset inside a string returns its tail up to the terminator, whatever its length"""
    from elftools.elf.elffile import ELFFile
    from tasks._img import sections_image
    cls, le = rng.choice([32, 64]), rng.random() < 0.5
    lens = [rng.choice([0, 1, 2, 62, 63, 64, 65, 66, 127, 128, 129, 191, 192, 193, 255, 256, 300]) for _ in range(rng.choice([1, 3, 6]))]
    tab, starts = b'\x00', []
    for n in lens:
        starts.append(len(tab))
        tab += bytes(rng.choice(b'abcdefghijklmnopqrstuvwxyz_.$') for _ in range(n)) + b'\x00'
    pre = rng.choice([0, 1, 13, 63, 64])             # the table starts at an arbitrary file offset
    img, _ = sections_image(cls, le, [dict(name='.pad', type=1, data=b'\xaa' * pre), dict(name='.strtab', type=3, data=tab)])
    st = ELFFile(io.BytesIO(img)).get_section_by_name('.strtab')
    for s0, n in zip(starts, lens):
        for off in {s0, s0 + n, s0 + n // 2, s0 + max(0, n - 64), s0 + max(0, n - 65), s0 + min(n, 1)}:
            want = tab[off:tab.index(b'\x00', off)].decode('utf-8')
            got = st.get_string(off)
            if got != want:
                return ('get_string(%d) returns %d characters %r..., the string there has %d: %r...' % (off, len(got), got[:20], len(want), want[:20]),
                        'class %d le=%s string lengths %r, table at file offset +%d' % (cls, le, lens, pre), img.hex())
    return None


@task('c02-contents-differential', ['C02'], kind='bounded')
def contents(tier, seed):
    rng = random.Random(seed + 202)
    n = 40 if tier == 'quick' else 3000
    obs = []
    for label, fn, how in (('address_offsets', case_offsets, 'ELFFile.address_offsets on a generated program header table'),
                           ('same-named sections', case_same_names, 'Section.data() by index on an image with same-named sections'),
                           ('string table lookups', case_strings, 'StringTableSection.get_string on a generated string table')):
        bad = None
        for _ in range(n):
            try:
                r = fn(rng)
            except Exception as e:
                import traceback
                r = ('real code raised %r (%s)' % (e, traceback.format_exc().splitlines()[-3].strip()), '', '')
            if r:
                bad = dict(confirmed=True, how=how, input=r[2][:3000], configuration=r[1][:1200], observed=r[0][:700],
                           expected='as encoded')
                break
        obs.append(dict(name='bounded:elf/elffile.py+sections.py:%s' % label, kind='bounded', verdict='refuted' if bad else 'proved',
                        backend='ground-eval(seeded differential, %d images)' % n, time=0.0, bounded=True,
                        detail=bad and bad['observed'], native=bad))
    return dict(obligations=obs, assumptions=['BOUNDED: seeded program header tables of 0-7 entries and images of 2-6 sections'],
                functions=[dict(function='elftools/elf/elffile.py:ELFFile.address_offsets/iter_segments; sections.py:Section.data '
                                         '(across sections of one file)', kind='bounded differential')], exhaustive=False)
