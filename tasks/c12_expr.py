"""C12: the operand dispatch table of the expression parser against the DWARF operation table
(specs/dwarf_ops.py).  For every (byte order, DWARF format, address size) the real table is built
through the real constructor (twice, in different orders, to expose state shared between parsers);
each entry's operand signature is read from its closure (factory + captured structs -> normal forms)
and must equal the standard's; every operation name must have an entry; names <-> opcodes must be
one to one apart from the range markers.  Each mismatch is replayed on concrete bytes generated from
the specification; a seeded sample of whole expressions (nested ones included) is parsed and compared
op by op (bounded stand-in for the parse loop, counted separately)."""
import random
import pyvc
from pyvc.run import task
from pyvc import k2


def _sig_of(fn):
    """operand signature of a dispatch entry read from its closure"""
    q = fn.__qualname__
    env = k2.closure_env(fn)

    def kind(con):
        nf = k2.normal_form(con)
        if nf[0] == 'int':
            return ('s' if nf[2] else 'u', nf[1]), nf[3]
        if nf[0] == 'uleb':
            return 'ULEB', None
        if nf[0] == 'sleb':
            return 'SLEB', None
        return ('?', repr(nf)), None
    if 'parse_noargs' in q:
        return [], []
    if 'parse_op_addr' in q:
        k, e = kind(env['structs'].the_Dwarf_target_addr)
        return [('ADDRW', k)], [e]
    if 'parse_arg_struct2' in q:
        (k1, e1), (k2_, e2) = kind(env['arg1_struct']), kind(env['arg2_struct'])
        return [k1, k2_], [e1, e2]
    if 'parse_arg_struct' in q:
        k, e = kind(env['arg_struct'])
        return [k], [e]
    if 'parse_nestedexpr' in q:
        return ['NESTED'], []
    if 'parse_typedblob' in q:
        return ['TYPEDBLOB'], []
    if 'parse_blob' in q:
        return ['BLOCK'], []
    if 'parse_wasmloc' in q:
        return ['WASM'], []
    return [('?', q)], []


def _expected(kinds, cfg):
    le, fmt, asz = cfg
    out = []
    for k in kinds:
        if k == 'ADDR':
            out.append(('ADDRW', ('u', asz)))
        elif k == 'OFF':
            out.append(('u', 4 if fmt == 32 else 8))
        else:
            out.append(k)
    return out


def _real_parse(parser, raw):
    ops = parser.parse_expr(list(raw))

    def conv(o):
        args = [([conv(x) for x in a] if (isinstance(a, list) and a and hasattr(a[0], 'op_name')) else a) for a in o.args]
        return (o.op, o.op_name, args, o.offset)
    return [conv(o) for o in ops]


@task('c12-dispatch-table', ['C12'], kind='K2')
def dispatch(tier, seed):
    import elftools.dwarf.dwarf_expr as X
    from elftools.dwarf.structs import DWARFStructs
    from specs import dwarf_ops as D
    rng = random.Random(seed + 12)
    REG_CODES = D.registry_opcodes()
    obs = {}
    cfgs = [(le, fmt, asz) for le in (True, False) for fmt in (32, 64) for asz in (4, 8)]
    orders = [cfgs, list(reversed(cfgs))]
    nconf = 0

    def ob(name):
        return obs.setdefault(name, dict(name=name, kind='K2', verdict='proved', backend='ground-eval', time=0.0,
                                         configs=0, detail=None))

    def fail(rec, detail, native=None):
        if rec['verdict'] == 'proved':
            rec['verdict'] = 'refuted'
            rec['detail'] = detail
            rec['native'] = native
    for order in orders:
        DWARFStructs._structs_cache.clear()
        for a in ('_dispatch_table_cache', '_cache', '_table_cache'):
            if hasattr(X.DWARFExprParser, a):
                try:
                    getattr(X.DWARFExprParser, a).clear()
                except Exception:
                    pass
        for cfg in order:
            le, fmt, asz = cfg
            nconf += 1
            st = DWARFStructs(little_endian=le, dwarf_format=fmt, address_size=asz, dwarf_version=4)
            parser = X.DWARFExprParser(st)
            table = parser._dispatch_table
            for name, kinds in sorted(D.OPS.items()):
                oname = 'K2:dwarf/dwarf_expr.py:dispatch[%s]' % name
                rec = ob(oname)
                rec['configs'] += 1
                code = X.DW_OP_name2opcode.get(name)
                if code is None:
                    fail(rec, 'operation %s of the standard is not in DW_OP_name2opcode' % name)
                    continue
                raw, args = D.gen_operands(kinds, cfg, rng)
                if name in REG_CODES and code not in REG_CODES[name]:
                    wc = sorted(REG_CODES[name])[0]
                    try:
                        seen = repr(_real_parse(parser, bytes([wc]) + raw))[:300]
                    except Exception as e:
                        seen = 'raised %r' % (e,)
                    fail(rec, 'operation %s has opcode %#x in DW_OP_name2opcode, the registry assigns %s' % (
                        name, code, [hex(c) for c in sorted(REG_CODES[name])]),
                         dict(confirmed=True, how='DWARFExprParser.parse_expr on the operation encoded with its registry opcode',
                              input=(bytes([wc]) + raw).hex(), observed=seen, expected=repr([(wc, name, args, 0)])[:300]))
                    continue
                if code not in table:
                    fail(rec, 'configuration %r: no dispatch entry for %s (opcode %#x)' % (cfg, name, code),
                         dict(confirmed=True, how='DWARFExprParser.parse_expr on an expression using the operation',
                              input=(bytes([code]) + raw).hex(), observed='KeyError(%d)' % code, expected=repr(args)))
                    continue
                try:
                    sig, ends = _sig_of(table[code])
                except k2.K2Error as e:
                    rec['verdict'] = 'undecided'
                    rec['reason'] = str(e)
                    continue
                want = _expected(kinds, cfg)
                bad = sig != want
                en = 'le' if le else 'be'
                bad_endian = any(e is not None and e != en and k not in (('u', 1), ('s', 1)) and k[1] not in (('u', 1),)
                                 for k, e in zip(sig, ends) if isinstance(k, tuple))
                # replay on concrete bytes (three samples per configuration)
                nat = None
                for _ in range(3):
                    raw, args = D.gen_operands(kinds, cfg, rng)
                    expr = bytes([code]) + raw
                    try:
                        got = _real_parse(parser, expr)
                        ok = got == [(code, name if X.DW_OP_opcode2name.get(code) == name else X.DW_OP_opcode2name.get(code), args, 0)]
                        obs_txt = repr(got)
                    except Exception as e:
                        ok, obs_txt = False, 'raised %r' % (e,)
                    if not ok:
                        nat = dict(confirmed=True, how='DWARFExprParser.parse_expr on bytes encoded from the specification',
                                   input=expr.hex(), configuration=repr(cfg), observed=obs_txt[:400],
                                   expected=repr([(code, name, args, 0)])[:400])
                        break
                if bad or bad_endian or nat:
                    fail(rec, 'configuration (little_endian, format, address_size) = %r: operands %r, DWARF table: %r' % (cfg, sig, want), nat)
    # names <-> opcodes
    names = {n: c for n, c in X.DW_OP_name2opcode.items() if n not in D.RANGE_MARKERS}
    rev = {}
    for n, c in names.items():
        rev.setdefault(c, []).append(n)
    dup = {c: ns for c, ns in rev.items() if len(ns) > 1}
    rec = ob('K2:dwarf/dwarf_expr.py:name<->opcode bijection')
    if dup:
        fail(rec, 'opcodes with several operation names: %r' % dup)
    inv = X.DW_OP_opcode2name
    badinv = [(c, n) for c, n in inv.items() if X.DW_OP_name2opcode.get(n) != c]
    missing = [n for n, c in names.items() if inv.get(c) != n]
    if badinv or missing:
        fail(rec, 'reverse map inconsistent: %r %r' % (badinv[:4], missing[:4]))
    unknown = [n for n in names if n not in D.OPS]
    rec2 = ob('K2:dwarf/dwarf_expr.py:every listed name has a specified operand list')
    if unknown:
        fail(rec2, 'names without specification: %r' % unknown)
    # whole expressions (bounded stand-in for the parse loop / re-encoding identity)
    bad = None
    n = 400 if tier == 'quick' else 20000
    st = DWARFStructs(little_endian=True, dwarf_format=32, address_size=8, dwarf_version=4)
    for i in range(n):
        cfg = rng.choice(cfgs)
        st = DWARFStructs(little_endian=cfg[0], dwarf_format=cfg[1], address_size=cfg[2], dwarf_version=4)
        parser = X.DWARFExprParser(st)
        raw, ops = D.gen_expr(cfg, rng, 0, rng.randrange(0, 8), [x for x in D.OPS if x in X.DW_OP_name2opcode])
        want = [(c, X.DW_OP_opcode2name.get(c), _norm(a), o) for (c, nme, a, o) in ops]
        try:
            got = _real_parse(parser, raw)
            ok = got == want
            txt = repr(got)[:400]
        except Exception as e:
            ok, txt = False, 'raised %r' % (e,)
        if not ok:
            bad = dict(confirmed=True, how='parse_expr on a generated expression', input=raw.hex(), configuration=repr(cfg),
                       observed=txt, expected=repr(want)[:400])
            break
    out = list(obs.values())
    out.append(dict(name='bounded:dwarf/dwarf_expr.py:parse_expr sequences', kind='bounded', verdict='refuted' if bad else 'proved',
                    backend='ground-eval(seeded sample of %d expressions)' % n, time=0.0, bounded=True,
                    detail=bad and repr(bad)[:300], native=bad))
    return dict(obligations=out, assumptions=[
        'operand kinds transcribed from DWARF v5 7.7.1 and the GNU/WASM extension descriptions',
        'opcode numbers: LLVM 14 Dwarf.def (vendored) and, for the GNU vendor block it omits, a hand transcription of binutils '
        'dwarf2.def (registry/supplement.json; not re-derivable offline); DW_OP_WASM_location has no registry number',
        'BOUNDED: whole-expression parsing (offsets, nesting, exact consumption) is a seeded sample, not a proof',
        'the four composite operand parsers (block, typed block, nested expression, WASM location) are identified by '
        'their factory and validated by concrete replay in every configuration'],
        functions=[dict(function='elftools/dwarf/dwarf_expr.py:_init_dispatch_table (+closures), DWARFExprParser.__init__',
                        kind='K2', configurations=nconf)], exhaustive=True)


def _norm(args):
    out = []
    for a in args:
        if isinstance(a, list) and a and isinstance(a[0], tuple):
            import elftools.dwarf.dwarf_expr as X
            out.append([(c, X.DW_OP_opcode2name.get(c), _norm(aa), o) for (c, n, aa, o) in a])
        else:
            out.append(a)
    return out
