"""C08 (bounded part): relocatable objects written by the independent ELF writer carry one relocation
section against a data section; RelocationHandler.find_relocations_for_section + apply_section_relocations
(the path get_dwarf_info uses) must leave in every relocated field the value of the processor-ABI formula,
wrapped to the field width, in the file's byte order, and must leave every other byte untouched.
Oracle: the formula table of tasks/c08_recipes.py (DESIGN appendix A.6), evaluated here on concrete
operands -- S symbol value, A addend (explicit for RELA, the in-place field for REL), P place, V field."""
import io
import random
from pyvc.run import task

# machine name -> (e_machine, class, uses RELA, enum name, [little endian choices])
MACHINES = {
    'x86': (3, 32, False, 'ENUM_RELOC_TYPE_i386', [True]),
    'x64': (62, 64, True, 'ENUM_RELOC_TYPE_x64', [True]),
    'ARM': (40, 32, False, 'ENUM_RELOC_TYPE_ARM', [True, False]),
    'AArch64': (183, 64, True, 'ENUM_RELOC_TYPE_AARCH64', [True, False]),
    'MIPS-REL': (8, 32, False, 'ENUM_RELOC_TYPE_MIPS', [True, False]),
    'MIPS-RELA': (8, 64, True, 'ENUM_RELOC_TYPE_MIPS', [True, False]),
    'PPC64': (21, 64, True, 'ENUM_RELOC_TYPE_PPC64', [True, False]),
    'S390X': (22, 64, True, 'ENUM_RELOC_TYPE_S390X', [False]),
    'LoongArch': (258, 64, True, 'ENUM_RELOC_TYPE_LOONGARCH', [True]),
    # ILP32 objects of 64-bit machines (x32, LoongArch ILP32): ELFCLASS32 files whose 8-byte relocation types still patch 8 bytes
    'x64-ILP32': (62, 32, True, 'ENUM_RELOC_TYPE_x64', [True]),
    'LoongArch-ILP32': (258, 32, True, 'ENUM_RELOC_TYPE_LOONGARCH', [True]),
}
TABLE_OF = {'x86': '_RELOCATION_RECIPES_X86', 'x64': '_RELOCATION_RECIPES_X64', 'ARM': '_RELOCATION_RECIPES_ARM',
            'AArch64': '_RELOCATION_RECIPES_AARCH64', 'MIPS-REL': '_RELOCATION_RECIPES_MIPS_REL', 'MIPS-RELA': '_RELOCATION_RECIPES_MIPS_RELA',
            'PPC64': '_RELOCATION_RECIPES_PPC64', 'S390X': '_RELOCATION_RECIPES_S390X', 'LoongArch': '_RELOCATION_RECIPES_LOONGARCH',
            'x64-ILP32': '_RELOCATION_RECIPES_X64', 'LoongArch-ILP32': '_RELOCATION_RECIPES_LOONGARCH'}
KNOWN_MIPS_RELA = {'R_MIPS_32', 'R_MIPS_64'}      # recorded known finding: the in-place value is added to the explicit addend


def one_case(rng, mach, tname, spec):
    from specs import elf_writer as W
    import elftools.elf.enums as E
    from elftools.elf.elffile import ELFFile
    from elftools.elf.relocation import RelocationHandler
    em, cls, rela, enum, les = MACHINES[mach]
    le = rng.choice(les)
    size, has_add, formula = spec
    code = getattr(E, enum)[tname]
    n = 64
    data = bytearray(rng.randrange(256) for _ in range(n))
    symbols = [0] + [rng.choice([0, 1, 0x1000, 2 ** 31, 2 ** 32 - 1, rng.randrange(2 ** (32 if cls == 32 else 63))]) for _ in range(3)]
    places = rng.sample(range(0, n - 8, 8), rng.choice([1, 2, 3]))
    relocs = []
    for p in places:
        big = rng.randrange(-2 ** 40, 2 ** 40) if cls == 64 else rng.randrange(-2 ** 31, 2 ** 31)        # r_addend is class-sized
        relocs.append((p, rng.randrange(1, len(symbols)), code, rng.choice([0, 1, -1, 0x100, -0x80000000, big]) if rela else None))
    image = W.write_object(cls, le, em, '.data1', bytes(data), relocs, symbols, rela)
    ef = ELFFile(io.BytesIO(image))
    sec = ef.get_section_by_name('.data1')
    h = RelocationHandler(ef)
    rs = h.find_relocations_for_section(sec)
    if rs is None:
        return 'find_relocations_for_section found no relocation section for .data1'
    stream = io.BytesIO(bytes(data))
    h.apply_section_relocations(stream, rs)
    got = stream.getvalue()
    want = bytearray(data)
    bo = 'little' if le else 'big'
    for (p, s, _t, a) in relocs:
        V = int.from_bytes(want[p:p + size], bo)
        env = dict(value=V, sym_value=symbols[s], offset=p, addend=(a if rela else 0))
        if mach == 'MIPS-RELA' and tname in KNOWN_MIPS_RELA:
            res = symbols[s] + V + a          # behaviour recorded as known finding (psABI: S + A)
        else:
            res = eval(formula, {}, env)
        want[p:p + size] = (res % (1 << (8 * size))).to_bytes(size, bo)
    if got != bytes(want):
        i = next(k for k in range(len(got)) if got[k] != want[k])
        return '%s %s (%s-endian): byte %d of the relocated section is %#x, the ABI formula gives %#x (relocations %r, symbols %r)' % (
            mach, tname, bo, i, got[i], want[i], relocs, symbols)
    return None


def loading_case(rng):
    """the loading path (ELFFile.get_dwarf_info): an x86-64 relocatable object with debug sections whose names are prefixes of
    one another (.debug_str / .debug_str_offsets, .debug_line / .debug_line_str, .debug_loc / .debug_loclists), only some of
    which have a relocation section: with relocation enabled exactly the sections that have one are patched (S + A for
    R_X86_64_32 / R_X86_64_64), the others and every section with relocation disabled keep their bytes -- whichever of the
    two settings is asked for first on one file object"""
    import struct
    from tasks._img import sections_image
    from elftools.elf.elffile import ELFFile
    names = ['.debug_info', '.debug_abbrev', '.debug_str', '.debug_str_offsets', '.debug_line', '.debug_line_str', '.debug_loc', '.debug_loclists']
    with_rel = {n for n in names if rng.random() < 0.5} | {rng.choice(['.debug_str_offsets', '.debug_line_str', '.debug_loclists'])}
    with_rel -= {rng.choice(['.debug_str', '.debug_line', '.debug_loc'])}       # a prefix name without relocations of its own
    symvals = [0, 0x1000, 0x222000, 0x7fff0000]
    symtab = b''.join(struct.pack('<IBBHQQ', 0, 0, 0, 1 if i else 0, v, 0) for i, v in enumerate(symvals))
    secs = [dict(name='.symtab', type=2, data=symtab, link=2, info=1, entsize=24, align=8), dict(name='.strtab', type=3, data=b'\x00')]
    data, want = {}, {}
    for n in names:
        d = bytearray(rng.randrange(256) for _ in range(48))
        data[n] = bytes(d)
        if n in with_rel:
            rel = b''
            for off in rng.sample([0, 8, 16, 24, 32, 40], rng.choice([1, 2])):
                typ, size = rng.choice([(10, 4), (1, 8)])        # R_X86_64_32, R_X86_64_64
                sym, add = rng.randrange(1, len(symvals)), rng.choice([0, 1, 0x40, -8])
                rel += struct.pack('<QQq', off, sym << 32 | typ, add)
                d[off:off + size] = ((symvals[sym] + add) % (1 << (8 * size))).to_bytes(size, 'little')
        want[n] = bytes(d)
        secs.append(dict(name=n, type=1, data=data[n]))
        if n in with_rel:
            secs.append(dict(name='.rela' + n, type=4, data=rel, link=1, info=len(secs), entsize=24, align=8, flags=0x40))
    img, _ = sections_image(64, True, secs, etype=1, machine=62)
    attr = {n: n[1:] + '_sec' for n in names}
    for order in ([True, False], [False, True], [True, True]):
        ef = ELFFile(io.BytesIO(img))
        for flag in order:
            dw = ef.get_dwarf_info(relocate_dwarf_sections=flag)
            for n in names:
                got = getattr(dw, attr[n]).stream.getvalue()
                exp = want[n] if flag else data[n]
                if got != exp:
                    i = next(k for k in range(len(got)) if k >= len(exp) or got[k] != exp[k])
                    return ('get_dwarf_info(relocate_dwarf_sections=%s) (calls on this file object: %r): byte %d of %s is %#x, expected %#x (%s)' % (
                        flag, order, i, n, got[i], exp[i] if i < len(exp) else -1,
                        'patched by its own relocation section' if flag and n in with_rel else 'this section has no relocations to apply'),
                        'sections with relocations: %r' % sorted(with_rel), img.hex())
    return None


@task('c08-loading-differential', ['C08'], kind='bounded')
def loading_diff(tier, seed):
    rng = random.Random(seed * 5 + 88)
    n = 25 if tier == 'quick' else 1500
    bad = None
    for _ in range(n):
        try:
            r = loading_case(rng)
        except Exception as e:
            import traceback
            r = ('raised %r (%s)' % (e, traceback.format_exc().splitlines()[-3].strip()), '', '')
        if r:
            bad = dict(confirmed=True, how='ELFFile.get_dwarf_info on a relocatable object written from the specification', input=r[2][:3000],
                       configuration=r[1][:600], observed=r[0][:700], expected='relocated fields hold S + A, every other byte is unchanged')
            break
    obs = [dict(name='bounded:elf/elffile.py+relocation.py:debug sections loaded with and without relocation', kind='bounded',
                verdict='refuted' if bad else 'proved', backend='ground-eval(seeded differential, %d objects)' % n, time=0.0, bounded=True,
                detail=bad and bad['observed'], native=bad)]
    return dict(obligations=obs, assumptions=['BOUNDED: x86-64 objects with eight debug sections of 48 bytes, 1-2 relocations per relocated section'],
                functions=[dict(function='elftools/elf/elffile.py:ELFFile.get_dwarf_info/_read_dwarf_section; relocation.py:find_relocations_for_section/'
                                         'apply_section_relocations', kind='bounded differential')], exhaustive=False)


@task('c08-apply-differential', ['C08'], kind='bounded')
def apply_diff(tier, seed):
    from tasks.c08_recipes import SPEC
    rng = random.Random(seed * 3 + 8)
    n = 8 if tier == 'quick' else 300
    obs = []
    for mach in sorted(MACHINES):
        bad = None
        types = sorted((t, spec) for (tab, _e, t), spec in SPEC.items() if tab == TABLE_OF[mach])
        cases = 0
        for tname, spec in types:
            for _ in range(n):
                cases += 1
                try:
                    r = one_case(rng, mach, tname, spec)
                except Exception as e:
                    import traceback
                    r = '%s %s: raised %r (%s)' % (mach, tname, e, traceback.format_exc().splitlines()[-3].strip())
                if r:
                    bad = bad or r
                    break
            if bad:
                break
        nat = bad and dict(confirmed=True, how='RelocationHandler.apply_section_relocations on an object written from the specification',
                           input=bad[-400:], observed=bad[:500], expected='field = ABI formula mod 2^width in the file byte order; other bytes untouched')
        obs.append(dict(name='bounded:elf/relocation.py:apply[%s]' % mach, kind='bounded', verdict='refuted' if bad else 'proved',
                        backend='ground-eval(seeded differential, %d objects)' % cases, time=0.0, bounded=True, detail=bad and bad[:500], native=nat))
    return dict(obligations=obs, assumptions=[
        'BOUNDED: one relocation section with 1-3 entries per object, operands sampled; MIPS RELA R_MIPS_32/64 compared against the recorded '
        'known finding (in-place value added)'],
        functions=[dict(function='elftools/elf/relocation.py:RelocationHandler.find_relocations_for_section/apply_section_relocations/'
                                 '_do_apply_relocation; RelocationSection.iter_relocations', kind='bounded differential')], exhaustive=False)
