"""K2 obligations for the ELF structures: the real ELFStructs factory code is run
for the complete configuration space and every resulting construct tree is
compared with the specification layout (specs/elf_layouts.py)."""
import time
import pyvc
from pyvc import k2
from pyvc.run import task

STRUCT_PROPS = {
    'Elf_Ehdr': ['C01', 'C19'], 'Elf_Phdr': ['C01'], 'Elf_Shdr': ['C01'], 'Elf_Chdr': ['C02', 'C11'],
    'Elf_Rel': ['C08'], 'Elf_Rela': ['C08'], 'Elf_Relr': ['C08'], 'Elf_Dyn': ['C09'], 'Elf_Sym': ['C03'],
    'Elf_Sunw_Syminfo': ['C03'], 'Elf_Verneed': ['C15'], 'Elf_Vernaux': ['C15'], 'Elf_Verdef': ['C15'],
    'Elf_Verdaux': ['C15'], 'Elf_Versym': ['C15'], 'Elf_abi': ['C14'], 'Elf_Prop': ['C14'], 'Elf_Nhdr': ['C14'],
    'Elf_Prpsinfo': ['C14'], 'Elf_Nt_File': ['C14'], 'Elf_Stabs': ['C14'], 'Elf_Attr_Subsection_Header': ['C20'],
    'Elf_Arm_Attribute_Tag': ['C20'], 'Elf_RiscV_Attribute_Tag': ['C20'], 'Elf_Hash': ['C03', 'C09'],
    'Gnu_Hash': ['C03', 'C09'], 'Gnu_debuglink': ['C11'],
}
PRIM_PROPS = ['C01', 'C16']


def config_space(tier, shard=None):
    import elftools.elf.enums as E
    machines = [k for k in E.ENUM_E_MACHINE if k != '_default_'] + [0xBEEF]
    osabis = ['ELFOSABI_LINUX', 'ELFOSABI_SOLARIS', 'ELFOSABI_SYSV', 0x77]
    etypes = ['ET_CORE', 'ET_EXEC', 0xFE00]
    for le in (True, False):
        for cls in (32, 64):
            if shard is not None and shard != (le, cls):
                continue
            for m in machines:
                for o in osabis:
                    for t in etypes:
                        yield (le, cls, t, m, o)


def run_k2(props_filter, tier, seed, shard=None):
    from elftools.elf.structs import ELFStructs
    from specs.elf_layouts import layouts
    t0 = time.time()
    seen = {}           # (struct, repr real, repr spec) -> verdict obligations
    fn_seen = {}
    obligations = {}
    nconf = 0
    import random
    rng = random.Random(seed + 17)
    ndiff = [0]
    for cfg in config_space(tier, shard):
        le, cls, t, m, o = cfg
        nconf += 1
        st = ELFStructs(little_endian=le, elfclass=cls)
        st.create_basic_structs()
        st.create_advanced_structs(t, m, o)
        L, P = layouts(le, cls, t, m, o)
        names = set(n for n in vars(st) if n[0].isupper() and hasattr(getattr(st, n), '_parse')
                    and not isinstance(getattr(st, n), type))
        spec_names = set(L)
        for n in sorted(names | spec_names):
            if props_filter is not None and not (set(STRUCT_PROPS.get(n, [])) & props_filter):
                continue
            oname = 'K2:elf/structs.py:%s' % n
            rec = obligations.setdefault(oname, dict(name=oname, kind='K2', verdict='proved', backend='ground-eval',
                                                     time=0.0, configs=0, detail=None))
            rec['configs'] += 1
            if n not in names:
                rec['verdict'] = 'refuted'
                rec['detail'] = rec['detail'] or ['struct %s missing in configuration %r' % (n, cfg)]
                continue
            if n not in spec_names:
                rec['verdict'] = 'refuted'
                rec['detail'] = rec['detail'] or ['struct %s has no specification layout' % n]
                continue
            try:
                real = k2.normal_form(getattr(st, n))
            except k2.K2Error as e:
                rec['verdict'] = 'error'
                rec['detail'] = [str(e)]
                continue
            key = (n, repr(real), repr(L[n]), cls if n in ('Elf_Prop',) else None)
            if key not in seen:
                out, fns = [], []
                k2.compare(real, L[n], n, out, fns)
                nat = None
                if out or len(seen) < 400:
                    nat = k2.differential(getattr(st, n), L[n], rng, n=60 if out else 6)
                seen[key] = (out, fns, cfg, nat)
                ndiff[0] += 1
            out, fns, cfg0, nat = seen[key]
            if out and rec['verdict'] == 'proved':
                rec['verdict'] = 'refuted'
                rec['detail'] = ['configuration (little_endian, elfclass, e_type, e_machine, osabi) = %r' % (cfg,)] + out[:6]
                if nat and nat.get('confirmed'):
                    nat['how'] = 'real struct of this configuration and Sem(specification layout) run on concrete bytes'
                    nat['configuration'] = repr(cfg)
                    rec['native'] = nat
            if not out and nat and rec['verdict'] == 'proved':
                rec['verdict'] = 'error'
                rec['detail'] = ['cross-check: layouts compare equal but real parser and Sem disagree: %r' % (nat,)]
            for path, rfn, spec in fns:
                fkey = (path, rfn.fn.__code__.co_filename, rfn.fn.__code__.co_firstlineno, spec.text, cls)
                if fkey in fn_seen:
                    continue
                r = k2.fn_equiv(rfn.fn, spec.text, spec.params, dict(spec.shapes), spec.requires,
                                name='K2:elf/structs.py:%s:fn[class%d]' % (path, cls))
                if r['verdict'] == 'error':
                    r['verdict'] = 'undecided'
                    r['reason'] = r.pop('error')
                fn_seen[fkey] = r
        if props_filter is None or set(PRIM_PROPS) & props_filter:
            for pn, want in P.items():
                oname = 'K2:elf/structs.py:%s' % pn
                rec = obligations.setdefault(oname, dict(name=oname, kind='K2', verdict='proved',
                                                         backend='ground-eval', time=0.0, configs=0, detail=None))
                rec['configs'] += 1
                try:
                    f = getattr(st, pn)
                    real = k2.normal_form(f('x'))
                except Exception as e:
                    rec['verdict'] = 'refuted'
                    rec['detail'] = ['%s: %s' % (pn, e)]
                    continue
                if real != want and rec['verdict'] == 'proved':
                    rec['verdict'] = 'refuted'
                    rec['detail'] = ['configuration %r: %s is %r, specification %r' % (cfg, pn, real, want)]
    obs = list(obligations.values()) + list(fn_seen.values())
    for o in obs:
        if o['verdict'] == 'error':
            o['verdict'] = 'undecided'
    return dict(obligations=obs, assumptions=[
        'Sem of construct node kinds (FormatField, Struct, Enum adapter, Array, Padding, CString, Switch, Value, Bitwise) '
        'as documented in DESIGN.md 2.8 is assumed where the class-level K1 obligation is not listed under C16',
        'enum dictionary contents are checked by C17; K2 checks which dictionary is attached where'],
        functions=[dict(function='elftools/elf/structs.py:ELFStructs.create_basic_structs+create_advanced_structs',
                        kind='K2', configurations=nconf)],
        exhaustive=True, configurations=nconf, wall=time.time() - t0)


def _mk(prop, shard):
    @task('k2-elf-structs[%s][%s%d]' % (prop, 'le' if shard[0] else 'be', shard[1]), [prop], kind='K2')
    def _t(tier, seed, prop=prop, shard=shard):
        return run_k2({prop}, tier, seed, shard)
    return _t


for _p in sorted(set(p for ps in STRUCT_PROPS.values() for p in ps) | set(PRIM_PROPS)):
    for _s in ((True, 32), (True, 64), (False, 32), (False, 64)):
        _mk(_p, _s)


@task('c19-struct-factories-raise-nothing', ['C19'], kind='ground')
def factories_raise_nothing(tier, seed):
    """C19: the two struct-factory calls of the ELFFile constructor are ASSUMED contracts in the K1 proof of the constructor's
    exception clause ("no effect, no exception").  Their arguments are (byte order, class) and the three header codes e_type,
    e_machine, EI_OSABI, which the factories only compare with names: the space {LSB, MSB} x {32, 64} x (every machine name +
    one unnamed number) x (the OS ABIs the code distinguishes + one other + one unnamed number) x (ET_CORE, another name, one
    unnamed number) is complete up to the choice of the unnamed number.  Both calls must return for every point of it."""
    from elftools.elf.structs import ELFStructs
    t0 = time.time()
    n, bad = 0, None
    for le, cls, t, m, o in config_space(tier):
        n += 1
        try:
            st = ELFStructs(little_endian=le, elfclass=cls)
            st.create_basic_structs()
            st.create_advanced_structs(t, m, o)
        except Exception as e:
            bad = bad or ((le, cls, t, m, o), repr(e))
    nat = bad and dict(confirmed=True, how='ELFStructs(little_endian, elfclass).create_basic_structs(); create_advanced_structs(e_type, e_machine, osabi)',
                       input=repr(bad[0]), observed=bad[1], expected='returns (the constructor may raise ELFError only)')
    obs = [dict(name='ground:elf/structs.py:create_basic_structs+create_advanced_structs raise nothing', kind='ground',
                verdict='refuted' if bad else 'proved', backend='ground-eval', time=round(time.time() - t0, 2),
                detail=bad and 'configuration %r: %s' % bad, native=nat)]
    return dict(obligations=obs, assumptions=['one unnamed number stands for every code without a name (the factories compare codes with names only)'],
                functions=[dict(function='elftools/elf/structs.py:ELFStructs.create_basic_structs+create_advanced_structs (exception freedom)',
                                kind='ground', configurations=n)], exhaustive=True, configurations=n)
