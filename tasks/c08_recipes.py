"""C08: relocation recipe tables against the processor-ABI formulas (DESIGN appendix A.6).
Per supported (machine, flavour, type): the recipe must exist, its field width and addend source
must match, and its calc function is proved equal to the psABI formula for all operands by the K1
evaluator (S symbol value, A addend, P place, V in-place field)."""
import time
import pyvc
from pyvc.run import task
from pyvc import k2, shapes as S

# (recipes attribute, enum dict name, type name) -> (bytes, uses r_addend, formula over value/sym_value/offset/addend)
# formulas use the library's operand names: value=V (in-place field), sym_value=S, offset=P, addend=A (0 when REL)
SPEC = {
    ('_RELOCATION_RECIPES_X86', 'ENUM_RELOC_TYPE_i386', 'R_386_NONE'): (4, False, 'value'),
    ('_RELOCATION_RECIPES_X86', 'ENUM_RELOC_TYPE_i386', 'R_386_32'): (4, False, 'sym_value + value'),          # S + A(in place)
    ('_RELOCATION_RECIPES_X86', 'ENUM_RELOC_TYPE_i386', 'R_386_PC32'): (4, False, 'sym_value + value - offset'),
    ('_RELOCATION_RECIPES_X64', 'ENUM_RELOC_TYPE_x64', 'R_X86_64_NONE'): (8, True, 'value'),
    ('_RELOCATION_RECIPES_X64', 'ENUM_RELOC_TYPE_x64', 'R_X86_64_64'): (8, True, 'sym_value + addend'),
    ('_RELOCATION_RECIPES_X64', 'ENUM_RELOC_TYPE_x64', 'R_X86_64_PC32'): (4, True, 'sym_value + addend - offset'),
    ('_RELOCATION_RECIPES_X64', 'ENUM_RELOC_TYPE_x64', 'R_X86_64_32'): (4, True, 'sym_value + addend'),
    ('_RELOCATION_RECIPES_X64', 'ENUM_RELOC_TYPE_x64', 'R_X86_64_32S'): (4, True, 'sym_value + addend'),
    ('_RELOCATION_RECIPES_ARM', 'ENUM_RELOC_TYPE_ARM', 'R_ARM_ABS32'): (4, False, 'sym_value + value'),
    ('_RELOCATION_RECIPES_AARCH64', 'ENUM_RELOC_TYPE_AARCH64', 'R_AARCH64_ABS64'): (8, True, 'sym_value + addend'),
    ('_RELOCATION_RECIPES_AARCH64', 'ENUM_RELOC_TYPE_AARCH64', 'R_AARCH64_ABS32'): (4, True, 'sym_value + addend'),
    ('_RELOCATION_RECIPES_AARCH64', 'ENUM_RELOC_TYPE_AARCH64', 'R_AARCH64_PREL32'): (4, True, 'sym_value + addend - offset'),
    ('_RELOCATION_RECIPES_MIPS_REL', 'ENUM_RELOC_TYPE_MIPS', 'R_MIPS_NONE'): (4, False, 'value'),
    ('_RELOCATION_RECIPES_MIPS_REL', 'ENUM_RELOC_TYPE_MIPS', 'R_MIPS_32'): (4, False, 'sym_value + value'),
    ('_RELOCATION_RECIPES_MIPS_RELA', 'ENUM_RELOC_TYPE_MIPS', 'R_MIPS_NONE'): (4, True, 'value'),
    ('_RELOCATION_RECIPES_MIPS_RELA', 'ENUM_RELOC_TYPE_MIPS', 'R_MIPS_32'): (4, True, 'sym_value + addend'),
    ('_RELOCATION_RECIPES_MIPS_RELA', 'ENUM_RELOC_TYPE_MIPS', 'R_MIPS_64'): (8, True, 'sym_value + addend'),
    ('_RELOCATION_RECIPES_PPC64', 'ENUM_RELOC_TYPE_PPC64', 'R_PPC64_ADDR32'): (4, True, 'sym_value + addend'),
    ('_RELOCATION_RECIPES_PPC64', 'ENUM_RELOC_TYPE_PPC64', 'R_PPC64_REL32'): (4, True, 'sym_value + addend - offset'),
    ('_RELOCATION_RECIPES_PPC64', 'ENUM_RELOC_TYPE_PPC64', 'R_PPC64_ADDR64'): (8, True, 'sym_value + addend'),
    ('_RELOCATION_RECIPES_S390X', 'ENUM_RELOC_TYPE_S390X', 'R_390_32'): (4, True, 'sym_value + addend'),
    ('_RELOCATION_RECIPES_S390X', 'ENUM_RELOC_TYPE_S390X', 'R_390_PC32'): (4, True, 'sym_value + addend - offset'),
    ('_RELOCATION_RECIPES_S390X', 'ENUM_RELOC_TYPE_S390X', 'R_390_64'): (8, True, 'sym_value + addend'),
    ('_RELOCATION_RECIPES_LOONGARCH', 'ENUM_RELOC_TYPE_LOONGARCH', 'R_LARCH_NONE'): (4, True, 'value'),
    ('_RELOCATION_RECIPES_LOONGARCH', 'ENUM_RELOC_TYPE_LOONGARCH', 'R_LARCH_32'): (4, True, 'sym_value + addend'),
    ('_RELOCATION_RECIPES_LOONGARCH', 'ENUM_RELOC_TYPE_LOONGARCH', 'R_LARCH_64'): (8, True, 'sym_value + addend'),
    ('_RELOCATION_RECIPES_LOONGARCH', 'ENUM_RELOC_TYPE_LOONGARCH', 'R_LARCH_32_PCREL'): (4, True, 'sym_value + addend - offset'),
    ('_RELOCATION_RECIPES_LOONGARCH', 'ENUM_RELOC_TYPE_LOONGARCH', 'R_LARCH_64_PCREL'): (8, True, 'sym_value + addend - offset'),
}
for _w, _n in ((1, 8), (2, 16), (4, 32), (8, 64)):
    SPEC[('_RELOCATION_RECIPES_LOONGARCH', 'ENUM_RELOC_TYPE_LOONGARCH', 'R_LARCH_ADD%d' % _n)] = (_w, True, 'value + sym_value + addend')
    SPEC[('_RELOCATION_RECIPES_LOONGARCH', 'ENUM_RELOC_TYPE_LOONGARCH', 'R_LARCH_SUB%d' % _n)] = (_w, True, 'value - sym_value - addend')

# entries the code has but the property's supported set does not name: reported as unchecked
OUTSIDE = {'R_ARM_CALL', 'R_BPF_NONE', 'R_BPF_64_64', 'R_BPF_64_32', 'R_BPF_64_NODYLD32', 'R_BPF_64_ABS64', 'R_BPF_64_ABS32'}


@task('c08-recipe-tables', ['C08'], kind='ground')
def recipes(tier, seed):
    import elftools.elf.enums as E
    from elftools.elf.relocation import RelocationHandler as H
    obs, fn_cache, unchecked = [], {}, []
    shapes = dict(value=S.U64, sym_value=S.U64, offset=S.U64, addend=S.S(64))
    for (tab, enum, tname), (size, has_add, formula) in sorted(SPEC.items()):
        name = 'ground:elf/relocation.py:%s[%s]' % (tab, tname)
        table = getattr(H, tab, None)
        code = getattr(E, enum).get(tname)
        if table is None or code is None or code not in table:
            obs.append(dict(name=name, kind='ground', verdict='refuted', backend='ground-eval', time=0.0,
                            detail='supported relocation type has no recipe',
                            native=dict(confirmed=True, how='table read', input=name, observed='missing', expected=repr((size, has_add, formula)))))
            continue
        r = table[code]
        bad = []
        if r.bytesize != size:
            bad.append('bytesize %r, psABI field is %d bytes' % (r.bytesize, size))
        if bool(r.has_addend) != has_add and formula != 'value':      # a NONE recipe ignores the addend either way
            bad.append('has_addend %r, expected %r' % (r.has_addend, has_add))
        obs.append(dict(name=name, kind='ground', verdict='refuted' if bad else 'proved', backend='ground-eval', time=0.0,
                        detail='; '.join(bad) or None,
                        native=bad and dict(confirmed=True, how='table read', input=name, observed=repr(tuple(r)[:2]), expected=repr((size, has_add)))))
        # formula: REL recipes get addend=0 from the caller
        fkey = (r.calc_func.__name__, formula, has_add)
        if fkey not in fn_cache:
            req = [] if has_add else ['addend == 0']
            fr = k2.fn_equiv(r.calc_func, formula, ['value', 'sym_value', 'offset', 'addend'], dict(shapes), req,
                             name='ground:elf/relocation.py:%s==[%s]%s' % (r.calc_func.__name__, formula, '' if has_add else '[REL]'))
            if fr['verdict'] == 'error':
                fr['verdict'] = 'undecided'
                fr['reason'] = fr.pop('error')
            if fr['verdict'] == 'refuted' and isinstance(fr.get('detail'), dict):
                m = fr['detail'].get('model', {})
                args = {k: m.get(k, 0) for k in ('value', 'sym_value', 'offset', 'addend')}
                try:
                    got = r.calc_func(**args)
                    want = eval(formula, dict(args))
                    fr['native'] = dict(confirmed=got != want, how='calc function called with the solver model',
                                        input=repr(args), observed=got, expected=want)
                except Exception as e:
                    fr['native'] = dict(confirmed=False, error=repr(e))
            fr['used_by'] = [tname]
            fn_cache[fkey] = fr
        else:
            fn_cache[fkey].setdefault('used_by', []).append(tname)
    for tab in dir(H):
        if tab.startswith('_RELOCATION_RECIPES_'):
            for code in getattr(H, tab):
                if not any(k[0] == tab and getattr(E, k[1]).get(k[2]) == code for k in SPEC):
                    unchecked.append('%s[%s]' % (tab, code))
    obs.extend(fn_cache.values())
    return dict(obligations=obs, assumptions=[
        'formulas transcribed from the processor ABI documents (DESIGN appendix A.6)',
        'recipes outside the property\'s supported set are unchecked: %s' % ', '.join(unchecked)],
        functions=[dict(function='elftools/elf/relocation.py:RelocationHandler._RELOCATION_RECIPES_* + _reloc_calc_*',
                        kind='ground+K1', entries=len(SPEC))], exhaustive=True)
