"""Mutant canaries (thorough tier only): every seeded change kept under /verif/seeded/ for this property and
recorded as caught is applied to a scratch copy of the repository's elftools/ outside /repo and /verif; the
property's quick check is run against the copy (VERIF_REPO, evidence and replays go to the scratch directory);
it must exit 1 with a VIOLATION line.  A canary that passes means the machinery no longer sees a change it
used to see: reported as a failed obligation `canary:<id>` (the check exits 1 naming the canary, never silently
green).  Quick tier: skipped (the canaries are exercised by tools/confirm_seeded.py when the matrix is rebuilt)."""
import json
import os
import shutil
import subprocess
import tempfile
from pyvc.run import task

ROOT = os.path.dirname(os.path.dirname(os.path.abspath(__file__)))
PROPS = ['C%02d' % i for i in range(1, 21) if i != 18]


def _run(prop, tier):
    if tier != 'thorough' or os.environ.get('VERIF_REPO'):
        return dict(obligations=[], assumptions=[], functions=[], exhaustive=False, skipped='canaries run in the thorough tier only')
    obs, skipped = [], []
    sdir = os.path.join(ROOT, 'seeded')
    ids = sorted(d for d in os.listdir(sdir) if d.startswith(prop + '-') and os.path.exists(os.path.join(sdir, d, 'meta.json')))
    for sid in ids:
        meta = json.load(open(os.path.join(sdir, sid, 'meta.json')))
        chk = meta.get('checks', {}).get(prop)
        if not chk or chk.get('exit') != 1:
            continue
        scratch = tempfile.mkdtemp(prefix='vcanary.')
        try:
            repo = os.path.join(scratch, 'repo')
            os.makedirs(repo)
            from pyvc.extract import REPO
            shutil.copytree(os.path.join(REPO, 'elftools'), os.path.join(repo, 'elftools'))
            if os.path.isdir(os.path.join(REPO, 'test', 'testfiles_for_unittests')):
                os.makedirs(os.path.join(repo, 'test'))
                os.symlink(os.path.join(REPO, 'test', 'testfiles_for_unittests'), os.path.join(repo, 'test', 'testfiles_for_unittests'))
            p = subprocess.run(['patch', '-s', '-p1', '-d', repo, '-i', os.path.join(sdir, sid, 'patch.diff')], capture_output=True, text=True)
            if p.returncode != 0:
                # a canary is a self-test of the machinery on the tree its patch was recorded against: on a tree whose text has
                # moved on (a later fix, somebody else's change) it is skipped -- it says nothing about the property
                skipped.append(sid)
                continue
            env = dict(os.environ, VERIF_REPO=repo, VERIF_OUT=os.path.join(scratch, 'out'))
            r = subprocess.run([os.path.join(ROOT, 'check'), prop, '--tier', 'quick'], capture_output=True, text=True, env=env, timeout=3000)
            viol = [l for l in r.stdout.splitlines() if l.startswith('VIOLATION')]
            ok = r.returncode == 1 and viol
            obs.append(dict(name='canary:%s' % sid, kind='canary', verdict='proved' if ok else 'refuted', backend='pyvc (quick check on a patched copy)',
                            time=0.0, bounded=True,
                            detail=None if ok else 'the seeded change %s is no longer reported: exit %d, %d VIOLATION lines' % (sid, r.returncode, len(viol))))
        finally:
            shutil.rmtree(scratch, ignore_errors=True)
    return dict(obligations=obs, skipped=not obs,
                assumptions=['canaries: recorded seeded changes re-applied to a scratch copy; each must still be reported'] +
                (['canaries skipped because their patch does not apply to the current tree: %s' % ', '.join(skipped)] if skipped else []),
                functions=[dict(function='seeded/%s-* (canaries)' % prop, kind='self-test')], exhaustive=False)


for _p in PROPS:
    def _mk(p):
        @task('canaries[%s]' % p, [p], kind='bounded')
        def _c(tier, seed):
            return _run(p, tier)
        return _c
    _mk(_p)
