"""a small independent ELF image builder for the bounded differentials: file header, sections with explicit type /
link / info / entsize / flags / address, section-name string table (gABI 4.1 layouts)"""
import struct


def sections_image(cls, le, secs, etype=3, machine=None):
    """secs: list of dict(name, type, data, link=0, info=0, entsize=0, flags=0, addr=0, align=1); section 0 is added.
    Returns (image bytes, [file offset of each given section])"""
    e = '<' if le else '>'
    machine = machine if machine is not None else (62 if cls == 64 else 3)
    ehsz, shsz = (64, 64) if cls == 64 else (52, 40)
    names = b'\x00'
    noff = []
    for s in secs + [dict(name='.shstrtab')]:
        noff.append(len(names))
        names += s['name'].encode() + b'\x00'
    body, offs = b'', []
    pos = ehsz
    for s in secs:
        pad = -pos % max(1, s.get('align', 1))
        body += b'\x00' * pad
        pos += pad
        offs.append(pos)
        body += s['data']
        pos += len(s['data'])
    stroff = pos
    body += names
    pos += len(names)
    pad = -pos % 8
    body += b'\x00' * pad
    shoff = pos + pad

    def sh(name, typ, flags, addr, off, size, link, info, align, entsize):
        if cls == 64:
            return struct.pack(e + 'IIQQQQIIQQ', name, typ, flags, addr, off, size, link, info, align, entsize)
        return struct.pack(e + 'IIIIIIIIII', name, typ, flags, addr, off, size, link, info, align, entsize)
    tab = sh(0, 0, 0, 0, 0, 0, 0, 0, 0, 0)
    for s, o, n in zip(secs, offs, noff):
        tab += sh(n, s['type'], s.get('flags', 0), s.get('addr', 0), o, len(s['data']), s.get('link', 0), s.get('info', 0),
                  s.get('align', 1), s.get('entsize', 0))
    tab += sh(noff[-1], 3, 0, 0, stroff, len(names), 0, 0, 1, 0)
    ident = b'\x7fELF' + bytes([1 if cls == 32 else 2, 1 if le else 2, 1, 0]) + b'\x00' * 8
    if cls == 64:
        hdr = ident + struct.pack(e + 'HHIQQQIHHHHHH', etype, machine, 1, 0, 0, shoff, 0, ehsz, 0, 0, shsz, len(secs) + 2, len(secs) + 1)
    else:
        hdr = ident + struct.pack(e + 'HHIIIIIHHHHHH', etype, machine, 1, 0, 0, shoff, 0, ehsz, 0, 0, shsz, len(secs) + 2, len(secs) + 1)
    return hdr + body + tab, offs
