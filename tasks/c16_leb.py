"""C16 (bounded part): LEB128 encodings of 1..20 groups, minimal and non-minimal (padded with 0x80 / 0xff
continuation groups), with arbitrary trailing bytes, are decoded by the real ULEB128 / SLEB128 constructs
(and through DWARFStructs.Dwarf_uleb128 / Dwarf_sleb128); value and consumed length are compared with
DWARF 7.6 (unbounded integers: the value of k groups is the little-endian base-128 number, sign-extended
from bit 7k-1 for the signed form).  Complements the K1 contracts of contracts/c16_primitives.py, which
prove the two loops for all inputs but stop being checkable when the loop is rewritten in a form the
engine does not model."""
import io
import random
from pyvc.run import task


def _decode(groups, signed):
    v = 0
    for i, b in enumerate(groups):
        v |= (b & 0x7f) << (7 * i)
    if signed and groups[-1] & 0x40:
        v -= 1 << (7 * len(groups))
    return v


def _cases(rng, n_random):
    for k in range(1, 21):
        # boundary shapes: all-zero / all-one payloads, padded encodings of 0, 1 and -1, top group variations
        shapes = [[0x80] * (k - 1) + [0x00], [0xff] * (k - 1) + [0x7f], [0x81] + [0x80] * (k - 2) + [0x00] if k > 1 else [0x01],
                  [0xff] * (k - 1) + [0x3f], [0x80] * (k - 1) + [0x40], [0x80] * (k - 1) + [0x01]]
        for s in shapes:
            yield s
        for _ in range(n_random):
            yield [rng.randrange(256) | 0x80 for _ in range(k - 1)] + [rng.randrange(128)]
    for v in (2 ** 63 - 1, 2 ** 63, 2 ** 64 - 1, 2 ** 64, 2 ** 70, 2 ** 130 + 12345):
        g = []
        while True:
            b, v = v & 0x7f, v >> 7
            if v:
                g.append(b | 0x80)
            else:
                g.append(b)
                break
        yield g


@task('c16-leb128-long-encodings', ['C16'], kind='bounded')
def leb(tier, seed):
    from elftools.common.construct_utils import ULEB128, SLEB128
    from elftools.dwarf.structs import DWARFStructs
    rng = random.Random(seed + 1616)
    st = DWARFStructs(little_endian=True, dwarf_format=32, address_size=8)
    parsers = [('ULEB128', ULEB128('v'), False), ('SLEB128', SLEB128('v'), True),
               ('Dwarf_uleb128', st.Dwarf_uleb128('v'), False), ('Dwarf_sleb128', st.Dwarf_sleb128('v'), True)]
    obs = []
    for name, con, signed in parsers:
        bad, n = None, 0
        for groups in _cases(rng, 20 if tier == 'quick' else 2000):
            raw = bytes(groups)
            tail = bytes(rng.randrange(256) for _ in range(rng.choice([0, 1, 5])))
            s = io.BytesIO(raw + tail)
            n += 1
            try:
                got = (con.parse_stream(s), s.tell())
            except Exception as e:
                got = 'raised %r' % (e,)
            want = (_decode(groups, signed), len(raw))
            if got != want:
                bad = dict(confirmed=True, how='%s.parse_stream on the encoding followed by %d other bytes' % (name, len(tail)),
                           input=(raw + tail).hex(), observed=repr(got)[:300], expected='(value, bytes consumed) = %r' % (want,))
                break
        obs.append(dict(name='bounded:common/construct_utils.py:%s[1..20 groups]' % name, kind='bounded',
                        verdict='refuted' if bad else 'proved', backend='ground-eval(%d encodings)' % n, time=0.0, bounded=True,
                        detail=bad and '%s: %s, DWARF 7.6 gives %s' % (bad['input'], bad['observed'], bad['expected']), native=bad))
    # fixed-width integers of both byte orders and signednesses through the primitive factories of both structs classes
    from elftools.elf.structs import ELFStructs
    bad, n = None, 0
    for le in (True, False):
        bo = 'little' if le else 'big'
        ds = DWARFStructs(little_endian=le, dwarf_format=32, address_size=8)
        es = ELFStructs(little_endian=le, elfclass=64)
        es.create_basic_structs()
        fields = [('Dwarf_uint8', ds.Dwarf_uint8, 1, False), ('Dwarf_uint16', ds.Dwarf_uint16, 2, False), ('Dwarf_uint32', ds.Dwarf_uint32, 4, False),
                  ('Dwarf_uint64', ds.Dwarf_uint64, 8, False), ('Dwarf_int8', ds.Dwarf_int8, 1, True), ('Dwarf_int16', ds.Dwarf_int16, 2, True),
                  ('Dwarf_int32', ds.Dwarf_int32, 4, True), ('Dwarf_int64', ds.Dwarf_int64, 8, True), ('Elf_byte', es.Elf_byte, 1, False),
                  ('Elf_half', es.Elf_half, 2, False), ('Elf_word', es.Elf_word, 4, False), ('Elf_word64', es.Elf_word64, 8, False),
                  ('Elf_sword', es.Elf_sword, 4, True), ('Elf_sxword', es.Elf_sxword, 8, True)]
        for name, fac, width, signed in fields:
            pats = [bytes([b]) * width for b in (0x00, 0x7f, 0x80, 0xff)] + [b'\x80' + b'\x00' * (width - 1), b'\x00' * (width - 1) + b'\x80',
                                                                          b'\xff' + b'\x7f' * (width - 1)] + \
                [bytes(rng.randrange(256) for _ in range(width)) for _ in range(20)]
            for raw in pats:
                n += 1
                s_ = io.BytesIO(raw + b'\xaa\xbb')
                try:
                    got = (fac('v').parse_stream(s_), s_.tell())
                except Exception as e:
                    got = 'raised %r' % (e,)
                want = (int.from_bytes(raw, bo, signed=signed), width)
                if got != want and bad is None:
                    bad = dict(confirmed=True, how='%s (%s-endian) parse_stream' % (name, bo), input=raw.hex(), observed=repr(got),
                               expected='(value, bytes consumed) = %r' % (want,))
    obs.append(dict(name='bounded:structs:fixed-width integers', kind='bounded', verdict='refuted' if bad else 'proved',
                    backend='ground-eval(%d encodings)' % n, time=0.0, bounded=True,
                    detail=bad and '%s %s: %s, expected %s' % (bad['how'], bad['input'], bad['observed'], bad['expected']), native=bad))
    return dict(obligations=obs, assumptions=['BOUNDED: encodings of 1..20 groups (boundary shapes and seeded samples), not all byte strings'],
                functions=[dict(function='elftools/common/construct_utils.py:ULEB128._parse, SLEB128._parse (end to end)',
                                kind='bounded differential')], exhaustive=False)
