"""C15 (bounded part): images with a dynamic symbol table and the three GNU symbol-versioning sections
(.gnu.version, .gnu.version_r, .gnu.version_d; Sun/GNU symbol versioning layouts: 16-byte Verneed / Vernaux,
20-byte Verdef, 8-byte Verdaux, 2-byte Versym, chained by byte displacements that may skip padding) are read
through the real GNUVerNeedSection / GNUVerDefSection / GNUVerSymSection: the version entries with their
auxiliaries in chain order, lookups by index (first match in chain order, None when absent), has_indexes,
and the per-symbol version indexes paired with the symbol names.  Complements the K1 contracts of
contracts/c15_versions.py and keeps deciding when a function is rewritten in a form the engine rejects."""
import io
import random
import struct
from pyvc.run import task
from tasks._img import sections_image

VERSYM_NAMES = {0: 'VER_NDX_LOCAL', 1: 'VER_NDX_GLOBAL'}


def gen(rng, cls, le):
    e = '<' if le else '>'
    strs = [b'', b'libc.so.6', b'libm.so.6', b'GLIBC_2.2.5', b'GLIBC_2.34', b'V1', b'V2', b'mylib.so', b'foo', b'bar', b'baz_long_symbol']
    strtab = b'\x00' + b'\x00'.join(strs[1:]) + b'\x00'
    so = {s: (strtab.index(b'\x00' + s + b'\x00') + 1 if s else 0) for s in strs}
    # --- verneed
    need, blob = [], b''
    nneed = rng.choice([0, 1, 2, 3])
    if nneed >= 2 and rng.random() < 0.35:
        # another well-formed layout: all records first, their auxiliaries behind them (an auxiliary displacement may exceed the
        # displacement to the next record: both are only displacements from the record)
        per = []
        for i in range(nneed):
            auxes = [dict(hash=rng.randrange(1 << 32), flags=rng.choice([0, 2]), other=rng.choice([0, rng.randrange(2, 40)]),
                          name=rng.choice([b'GLIBC_2.2.5', b'GLIBC_2.34', b'V1'])) for _ in range(rng.choice([1, 2, 3]))]
            per.append((rng.choice([b'libc.so.6', b'libm.so.6']), auxes))
        aux_start, pos = [], 16 * nneed
        for f, auxes in per:
            aux_start.append(pos)
            pos += 16 * len(auxes)
        for i, (f, auxes) in enumerate(per):
            blob += struct.pack(e + 'HHIII', 1, len(auxes), so[f], aux_start[i] - 16 * i, 16 if i < nneed - 1 else 0)
        for f, auxes in per:
            for k, a in enumerate(auxes):
                blob += struct.pack(e + 'IHHII', a['hash'], a['flags'], a['other'], so[a['name']], 16 if k < len(auxes) - 1 else 0)
            need.append(dict(file=f.decode(), cnt=len(auxes), auxes=[(a['hash'], a['flags'], a['other'], a['name'].decode()) for a in auxes]))
        nneed_done = True
    else:
        nneed_done = False
    for i in range(0 if nneed_done else nneed):
        auxes = []
        for _ in range(rng.choice([1, 1, 2, 3])):
            auxes.append(dict(hash=rng.randrange(1 << 32), flags=rng.choice([0, 2]),
                              other=rng.choice([0, 0, rng.randrange(2, 40), 0x8003]), name=rng.choice([b'GLIBC_2.2.5', b'GLIBC_2.34', b'V1'])))
        gap1 = rng.choice([0, 0, 4, 8])
        ent = b''
        pos_aux = 16 + gap1
        auxb = b''
        for k, a in enumerate(auxes):
            gap = rng.choice([0, 0, 8])
            nxt = 0 if k == len(auxes) - 1 else 16 + gap
            auxb += struct.pack(e + 'IHHII', a['hash'], a['flags'], a['other'], so[a['name']], nxt) + b'\xee' * (gap if nxt else 0)
        total = 16 + gap1 + len(auxb)
        tail = rng.choice([0, 0, 4])
        vn_next = 0 if i == nneed - 1 else total + tail
        f = rng.choice([b'libc.so.6', b'libm.so.6'])
        ent = struct.pack(e + 'HHIII', 1, len(auxes), so[f], pos_aux, vn_next) + b'\xdd' * gap1 + auxb + b'\xcc' * (tail if vn_next else 0)
        blob += ent
        need.append(dict(file=f.decode(), cnt=len(auxes), auxes=[(a['hash'], a['flags'], a['other'], a['name'].decode()) for a in auxes]))
    # --- verdef
    defs, dblob = [], b''
    ndef = rng.choice([0, 1, 2, 3])
    used = set()
    for i in range(ndef):
        ndx = rng.choice([x for x in (1, 2, 3, 4, 5, 0x8002) if x not in used] )
        used.add(ndx)
        names = [rng.choice([b'mylib.so', b'V1', b'V2']) for _ in range(rng.choice([1, 1, 2]))]
        gap1 = rng.choice([0, 0, 4])
        auxb = b''
        for k, nme in enumerate(names):
            gap = rng.choice([0, 0, 8])
            nxt = 0 if k == len(names) - 1 else 8 + gap
            auxb += struct.pack(e + 'II', so[nme], nxt) + b'\xee' * (gap if nxt else 0)
        total = 20 + gap1 + len(auxb)
        tail = rng.choice([0, 0, 4])
        vd_next = 0 if i == ndef - 1 else total + tail
        flags, h = rng.choice([0, 1, 2]), rng.randrange(1 << 32)
        dblob += struct.pack(e + 'HHHHIII', 1, flags, ndx, len(names), h, 20 + gap1, vd_next) + b'\xdd' * gap1 + auxb + b'\xcc' * (tail if vd_next else 0)
        defs.append(dict(ndx=ndx, flags=flags, cnt=len(names), hash=h, names=[x.decode() for x in names]))
    # --- symbols and versym
    from specs import elf_writer as W
    snames = [b''] + [rng.choice([b'foo', b'bar', b'baz_long_symbol']) for _ in range(rng.choice([0, 1, 3, 6]))]
    symtab = b''.join(W.sym_entry(cls, le, so[n], 0x1000 + 8 * i, shndx=(1 if n else 0)) for i, n in enumerate(snames))
    idx = [rng.choice([0, 1, 2, 3, 0x8002, 0x0102, 0x0201, 37]) for _ in snames]
    versym = b''.join(struct.pack(e + 'H', v) for v in idx)
    secs = [dict(name='.dynstr', type=3, data=strtab),
            dict(name='.dynsym', type=11, data=symtab, link=1, info=1, entsize=24 if cls == 64 else 16, align=8),
            dict(name='.gnu.version', type=0x6fffffff, data=versym, link=2, entsize=2, align=2),
            dict(name='.gnu.version_r', type=0x6ffffffe, data=blob, link=1, info=nneed, align=4),
            dict(name='.gnu.version_d', type=0x6ffffffd, data=dblob, link=1, info=ndef, align=4)]
    img, _offs = sections_image(cls, le, secs)
    return img, need, defs, [n.decode() for n in snames], idx


def one_case(rng):
    from elftools.elf.elffile import ELFFile
    cls, le = rng.choice([32, 64]), rng.random() < 0.5
    img, need, defs, snames, idx = gen(rng, cls, le)
    cfg = 'class %d le=%s verneed=%r verdef=%r versym=%r' % (cls, le, need, defs, list(zip(snames, idx)))

    def fail(msg):
        return msg, cfg, img.hex()
    for attempt in ('fresh', 'again'):
        ef = ELFFile(io.BytesIO(img))
        vr, vd, vs = (ef.get_section_by_name(n) for n in ('.gnu.version_r', '.gnu.version_d', '.gnu.version'))
        order = ['need_iter', 'has', 'need_get', 'def_iter', 'def_get', 'sym']
        rng.shuffle(order)
        for step in order + ['has', 'sym']:
            if step == 'need_iter':
                got = [dict(file=v.name, cnt=v['vn_cnt'], auxes=[(a['vna_hash'], a['vna_flags'], a['vna_other'], a.name) for a in it])
                       for v, it in vr.iter_versions()]
                if got != need:
                    return fail('version_r.iter_versions() = %r, encoded %r' % (got, need))
            elif step == 'has':
                want = any(a[2] for n in need for a in n['auxes'])
                if bool(vr.has_indexes()) != want:
                    return fail('version_r.has_indexes() = %r, the auxiliary entries %s a non-zero vna_other' % (
                        vr.has_indexes(), 'have' if want else 'do not have'))
            elif step == 'need_get':
                for probe in sorted({a[2] for n in need for a in n['auxes']} | {0, 1, 2, 3, 39, 0x8003, 0x0003}):
                    want = next(((n['file'], a[3]) for n in need for a in n['auxes'] if a[2] == probe), None)
                    r = vr.get_version(probe)
                    got = None if r is None else (r[0].name, r[1].name)
                    if got != want:
                        return fail('version_r.get_version(%#x) = %r, the first entry with that index is %r' % (probe, got, want))
            elif step == 'def_iter':
                got = [dict(ndx=v['vd_ndx'], flags=v['vd_flags'], cnt=v['vd_cnt'], hash=v['vd_hash'], names=[a.name for a in it])
                       for v, it in vd.iter_versions()]
                if got != defs:
                    return fail('version_d.iter_versions() = %r, encoded %r' % (got, defs))
            elif step == 'def_get':
                for probe in (0, 1, 2, 3, 4, 5, 6, 0x8002, 0x8001, 0x0002):
                    want = next(((d['ndx'], d['names']) for d in defs if d['ndx'] == probe), None)
                    r = vd.get_version(probe)
                    got = None if r is None else (r[0]['vd_ndx'], [a.name for a in r[1]])
                    if got != want:
                        return fail('version_d.get_version(%#x) = %r, the definition with that index is %r' % (probe, got, want))
            elif step == 'sym':
                if vs.num_symbols() != len(idx):
                    return fail('version.num_symbols() = %d, encoded %d' % (vs.num_symbols(), len(idx)))
                want = [(VERSYM_NAMES.get(v, v), n) for v, n in zip(idx, snames)]
                got = [(vs.get_symbol(i).entry['ndx'], vs.get_symbol(i).name) for i in range(len(idx))]
                got2 = [(s.entry['ndx'], s.name) for s in vs.iter_symbols()]
                if got != want or got2 != want:
                    return fail('version symbols (index, name) = %r / iterated %r, encoded %r' % (got, got2, want))
    return None


@task('c15-versions-differential', ['C15'], kind='bounded')
def versions(tier, seed):
    rng = random.Random(seed + 1515)
    n = 80 if tier == 'quick' else 4000
    bad = None
    for _ in range(n):
        try:
            r = one_case(rng)
        except Exception as e:
            import traceback
            r = ('real code raised %r (%s)' % (e, traceback.format_exc().splitlines()[-3].strip()), '', '')
        if r:
            bad = dict(confirmed=True, how='GNUVerNeedSection / GNUVerDefSection / GNUVerSymSection on an image encoded from the '
                       'symbol versioning layouts', input=r[2][:3000], configuration=r[1][:1500], observed=r[0][:800], expected='as encoded')
            break
    obs = [dict(name='bounded:elf/gnuversions.py:version sections', kind='bounded', verdict='refuted' if bad else 'proved',
                backend='ground-eval(seeded differential, %d images)' % n, time=0.0, bounded=True, detail=bad and bad['observed'], native=bad)]
    return dict(obligations=obs, assumptions=['BOUNDED: 0-3 needed files / definitions with 1-3 auxiliaries, 1-7 symbols, padded displacements'],
                functions=[dict(function='elftools/elf/gnuversions.py (all public methods, end to end)', kind='bounded differential')],
                exhaustive=False)
