"""C19 (bounded part): the fault classes of the property's quantifier applied to small seed files of
the repository: every truncation length up to 4 KiB (and every header-table boundary), every
single-byte substitution of the 64-byte header region with {0x00, 0xff, +1, ^0x80}, random multi-field
corruptions.  ELFFile(stream) must return or raise ELFError; a fixed enumeration battery must
terminate within a hard time limit.  The K1 contract of ELFFile.__init__ proves the exception clause
for all byte strings; this stand-in additionally exercises the enumeration battery, whose loops are
under K1 variants only where listed in the evidence."""
import io
import os
import random
import signal
from pyvc.run import task

SEEDS = ['simple_gcc.elf.mips', 'arm_reloc_unrelocated.o', 'compressed_32.o', 'lib_versioned64.so.1.elf', 'obj_stabs.elf',
         'note_after_gnu_property/main.elf', 'section_link_to_self.elf', 'trailing_null_dies.elf']
RECORD_TYPES = ('SHT_DYNAMIC', 'SHT_NOTE', 'SHT_HASH', 'SHT_GNU_HASH', 'SHT_GNU_verdef', 'SHT_GNU_verneed', 'SHT_GNU_versym', 'SHT_RELR')
SYNTHETIC = {}


def _synthetic_seeds():
    """seed images written by the independent writers for record kinds no file of the repository carries: a RELR section"""
    if not SYNTHETIC:
        import struct
        from tasks._img import sections_image
        words = [0x1000, 0x15, 0x7, 0x2000, 0x8000000000000001]
        SYNTHETIC['synthetic: ELF64 image with an SHT_RELR section'] = sections_image(
            64, True, [dict(name='.relr.dyn', type=19, data=b''.join(struct.pack('<Q', w) for w in words), entsize=8, align=8, flags=2)])[0]
    return SYNTHETIC


def record_regions(seed):
    """(label, start, length) of the record regions the property's quantifier names: section-header and program-header
    tables, and the first 64 bytes of every dynamic, note, hash and version section (located on the intact seed)"""
    from elftools.elf.elffile import ELFFile
    ef = ELFFile(io.BytesIO(seed))
    out = [('section header table', ef['e_shoff'], ef['e_shnum'] * ef['e_shentsize']),
           ('program header table', ef['e_phoff'], ef['e_phnum'] * ef['e_phentsize'])]
    for sec in ef.iter_sections():
        if sec['sh_type'] in RECORD_TYPES:
            out.append(('%s records' % sec.name, sec['sh_offset'], min(64, sec['sh_size'])))
    return [(l, a, n) for (l, a, n) in out if n > 0 and a + n <= len(seed)]


def _seed_dir():
    from pyvc.extract import REPO
    for d in (os.path.join(REPO, 'test', 'testfiles_for_unittests'), '/repo/test/testfiles_for_unittests'):
        if os.path.isdir(d):
            return d
    raise RuntimeError('seed files not found')


class _Timeout(BaseException):
    pass


def _alarm(signum, frame):
    raise _Timeout()


def battery(ef):
    """enumerate headers, sections, segments, symbol counts, dynamic tags, notes"""
    n = 0
    for sec in ef.iter_sections():
        n += 1
        t = sec['sh_type']
        if t in ('SHT_SYMTAB', 'SHT_DYNSYM'):
            sec.num_symbols()
        elif t == 'SHT_DYNAMIC':
            for _tag in sec.iter_tags():
                n += 1
        elif t == 'SHT_NOTE':
            for _note in sec.iter_notes():
                n += 1
        elif t in ('SHT_GNU_verdef', 'SHT_GNU_verneed'):
            for _v in sec.iter_versions():
                n += 1
        elif t in ('SHT_HASH', 'SHT_GNU_HASH'):
            sec.get_number_of_symbols()
        elif t == 'SHT_RELR':
            for _r in sec.iter_relocations():
                n += 1
    for seg in ef.iter_segments():
        n += 1
        if seg['p_type'] == 'PT_DYNAMIC':
            for _tag in seg.iter_tags():
                n += 1
            seg.num_symbols()
        elif seg['p_type'] == 'PT_NOTE':
            for _note in seg.iter_notes():
                n += 1
    return n


def try_open(data, limit=30.0):
    """('ok'|'elferror'|'other'|'timeout', detail).  The limit is CPU time of this process (ITIMER_VIRTUAL), not wall-clock
    time: a loop that does not terminate burns CPU and is stopped, while a slow but terminating enumeration (65535 program
    headers announced by a corrupted count: a second or two of CPU) does not flip the verdict on a loaded machine"""
    from elftools.elf.elffile import ELFFile
    from elftools.common.exceptions import ELFError
    prev = signal.signal(signal.SIGVTALRM, _alarm)
    signal.setitimer(signal.ITIMER_VIRTUAL, limit)
    try:
        try:
            ef = ELFFile(io.BytesIO(data))
        except ELFError:
            return 'elferror', None, None
        except _Timeout:
            return 'timeout', 'constructor did not return within %.0f s of CPU time' % limit, None
        except Exception as e:
            return 'other', 'ELFFile() raised %s: %s' % (type(e).__name__, e), None
        try:
            battery(ef)
        except _Timeout:
            return 'ok', None, 'enumeration battery did not terminate within %.0f s of CPU time' % limit
        except RecursionError as e:
            return 'ok', None, 'enumeration battery exhausted the stack: %s' % e
        except MemoryError as e:
            return 'ok', None, 'enumeration battery exhausted memory: %s' % e
        except Exception:
            pass            # any exception is a permitted way to stop enumerating
        return 'ok', None, None
    finally:
        signal.setitimer(signal.ITIMER_VIRTUAL, 0)
        signal.signal(signal.SIGVTALRM, prev)


def faults(seed, rng, tier):
    n = len(seed)
    step = 1 if tier != 'quick' else 7
    for k in sorted(set(list(range(0, min(n, 4096), step)) + list(range(0, min(n, 72))) + [n - 1])):
        if 0 <= k <= n:
            yield 'truncate to %d bytes' % k, seed[:k]
    for pos in range(min(64, n)):
        for how, f in (('0x00', lambda b: 0), ('0xff', lambda b: 0xff), ('+1', lambda b: (b + 1) & 0xff), ('^0x80', lambda b: b ^ 0x80)):
            if tier == 'quick' and (pos * 7 + len(how)) % 3:
                continue
            d = bytearray(seed)
            d[pos] = f(d[pos])
            yield 'byte %d := %s' % (pos, how), bytes(d)
    try:
        regions = record_regions(seed)
    except Exception:
        regions = []
    k = 0
    for label, start, length in regions:
        for pos in range(start, start + length):
            for how, f in (('0x00', lambda b: 0), ('0xff', lambda b: 0xff), ('+1', lambda b: (b + 1) & 0xff), ('^0x80', lambda b: b ^ 0x80)):
                k += 1
                if tier == 'quick' and k % 5:
                    continue
                d = bytearray(seed)
                d[pos] = f(d[pos])
                yield '%s: byte %d := %s' % (label, pos, how), bytes(d)
    for i in range(40 if tier == 'quick' else 1500):
        d = bytearray(seed)
        for _ in range(rng.choice([1, 2, 4, 8])):
            p = rng.randrange(n)
            d[p] = rng.choice([0, 0xff, rng.randrange(256), d[p] ^ 0x80])
        yield 'random multi-byte corruption #%d' % i, bytes(d)
    for i in range(20 if tier == 'quick' else 300):
        yield 'random bytes #%d' % i, bytes(rng.randrange(256) for _ in range(rng.choice([0, 1, 4, 16, 52, 64, 200])))


@task('c19-open-fuzz', ['C19'], kind='bounded')
def open_fuzz(tier, seed):
    rng = random.Random(seed * 17 + 19)
    d = _seed_dir()
    obs = []
    names = list(SEEDS if tier != 'quick' else SEEDS[:4]) + sorted(_synthetic_seeds())      # quick: the first four seeds (one of
    for name in names:                                                                      # them carries version sections)
        data = _synthetic_seeds()[name] if name in SYNTHETIC else open(os.path.join(d, name), 'rb').read()
        bad_open = bad_term = None
        cases = 0
        for what, mutated in faults(data, rng, tier):
            cases += 1
            # (after the first non-terminating case of a seed the remaining ones get a short limit: one witness is enough)
            st, detail, term = try_open(mutated, 30.0 if bad_term is None else 2.0)
            if st in ('other', 'timeout') and bad_open is None:
                bad_open = dict(confirmed=True, how='ELFFile(io.BytesIO(mutated seed))', input='%s: %s (sha of seed file in /repo/test)' % (name, what),
                                observed=detail, expected='success or ELFError')
            if term and bad_term is None:
                bad_term = dict(confirmed=True, how='enumeration battery on the opened file', input='%s: %s' % (name, what),
                                observed=term, expected='termination by return or exception')
        for label, bad in (('constructor-exceptions', bad_open), ('enumeration-terminates', bad_term)):
            obs.append(dict(name='bounded:elf/elffile.py:%s[%s]' % (label, name), kind='bounded', verdict='refuted' if bad else 'proved',
                            backend='ground-eval(seeded fault injection, %d cases)' % cases, time=0.0, bounded=True,
                            detail=bad and bad['observed'], native=bad))
    return dict(obligations=obs, assumptions=[
        'BOUNDED: fault classes of the property applied to %d seed files (truncations, header byte substitutions, random corruptions, '
        'random bytes, byte substitutions in the section-header, program-header, dynamic, note, hash and version records); a limit of 30 s of CPU time '
        'per case stands for "terminates in time bounded by a small multiple of the file size" (the seeds are a few KiB); peak allocation is not measured' % len(SEEDS)],
        functions=[dict(function='elftools/elf/elffile.py:ELFFile.__init__ + enumeration battery (sections, segments, symbols, dynamic, notes, '
                                 'versions, hash)', kind='bounded fault injection')], exhaustive=False)


def _outcome(f):
    try:
        v = f()
        if v is None or isinstance(v, (bool, int, str)):
            return ('value', v)
        if isinstance(v, list):
            return ('value', [getattr(x, 'name', None) for x in v])
        return ('value', getattr(v, 'name', type(v).__name__))
    except _Timeout:
        raise
    except Exception as e:
        return ('raises', type(e).__name__)


def repeat_queries(data):
    """C10 on corrupted files: an identical query repeated on one object gives the same outcome
    (value or exception type) as the first time and as on a fresh object"""
    from elftools.elf.elffile import ELFFile
    from elftools.common.exceptions import ELFError
    try:
        ef = ELFFile(io.BytesIO(data))
    except Exception:
        return None
    queries = [('has_section(".text")', lambda e: e.has_section('.text')),
               ('get_section_by_name(".symtab")', lambda e: e.get_section_by_name('.symtab')),
               ('get_section_index(".nonexistent")', lambda e: e.get_section_index('.nonexistent')),
               ('num_sections()', lambda e: e.num_sections())]
    for name, q in queries:
        first = _outcome(lambda: q(ef))
        second = _outcome(lambda: q(ef))
        if first != second:
            return '%s: first call %r, identical second call %r' % (name, first, second)
    # symbol tables: lookup by name twice
    try:
        tabs = [s for s in ef.iter_sections() if s['sh_type'] in ('SHT_SYMTAB', 'SHT_DYNSYM')][:2]
    except Exception:
        tabs = []
    for t in tabs:
        first = _outcome(lambda: t.get_symbol_by_name('main'))
        second = _outcome(lambda: t.get_symbol_by_name('main'))
        if first != second:
            return 'get_symbol_by_name("main") on %r: first call %r, identical second call %r' % (t.name, first, second)
    return None


@task('c10-repeat-query-fuzz', ['C10'], kind='bounded')
def repeat_fuzz(tier, seed):
    rng = random.Random(seed * 23 + 10)
    d = _seed_dir()
    obs = []
    for name in SEEDS[:3] if tier == 'quick' else SEEDS:
        data = open(os.path.join(d, name), 'rb').read()
        bad = None
        cases = 0
        prev = signal.signal(signal.SIGVTALRM, _alarm)
        try:
            for what, mutated in faults(data, rng, tier):
                cases += 1
                signal.setitimer(signal.ITIMER_VIRTUAL, 20.0)      # CPU time: a case that is only slow is skipped, never a verdict
                try:
                    r = repeat_queries(mutated)
                except _Timeout:
                    r = None
                finally:
                    signal.setitimer(signal.ITIMER_VIRTUAL, 0)
                if r:
                    bad = dict(confirmed=True, how='the same query issued twice on ELFFile(io.BytesIO(mutated seed))',
                               input='%s: %s' % (name, what), observed=r, expected='the same outcome both times')
                    break
        finally:
            signal.signal(signal.SIGVTALRM, prev)
        obs.append(dict(name='bounded:elf/elffile.py+sections.py:repeated-query[%s]' % name, kind='bounded',
                        verdict='refuted' if bad else 'proved', backend='ground-eval(seeded fault injection, %d cases)' % cases, time=0.0,
                        bounded=True, detail=bad and bad['observed'], native=bad))
    return dict(obligations=obs, assumptions=['BOUNDED: name-map queries repeated on corrupted seed files (fault classes of C19)'],
                functions=[dict(function='elftools/elf/elffile.py:get_section_by_name/get_section_index/has_section/_make_section_name_map; '
                                         'sections.py:SymbolTableSection.get_symbol_by_name', kind='bounded fault injection')], exhaustive=False)
