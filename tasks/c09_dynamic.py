"""C09 (bounded part): section-less ET_DYN images written by the independent ELF writer: one PT_LOAD, one
PT_DYNAMIC whose array designates a string table, a symbol table with a SysV or GNU hash table, and REL / RELA /
JMPREL (of either flavour) / RELR tables.  Through DynamicSegment: the tags in order with their values and
strings, the relocation tables (which ones, flavour, entry count, entries), the symbol count recovered from the
hash table and the symbol names must be exactly what was encoded.  Complements the K1 contracts of the tag walk,
pointer mapping and count recovery; get_relocation_tables and iter_tags(DynamicTag) are not under K1 contract."""
import io
import random
import struct
from pyvc.run import task


def one_case(rng):
    from specs import elf_writer as W
    from tasks.c03_hash import build_gnu, build_sysv
    from elftools.elf.elffile import ELFFile
    cls, le = rng.choice([32, 64]), rng.random() < 0.5
    e = '<' if le else '>'
    machine = 62 if cls == 64 else 3
    names = [''] + rng.sample(['puts', 'exit', 'main', 'environ', 'été', 'a' * 40, 'z'], rng.choice([1, 3, 6]))
    uniq = list(names)
    if rng.random() < 0.5:
        # several symbols with one name (versioned definitions foo@V1 / foo@@V2 share the st_name string)
        names = names + [rng.choice(names[1:])] * rng.choice([1, 2])
    strtab = b'\x00' + b''.join(n.encode() + b'\x00' for n in uniq[1:]) + b'libc.so.6\x00libm.so\x00/opt/lib\x00me.so\x00'
    stroff = {}
    for n in uniq[1:] + ['libc.so.6', 'libm.so', '/opt/lib', 'me.so']:
        stroff[n] = strtab.index(n.encode() + b'\x00')
    use_gnu = rng.random() < 0.5
    if use_gnu:
        symoffset = rng.randrange(1, len(names) + 1)
        nb = rng.choice([1, 2, 3, 5])
        perm = list(range(nb))
        if rng.random() < 0.5:
            rng.shuffle(perm)
        table, order = build_gnu(names, symoffset, nb, rng.choice([1, 2]), rng.choice([5, 6]), cls, le, perm)
    else:
        order = list(names)
        table = build_sysv(order, rng.choice([1, 3]), le)
    # an image that exports nothing: the link editor writes a GNU hash table that hashes no symbol (one empty bucket, first
    # hashed index 1) NEXT TO a SysV table; the count is then the SysV table's nchain, the GNU table only bounds it from below
    both_empty_gnu = rng.random() < 0.15
    gnu_extra = None
    if both_empty_gnu:
        use_gnu = False
        order = list(names)
        table = build_sysv(order, rng.choice([1, 3]), le)
        gnu_extra, _o = build_gnu(order[:1], 1, 1, 1, rng.choice([5, 6]), cls, le)
    symtab = b''.join(W.sym_entry(cls, le, stroff.get(n, 0) if n else 0, 0x1000 + 16 * i, shndx=(1 if n else 0)) for i, n in enumerate(order))
    blobs = [('strtab', strtab), ('symtab', symtab), ('hash', table)] + ([('gnuhash', gnu_extra)] if gnu_extra else [])
    tags = [('DT_NEEDED', stroff['libc.so.6'])]
    if rng.random() < 0.5:
        tags.append(('DT_NEEDED', stroff['libm.so']))
    if rng.random() < 0.5:
        tags.append(('DT_SONAME', stroff['me.so']))
    if rng.random() < 0.5:
        tags.append((rng.choice(['DT_RPATH', 'DT_RUNPATH']), stroff['/opt/lib']))
    if gnu_extra:
        tags.append(('DT_GNU_HASH', ('ptr', 'gnuhash')))
    tags += [('DT_GNU_HASH' if use_gnu else 'DT_HASH', ('ptr', 'hash')), ('DT_STRTAB', ('ptr', 'strtab')), ('DT_STRSZ', len(strtab)),
             ('DT_SYMTAB', ('ptr', 'symtab')), ('DT_SYMENT', 24 if cls == 64 else 16)]
    want_tables = {}

    def mk(rela, n):
        ents = [(rng.randrange(1 << 20), rng.randrange(len(order)), rng.randrange(1, 40), rng.randrange(-100, 100) if rela else None) for _ in range(n)]
        return b''.join(W.rel_entry(cls, le, o, s, t, a) for (o, s, t, a) in ents), ents
    relsz, relasz = (16, 24) if cls == 64 else (8, 12)
    if rng.random() < 0.5:
        d, ents = mk(False, rng.choice([1, 3]))
        blobs.append(('rel', d))
        tags += [('DT_REL', ('ptr', 'rel')), ('DT_RELSZ', len(d)), ('DT_RELENT', relsz)]
        want_tables['REL'] = (False, ents)
    if rng.random() < 0.5:
        d, ents = mk(True, rng.choice([1, 2]))
        blobs.append(('rela', d))
        tags += [('DT_RELA', ('ptr', 'rela')), ('DT_RELASZ', len(d)), ('DT_RELAENT', relasz)]
        want_tables['RELA'] = (True, ents)
    if rng.random() < 0.7:
        rela = rng.random() < 0.5
        d, ents = mk(rela, rng.choice([1, 2, 4]))
        blobs.append(('plt', d))
        tags += [('DT_JMPREL', ('ptr', 'plt')), ('DT_PLTRELSZ', len(d)), ('DT_PLTREL', W.DT['DT_RELA'] if rela else W.DT['DT_REL'])]
        want_tables['JMPREL'] = (rela, ents)
    rng.shuffle(tags)
    tags.append(('DT_NULL', 0))
    # the tables usually sit in one loadable segment; one time in three they are spread over two (string table first, so that
    # the first pointer a fresh object maps lies in the earlier segment and later ones in the later segment)
    split = rng.randrange(1, len(blobs)) if rng.random() < 0.34 else None
    image, offs = W.write_dynamic_exec(cls, le, machine, blobs, tags, split=split)
    cfg = 'class=%d le=%s gnu_hash=%s symbols=%r tags=%r loadable segments=%d (second from blob %r)' % (
        cls, le, use_gnu, order, [t for t, _ in tags], 1 if split is None else 2, split)
    ef = ELFFile(io.BytesIO(image))
    seg = next(s for s in ef.iter_segments() if s['p_type'] == 'PT_DYNAMIC')
    got_tags = [(t.entry.d_tag, t.entry.d_val) for t in seg.iter_tags()]
    want = [(t, offs['@' + v[1]] if isinstance(v, tuple) else v) for t, v in tags]
    if got_tags != want:
        return 'iter_tags() = %r, encoded %r' % (got_tags[:8], want[:8]), cfg
    for t in seg.iter_tags():
        if t.entry.d_tag == 'DT_NEEDED':
            n = next(k for k, o in stroff.items() if o == t.entry.d_val)
            if t.needed != n:
                return 'DT_NEEDED string %r, encoded %r' % (t.needed, n), cfg
        if t.entry.d_tag == 'DT_SONAME' and t.soname != 'me.so':
            return 'DT_SONAME string %r' % (t.soname,), cfg
    tabs = seg.get_relocation_tables()
    if set(tabs) != set(want_tables):
        return 'get_relocation_tables() has %r, encoded %r' % (sorted(tabs), sorted(want_tables)), cfg
    for k, (rela, ents) in want_tables.items():
        t = tabs[k]
        got = [(r['r_offset'], r['r_info_sym'], r['r_info_type'], r['r_addend'] if r.is_RELA() else None) for r in t.iter_relocations()]
        if t.is_RELA() != rela or got != ents:
            return '%s table: is_RELA=%r entries %r, encoded is_RELA=%r %r' % (k, t.is_RELA(), got[:4], rela, ents[:4]), cfg
    if use_gnu and len(order) == symoffset:
        want_n = symoffset
    else:
        want_n = len(order)
    if seg.num_symbols() != want_n:
        return 'num_symbols() = %d, the table has %d' % (seg.num_symbols(), want_n), cfg
    got_names = [s.name for s in seg.iter_symbols()]
    if got_names != order[:want_n]:
        return 'iter_symbols() names %r, encoded %r' % (got_names, order), cfg
    # lookup by name: every symbol of that name, in table order; on a fresh object first (no name map built yet),
    # then again after the other queries
    fresh = next(s for s in ELFFile(io.BytesIO(image)).iter_segments() if s['p_type'] == 'PT_DYNAMIC')
    qs = [n for n in uniq[1:]] + ['no_such_symbol']
    rng.shuffle(qs)
    for obj, label in ((fresh, 'fresh object'), (seg, 'after other queries'), (fresh, 'repeated')):
        for n in qs:
            wantv = [0x1000 + 16 * i for i, m in enumerate(order[:want_n]) if m == n and n]
            r = obj.get_symbol_by_name(n)
            gotv = None if r is None else [x['st_value'] for x in r]
            if gotv != (wantv or None):
                return 'get_symbol_by_name(%r) (%s) gives the symbols at %r, the table holds that name at %r' % (
                    n, label, gotv and [hex(v) for v in gotv], [hex(v) for v in wantv]), cfg
    return None


def _with_sections(image, cls, le, dyn_off, dyn_len, str_off, str_len, shift):
    """the same image with a section header table: a .dynamic section that starts `shift` entries into the PT_DYNAMIC extent.
    shift == 0: the section is the segment's array and links the true string table (both views must agree).  shift > 0: a
    section that merely lies inside the segment and links ANOTHER string table (same offsets, other spellings) -- the
    segment's strings are still those of the table DT_STRTAB designates"""
    e = '<' if le else '>'
    tagsz = 16 if cls == 64 else 8
    fake = bytes((c - 32 if 97 <= c <= 122 else c) for c in image[str_off:str_off + str_len])
    shstr = b'\x00.dynamic\x00.dynstr\x00.shstrtab\x00'
    fake_off = len(image)
    shstr_off = fake_off + len(fake)
    shoff = shstr_off + len(shstr)
    shoff += -shoff % 8

    def sh(name, typ, off, size, link=0, entsize=0, flags=0, addr=0):
        if cls == 64:
            return struct.pack(e + 'IIQQQQIIQQ', name, typ, flags, addr, off, size, link, 0, 8, entsize)
        return struct.pack(e + 'IIIIIIIIII', name, typ, flags, addr, off, size, link, 0, 8, entsize)
    link_off, link_len = (str_off, str_len) if shift == 0 else (fake_off, len(fake))
    # (.dynamic is an allocated, writable section mapped where the single PT_LOAD of the writer maps its file offset)
    tab = sh(0, 0, 0, 0) + sh(1, 6, dyn_off + shift * tagsz, dyn_len - shift * tagsz, 2, tagsz, 3, 0x10000 + dyn_off + shift * tagsz) + \
        sh(10, 3, link_off, link_len) + \
        sh(18, 3, shstr_off, len(shstr))
    img = bytearray(image + fake + shstr)
    img += b'\x00' * (shoff - len(img)) + tab
    if cls == 64:
        img[0x28:0x30] = struct.pack(e + 'Q', shoff)
        img[0x3c:0x40] = struct.pack(e + 'HH', 4, 3)
    else:
        img[0x20:0x24] = struct.pack(e + 'I', shoff)
        img[0x30:0x34] = struct.pack(e + 'HH', 4, 3)
    return bytes(img)


def sections_case(rng):
    """C09: the dynamic information is the same with and without section headers"""
    from specs import elf_writer as W
    from elftools.elf.elffile import ELFFile
    cls, le = rng.choice([32, 64]), rng.random() < 0.5
    # (a name need not be UTF-8: both views spell such bytes with the replacement character, as the section view's string
    # table does)
    odd = b'\xff\xfelib\xe9.so'
    strtab = b'\x00libc.so.6\x00libm.so\x00/opt/lib\x00me.so\x00' + odd + b'\x00'
    so = {n: strtab.index(n.encode() + b'\x00') for n in ('libc.so.6', 'libm.so', '/opt/lib', 'me.so')}
    so[odd.decode('utf-8', errors='replace')] = strtab.index(odd + b'\x00')
    tags = [('DT_NEEDED', so['libc.so.6']), ('DT_NEEDED', so['libm.so']), ('DT_SONAME', so['me.so']), ('DT_RUNPATH', so['/opt/lib']),
            ('DT_STRTAB', ('ptr', 'strtab')), ('DT_STRSZ', len(strtab))]
    if rng.random() < 0.5:
        tags.append(('DT_NEEDED', so[odd.decode('utf-8', errors='replace')]))
    rng.shuffle(tags)
    tags = [('DT_DEBUG', 0)] * rng.choice([1, 2]) + tags + [('DT_NULL', 0)]
    image, offs = W.write_dynamic_exec(cls, le, 62 if cls == 64 else 3, [('strtab', strtab)], tags)
    plain = next(s for s in ELFFile(io.BytesIO(image)).iter_segments() if s['p_type'] == 'PT_DYNAMIC')
    shift = rng.choice([0, 1])
    img2 = _with_sections(image, cls, le, plain['p_offset'], plain['p_filesz'], offs['strtab'], len(strtab), shift)
    cfg = 'class=%d le=%s tags=%r; section headers added, .dynamic starts %d entries into PT_DYNAMIC and links %s' % (
        cls, le, [t for t, _ in tags], shift, 'the DT_STRTAB table' if shift == 0 else 'another string table')
    want = []
    for t, v in tags:
        if t in ('DT_NEEDED', 'DT_SONAME', 'DT_RUNPATH'):
            want.append((t, next(k for k, o in so.items() if o == v)))

    def strings(obj):
        out = []
        for t in obj.iter_tags():
            for tag, attr in (('DT_NEEDED', 'needed'), ('DT_SONAME', 'soname'), ('DT_RUNPATH', 'runpath')):
                if t.entry.d_tag == tag:
                    out.append((tag, getattr(t, attr)))
        return out
    ef = ELFFile(io.BytesIO(img2))
    seg = next(s for s in ef.iter_segments() if s['p_type'] == 'PT_DYNAMIC')
    if strings(seg) != want:
        return 'segment view with section headers present: strings %r, the table DT_STRTAB designates spells %r' % (strings(seg), want), cfg, img2.hex()
    if strings(plain) != want:
        return 'segment view without section headers: strings %r, encoded %r' % (strings(plain), want), cfg, image.hex()
    if shift == 0:
        sec = ef.get_section_by_name('.dynamic')
        a = [(t.entry.d_tag, t.entry.d_val) for t in sec.iter_tags()]
        b = [(t.entry.d_tag, t.entry.d_val) for t in seg.iter_tags()]
        if a != b or strings(sec) != want:
            return 'section view %r / %r differs from the segment view %r / %r' % (a[:6], strings(sec), b[:6], want), cfg, img2.hex()
    return None


@task('c09-dynamic-differential', ['C09'], kind='bounded')
def dynamic_diff(tier, seed):
    rng = random.Random(seed * 41 + 9)
    n = 120 if tier == 'quick' else 4000
    bad = None
    for _ in range(n):
        try:
            r = one_case(rng)
            if not r and _ % 3 == 0:
                r = sections_case(rng)
                r = r and (r[0], r[1] + ' image=' + r[2][:600])
        except Exception as e:
            import traceback
            r = ('raised %r (%s)' % (e, ' | '.join(x.strip() for x in traceback.format_exc().splitlines()[-4:-1])), '')
        if r:
            bad = r
            break
    nat = bad and dict(confirmed=True, how='DynamicSegment on a section-less image written from the specification', input=bad[1][:900],
                       observed=bad[0][:600], expected='tags, strings, relocation tables, symbol count and names as encoded')
    obs = [dict(name='bounded:elf/dynamic.py:section-less-image', kind='bounded', verdict='refuted' if bad else 'proved',
                backend='ground-eval(seeded differential, %d images)' % n, time=0.0, bounded=True, detail=bad and bad[0][:600], native=nat)]
    return dict(obligations=obs, assumptions=['BOUNDED: one PT_LOAD + PT_DYNAMIC, 1-6 symbols, SysV or GNU hash, REL/RELA/JMPREL tables of 1-4 entries, '
                                              'both classes and byte orders, one time in three the tables spread over two PT_LOAD segments; every third case also adds a section header '
                                              'table whose .dynamic section is the segment (both views compared) or lies inside it with another string table; RELR '
                                              'tables are covered by the K1 contracts only'],
                functions=[dict(function='elftools/elf/dynamic.py:DynamicSegment (iter_tags, get_relocation_tables, num_symbols, iter_symbols)',
                                kind='bounded differential')], exhaustive=False)
