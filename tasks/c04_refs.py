"""C04 (bounded part): reference resolution.  Small unit sequences are encoded from the standard
(7.5.1 unit headers, 7.5.4 reference forms): compile/partial units whose entries refer to other
entries by unit-relative forms (ref1/2/4/8/udata), by section offset (ref_addr, address-sized in
version 2, offset-sized later) and by type signature (ref_sig8: version 4 type units of
.debug_types, version 5 DW_UT_type / DW_UT_split_type units of .debug_info).  Every reference is
resolved through the real DIE.get_DIE_from_attribute and the answer compared with the designated
entry (offset, owning unit, tag), on a fresh object and again after a full iteration (populated
caches).  Bounded stand-in for the reference dispatch over whole sections; the K1 contracts of
contracts/c04_die.py prove the dispatch and the by-offset lookups function by function."""
import random
from pyvc.run import task
from tasks.c04_dies import _dwarfinfo


def _uleb(v):
    out = bytearray()
    while True:
        b = v & 0x7f
        v >>= 7
        if v:
            out.append(b | 0x80)
        else:
            out.append(b)
            return bytes(out)


TAG = dict(compile_unit=0x11, partial_unit=0x3c, type_unit=0x41, base_type=0x24, structure_type=0x13, variable=0x34,
           lexical_block=0x0b, typedef=0x16)
FORM = dict(ref1=0x11, ref2=0x12, ref4=0x13, ref8=0x14, ref_udata=0x15, ref_addr=0x10, ref_sig8=0x20, data1=0x0b)
AT_type, AT_byte_size = 0x49, 0x0b
UT = dict(DW_UT_compile=1, DW_UT_type=2, DW_UT_partial=3, DW_UT_split_type=6)


class _Abbrevs:
    def __init__(self):
        self.codes, self.blob = {}, b''

    def code(self, tag, children, attrs):
        key = (tag, children, tuple(attrs))
        if key not in self.codes:
            c = len(self.codes) * 3 + 1                    # arbitrary, non-contiguous codes
            self.codes[key] = c
            self.blob += _uleb(c) + _uleb(TAG[tag]) + bytes([1 if children else 0])
            for a, f in attrs:
                self.blob += _uleb(a) + _uleb(FORM[f])
            self.blob += b'\x00\x00'
        return self.codes[key]

    def section(self):
        return self.blob + b'\x00'


def _header(le, fmt, asz, version, unit_type, body_len_after_header, sig=None, type_off=None, in_types=False):
    """(bytes up to the first entry, offset of the first entry from the unit start); the length field is patched by the
    caller through the returned closure"""
    bo = 'little' if le else 'big'
    osz = 4 if fmt == 32 else 8
    rest = version.to_bytes(2, bo)
    if version >= 5:
        rest += bytes([UT[unit_type], asz]) + (0).to_bytes(osz, bo)
    else:
        rest += (0).to_bytes(osz, bo) + bytes([asz])
    if sig is not None:
        rest += sig.to_bytes(8, bo) + type_off.to_bytes(osz, bo)
    return rest


def build(rng, le, fmt, asz, version):
    """-> (sections, expectations): expectations are (unit index in iter_CUs order, referring entry offset,
    attribute form, designated section, designated entry offset, owning unit offset, tag)"""
    bo = 'little' if le else 'big'
    osz = 4 if fmt == 32 else 8
    ilen = 4 if fmt == 32 else 12
    ab = _Abbrevs()

    def wrap(rest):
        return (len(rest).to_bytes(4, bo) if fmt == 32 else b'\xff\xff\xff\xff' + len(rest).to_bytes(8, bo)) + rest

    def hdr_len(typed):
        return ilen + 2 + osz + 1 + (1 if version >= 5 else 0) + ((8 + osz) if typed else 0)

    # --- type units: root(type_unit, children) -> k padding entries, the type entry, null
    sigs = [rng.randrange(1, 1 << 64) for _ in range(2)] if version >= 4 else []

    def make_tus(info_targets):
        out = []
        for s in sigs:
            npad = rng.randrange(0, 3)
            dies = _uleb(ab.code('type_unit', True, []))
            for _ in range(npad):
                dies += _uleb(ab.code('base_type', False, [(AT_byte_size, 'data1')])) + bytes([rng.randrange(256)])
            toff = hdr_len(True) + len(dies)
            dies += _uleb(ab.code('structure_type', False, [(AT_byte_size, 'data1')])) + bytes([rng.randrange(256)])
            inner = []
            if version == 4:
                # references FROM a version 4 type unit: a unit-relative one designates an entry of the type unit itself
                # (.debug_types); a DW_FORM_ref_addr value is always a .debug_info offset, also when the number happens to
                # lie inside the type unit's own extent (both sections start at 0)
                r = hdr_len(True) + len(dies)
                dies += _uleb(ab.code('variable', False, [(AT_type, 'ref4')])) + toff.to_bytes(4, bo)
                inner.append((r, 'DW_FORM_ref4', 'TypeUnit', toff, None, 'DW_TAG_structure_type'))
                for (target, unit, tag) in info_targets:
                    r = hdr_len(True) + len(dies)
                    dies += _uleb(ab.code('typedef', False, [(AT_type, 'ref_addr')])) + target.to_bytes(osz, bo)
                    inner.append((r, 'DW_FORM_ref_addr', 'CompileUnit', target, unit, tag))
            dies += b'\x00'
            ut = rng.choice(['DW_UT_type', 'DW_UT_split_type']) if version >= 5 else None
            rest = _header(le, fmt, asz, version, ut, 0, sig=s, type_off=toff) + dies
            out.append((wrap(rest), toff, ut, s, inner))
        return out
    tus = make_tus([]) if version != 4 else [(b'', 0, None, s, []) for s in sigs]     # version 4: built below, after .debug_info
    # --- two ordinary units; the first refers into itself, into the second and to the type units
    relform = rng.choice(['ref1', 'ref2', 'ref4', 'ref8', 'ref_udata'])
    relw = dict(ref1=1, ref2=2, ref4=4, ref8=8)
    addr_w = asz if version == 2 else osz

    def unit_b():
        dies = _uleb(ab.code('partial_unit' if version >= 3 and rng.random() < .5 else 'compile_unit', True, []))
        for _ in range(rng.randrange(0, 3)):
            dies += _uleb(ab.code('base_type', False, [(AT_byte_size, 'data1')])) + bytes([rng.randrange(256)])
        rel = hdr_len(False) + len(dies)
        dies += _uleb(ab.code('structure_type', False, [(AT_byte_size, 'data1')])) + b'\x08' + b'\x00'
        ut = 'DW_UT_compile' if version >= 5 else None
        return wrap(_header(le, fmt, asz, version, ut, 0) + dies), rel
    ub, ub_rel = unit_b()
    v5_types_first = version >= 5 and rng.random() < .5
    # layout of .debug_info: [v5 type units first?] A [v5 type units?] B   -- A's length is needed for B's offset, and
    # A holds B's offset: encode A twice (all its fields are fixed-width once the forms are chosen)
    types_info = b''.join(t[0] for t in tus) if version >= 5 else b''
    a_off = len(types_info) if v5_types_first else 0
    exp = []

    def unit_a(b_target):
        del exp[:]
        base = hdr_len(False)
        dies = _uleb(ab.code('compile_unit', True, []))
        t1 = base + len(dies)
        dies += _uleb(ab.code('base_type', False, [(AT_byte_size, 'data1')])) + b'\x04'
        # unit-relative reference, nested one level down
        dies += _uleb(ab.code('lexical_block', True, []))
        r1 = base + len(dies)
        enc = _uleb(t1) if relform == 'ref_udata' else t1.to_bytes(relw[relform], bo)
        dies += _uleb(ab.code('variable', False, [(AT_type, relform)])) + enc
        exp.append((a_off + r1, 'DW_FORM_' + relform, 'info', a_off + t1, a_off, 'DW_TAG_base_type'))
        dies += b'\x00'
        # section-relative reference into the other unit
        r2 = base + len(dies)
        dies += _uleb(ab.code('typedef', False, [(AT_type, 'ref_addr')])) + b_target.to_bytes(addr_w, bo)
        exp.append((a_off + r2, 'DW_FORM_ref_addr', 'info', b_target, b_target - ub_rel, 'DW_TAG_structure_type'))
        # section-relative reference to an entry of this unit
        r3 = base + len(dies)
        dies += _uleb(ab.code('typedef', False, [(AT_type, 'ref_addr')])) + (a_off + t1).to_bytes(addr_w, bo)
        exp.append((a_off + r3, 'DW_FORM_ref_addr', 'info', a_off + t1, a_off, 'DW_TAG_base_type'))
        for i, s in enumerate(sigs):
            r = base + len(dies)
            dies += _uleb(ab.code('variable', False, [(AT_type, 'ref_sig8')])) + s.to_bytes(8, bo)
            exp.append((a_off + r, 'DW_FORM_ref_sig8', ('types', i), None, None, 'DW_TAG_structure_type'))
        dies += b'\x00'
        ut = 'DW_UT_compile' if version >= 5 else None
        return wrap(_header(le, fmt, asz, version, ut, 0) + dies)
    ua = unit_a(0)
    mid = b'' if (v5_types_first or version < 5) else types_info
    b_off = a_off + len(ua) + len(mid)
    ua = unit_a(b_off + ub_rel)
    info = (types_info if v5_types_first else b'') + ua + mid + ub
    # resolve the expected targets of the signature references
    tu_offsets, pos = [], (0 if (version < 5 or v5_types_first) else len(ua))
    for t in tus:
        tu_offsets.append(pos)
        pos += len(t[0])
    final = []
    for (r, form, where, target, unit, tag) in exp:
        if where != 'info':
            i = where[1]
            final.append((r, form, 'types' if version < 5 else 'info', tu_offsets[i] + tus[i][1], tu_offsets[i], tag))
        else:
            final.append((r, form, 'info', target, unit, tag))
    tu_refs = []
    if version == 4:
        # the type units of .debug_types, with section-relative references to every designated entry of .debug_info
        tus = make_tus(sorted({(t, u, g) for (_r, _f, w, t, u, g) in exp if w == 'info'}))
        tu_offsets, pos = [], 0
        for t in tus:
            tu_offsets.append(pos)
            pos += len(t[0])
        final = [(r, form, 'types', tu_offsets[w[1]] + tus[w[1]][1], tu_offsets[w[1]], tag) if w != 'info' else (r, form, 'info', t_, u_, tag)
                 for (r, form, w, t_, u_, tag) in exp]
        for t, o in zip(tus, tu_offsets):
            for (r, form, cls_, target, unit, tag) in t[4]:
                # unit-relative values are relative to the type unit; section-relative ones are .debug_info offsets
                tu_refs.append((t[3], o + r, form, cls_, (o + target) if cls_ == 'TypeUnit' else target,
                                o if cls_ == 'TypeUnit' else unit, tag))
    secs = dict(debug_info=info, debug_abbrev=ab.section())
    if version == 4:
        secs['debug_types'] = b''.join(t[0] for t in tus)
    return secs, a_off, final, tu_refs


def resolve_from_tus(dw, tu_refs):
    for (sig, r, form, cls_, target, unit, tag) in tu_refs:
        tu = dw.get_TU_by_sig8(sig)
        die = tu.get_DIE_from_refaddr(r)
        try:
            t = die.get_DIE_from_attribute('DW_AT_type')
        except Exception as e:
            return 'type unit entry at %d: %s reference to the entry at %d (%s) raised %r' % (r, form, target, cls_, e)
        got = (type(t.cu).__name__, t.offset, t.cu.cu_offset, t.tag)
        if got != (cls_, target, unit, tag):
            return 'type unit entry at %d: %s reference resolves to (unit class, offset, unit offset, tag) %r; it designates %r' % (
                r, form, got, (cls_, target, unit, tag))
    return None


def resolve_all(dw, a_off, exp):
    cu = dw.get_CU_at(a_off)
    for (r, form, where, target, unit, tag) in exp:
        die = cu.get_DIE_from_refaddr(r)
        attr = die.attributes['DW_AT_type']
        if attr.form != form:
            return 'entry at %d: reference form %r, encoded %r' % (r, attr.form, form)
        try:
            t = die.get_DIE_from_attribute('DW_AT_type')
        except Exception as e:
            return 'entry at %d: %s reference to the entry at %d of %s raised %r' % (r, form, target, where, e)
        if t.offset != target or t.cu.cu_offset != unit or t.tag != tag:
            return 'entry at %d: %s reference resolves to the %s at %d of the unit at %d; it designates the %s at %d of the ' \
                   'unit at %d (%s)' % (r, form, t.tag, t.offset, t.cu.cu_offset, tag, target, unit, where)
    return None


@task('c04-reference-resolution', ['C04'], kind='bounded')
def refs(tier, seed):
    rng = random.Random(seed + 404)
    n_per = 4 if tier == 'quick' else 60
    obs = []
    for version in (2, 3, 4, 5):
        bad = None
        for le in (True, False):
            for fmt in (32, 64):
                for asz in (4, 8):
                    for _ in range(n_per):
                        secs, a_off, exp, tu_refs = build(rng, le, fmt, asz, version)
                        for warm in (False, True):
                            dw = _dwarfinfo(secs, le, asz)
                            try:
                                if warm:
                                    for cu in dw.iter_CUs():
                                        list(cu.iter_DIEs())
                                    if dw.debug_types_sec is not None:
                                        for tu in dw.iter_TUs():
                                            list(tu.iter_DIEs())
                                r = resolve_all(dw, a_off, exp) or resolve_from_tus(dw, tu_refs)
                            except Exception as e:
                                r = 'real parser raised %r' % (e,)
                            if r and not bad:
                                bad = dict(confirmed=True, how='DIE.get_DIE_from_attribute on a section encoded from the standard',
                                           input={k: v.hex() for k, v in secs.items()},
                                           configuration=repr(dict(le=le, fmt=fmt, asz=asz, version=version, warm=warm)),
                                           observed=r[:500], expected='the entry at the designated offset')
        obs.append(dict(name='bounded:dwarf/die.py:get_DIE_from_attribute[v%d]' % version, kind='bounded',
                        verdict='refuted' if bad else 'proved', backend='ground-eval(seeded differential)', time=0.0,
                        bounded=True, detail=bad and bad['observed'], native=bad))
    return dict(obligations=obs, assumptions=[
        'BOUNDED: unit sequences are generated from the standard with seeded shapes; every reference form x version x '
        'format x address size x byte order is exercised, offsets and signatures are sampled'],
        functions=[dict(function='elftools/dwarf/die.py:DIE.get_DIE_from_attribute, dwarfinfo.py:DWARFInfo.get_DIE_from_refaddr/'
                                 'get_DIE_by_sig8/_parse_debug_types/_parse_TU_at_offset, typeunit.py:TypeUnit',
                        kind='bounded differential')], exhaustive=False)
