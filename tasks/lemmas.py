"""Meta-lemmas checked by Lean 4 on every run (lean/Induction.lean): they lift the per-operation and
per-iteration obligations to whole histories (C10) and whole programs (C05)."""
import os
import re
import subprocess
import time
from pyvc.run import task

ROOT = os.path.dirname(os.path.dirname(os.path.abspath(__file__)))


def _run_lean(fname='Induction.lean'):
    path = os.path.join(ROOT, 'lean', fname)
    src = open(path).read()
    body = re.sub(r'/-.*?-/', '', src, flags=re.S)
    body = re.sub(r'--.*', '', body)
    escapes = [w for w in ('sorry', 'axiom ', 'admit', 'unsafe ', 'native_decide') if w in body]
    t0 = time.time()
    try:
        p = subprocess.run(['lean', path], capture_output=True, text=True, timeout=300)
        ok, out = p.returncode == 0 and not p.stdout.strip() and not p.stderr.strip(), (p.stdout + p.stderr)[:1500]
        if p.returncode == 0 and not ok:
            ok = 'error' not in out and 'sorry' not in out
    except Exception as e:
        return None, 'lean could not be run: %r' % (e,), escapes, 0.0
    return ok, out, escapes, time.time() - t0


def _obs(names, fname='Induction.lean'):
    ok, out, escapes, dt = _run_lean(fname)
    obs = []
    for n in names:
        thm = re.search(r'theorem\s+%s\b' % n, open(os.path.join(ROOT, 'lean', fname)).read()) is not None
        if ok is None:
            verdict = 'undecided'
        else:
            verdict = 'proved' if (ok and thm and not escapes) else 'refuted'
        obs.append(dict(name='lemma:lean/%s:%s' % (fname, n), kind='lemma', verdict=verdict, backend='lean-4.33.0', time=round(dt, 2),
                        bounded=False, detail=None if verdict == 'proved' else ('escapes: %r; lean output: %s' % (escapes, out))))
    return obs


@task('lemma-history', ['C10'], kind='ground')
def history(tier, seed):
    return dict(obligations=_obs(['inv_run', 'history_independent', 'same_as_fresh']),
                assumptions=['the instantiation of the lemma (S = object state incl. caches and stream positions, Inv = the object '
                             'invariants, spec = the specification functions of the contracts) is an argument of DESIGN.md, not a Lean term'],
                functions=[dict(function='lean/Induction.lean (history induction)', kind='lemma')], exhaustive=True)


@task('lemma-fold', ['C05'], kind='ground')
def fold(tier, seed):
    return dict(obligations=_obs(['fold_refines']),
                assumptions=['the instantiation (impl = one iteration of _decode_line_program, spec = one step of the 6.2.5 machine, '
                             'R = equality of registers and emitted rows) is an argument of DESIGN.md, not a Lean term'],
                functions=[dict(function='lean/Induction.lean (step refinement => program refinement)', kind='lemma')], exhaustive=True)


@task('lemma-bitops', ['C03'], kind='ground')
def bitops_lemma(tier, seed):
    return dict(obligations=_obs(['mask_test_two_bits'], 'Bitops.lean'),
                assumptions=['rule mask-test-two-bits of pyvc/verify.py instantiates lean/Bitops.lean:mask_test_two_bits at the terms '
                             'bitand(x, bitor(pow2(a), pow2(b))) with bitand / bitor / pow2 read as Python & and | on non-negative ints and '
                             '2**k: that reading is the meaning of the three symbols, not a Lean term'],
                functions=[dict(function='lean/Bitops.lean (mask test of two bits, all naturals)', kind='lemma')], exhaustive=True)
