"""C08 (bounded part): RELR streams encoded from the generic-ABI proposal (an even word is an address: it is relocated
and the next candidate is the following word; an odd word is a bitmap over the 8W-1 words that follow the last
candidate: bit i+1 relocates candidate + i*W, then the candidate advances by (8W-1)*W) are stored in an SHT_RELR
section of both classes and byte orders and expanded by the real RelrRelocationSection: the address sequence and the
count must be what the stream denotes.  Backstop of the K1 step refinement of RelrRelocationTable.iter_relocations
(which is the proof for all streams): it supplies a failing input when the loop annotations no longer fit."""
import io
import random
import struct
from pyvc.run import task
from tasks._img import sections_image


def gen(rng, cls, le):
    W = cls // 8
    e = '<' if le else '>'
    words, want = [], []
    base = None
    for _ in range(rng.choice([0, 1, 2, 4, 8])):
        if base is None or rng.random() < 0.4:
            a = rng.randrange(0, 1 << (8 * W - 2)) & ~1
            words.append(a)
            want.append(a)
            base = a + W
        else:
            for _k in range(rng.choice([1, 2, 3])):            # consecutive bitmaps continue from the advanced base
                bits = rng.choice([0, 1, (1 << (8 * W - 1)) - 1, rng.randrange(0, 1 << (8 * W - 1))])
                words.append(bits << 1 | 1)
                for i in range(8 * W - 1):
                    if bits >> i & 1:
                        want.append(base + i * W)
                base += (8 * W - 1) * W
    data = b''.join(struct.pack(e + ('I' if W == 4 else 'Q'), w) for w in words)
    return data, want


def one_case(rng):
    from elftools.elf.elffile import ELFFile
    cls, le = rng.choice([32, 64]), rng.random() < 0.5
    data, want = gen(rng, cls, le)
    img, _ = sections_image(cls, le, [dict(name='.relr.dyn', type=19, data=data, entsize=cls // 8, align=8, flags=2)])
    sec = ELFFile(io.BytesIO(img)).get_section_by_name('.relr.dyn')
    cfg = 'class %d le=%s words=%s' % (cls, le, data.hex())
    # histories on a fresh table object: the expansion is memoised, and what a lookup by index or the count answers must
    # not depend on which of them was asked first (a lookup before the first count; decreasing and increasing indices)
    if want:
        h = ELFFile(io.BytesIO(img)).get_section_by_name('.relr.dyn')
        done = []
        for _q in range(rng.choice([1, 2, 3])):
            if rng.random() < 0.7:
                k = rng.randrange(-len(want), len(want))
                done.append('get_relocation(%d)' % k)
                got = h.get_relocation(k)['r_offset']
                if got != want[k]:
                    return ('after %s on a fresh table: address %s, the stream denotes %s' % (', '.join(done), hex(got), hex(want[k])), cfg, img.hex())
            else:
                done.append('num_relocations()')
                if h.num_relocations() != len(want):
                    return ('after %s on a fresh table: count %d, the stream denotes %d' % (', '.join(done), h.num_relocations(), len(want)), cfg, img.hex())
        if h.num_relocations() != len(want):
            return ('after %s on a fresh table: num_relocations() = %d, the stream denotes %d' % (', '.join(done), h.num_relocations(), len(want)), cfg, img.hex())
    for attempt in range(2):
        got = [r['r_offset'] for r in sec.iter_relocations()]
        if got != want:
            i = next((k for k, (a, b) in enumerate(zip(got, want)) if a != b), min(len(got), len(want)))
            return ('iter_relocations() address %d is %s, the stream denotes %s (%d vs %d addresses)' % (
                i, hex(got[i]) if i < len(got) else None, hex(want[i]) if i < len(want) else None, len(got), len(want)), cfg, img.hex())
        if sec.num_relocations() != len(want):
            return 'num_relocations() = %d, the stream denotes %d' % (sec.num_relocations(), len(want)), cfg, img.hex()
    return None


@task('c08-relr-differential', ['C08'], kind='bounded')
def relr(tier, seed):
    rng = random.Random(seed + 808)
    n = 200 if tier == 'quick' else 8000
    bad = None
    for _ in range(n):
        try:
            r = one_case(rng)
        except Exception as e:
            import traceback
            r = ('real code raised %r (%s)' % (e, traceback.format_exc().splitlines()[-3].strip()), '', '')
        if r:
            bad = dict(confirmed=True, how='RelrRelocationSection.iter_relocations on an image with a generated SHT_RELR section',
                       input=r[2][:2500], configuration=r[1][:800], observed=r[0][:600], expected='the address sequence the stream denotes')
            break
    obs = [dict(name='bounded:elf/relocation.py:RELR expansion', kind='bounded', verdict='refuted' if bad else 'proved',
                backend='ground-eval(seeded differential, %d streams)' % n, time=0.0, bounded=True, detail=bad and bad['observed'], native=bad)]
    return dict(obligations=obs, assumptions=['BOUNDED: streams of 0-24 words'],
                functions=[dict(function='elftools/elf/relocation.py:RelrRelocationTable.iter_relocations/num_relocations/get_relocation (end to end, query histories on fresh objects)',
                                kind='bounded differential')], exhaustive=False)
