"""C20: the EHABI byte-code disassembler against the EHABI 9.3 table (specs/ehabi.py).
The instruction set is finite apart from the ULEB128 operand of 0xb2: every one- and two-byte
instruction is enumerated exhaustively (each followed by every possible next opcode class is not
needed: handlers are context free; a sentinel 'finish' follows), which is a complete decision for
those; the 0xb2 operand is enumerated exhaustively up to two bytes and sampled beyond (bounded)."""
import random
import time
import pyvc
from pyvc.run import task
from pyvc import k2


def _real(code):
    from elftools.ehabi.decoder import EHABIBytecodeDecoder
    d = EHABIBytecodeDecoder(list(code))
    return [(list(m.bytecode), m.mnemonic) for m in d.mnemonic_array]


def _compare(code):
    from specs import ehabi
    try:
        want = ehabi.decode(list(code))
    except IndexError:
        return None
    try:
        got = _real(code)
    except Exception as e:
        return dict(input=bytes(code).hex(), observed='raised %r' % (e,), expected=repr(want))
    if got != want:
        return dict(input=bytes(code).hex(), observed=repr(got), expected=repr(want))
    return None


@task('c20-ehabi-bytecode', ['C20'], kind='ground')
def ehabi_bytecode(tier, seed):
    obs = []
    t0 = time.time()
    by_first = {}
    n = 0
    for b0 in range(256):
        bad = None
        for b1 in range(256):
            for tail in ((0xb0,), (0x00, 0xb0)):
                code = (b0, b1) + tail
                n += 1
                r = _compare(code)
                if r and not bad:
                    bad = r
        code = (b0, 0xb0)
        obs.append(dict(name='ground:ehabi/decoder.py:opcode[%#04x]' % b0, kind='ground',
                        verdict='refuted' if bad else 'proved', backend='ground-eval(exhaustive second byte)',
                        time=0.0, detail=bad and 'byte-code %s: %s, EHABI 9.3: %s' % (bad['input'], bad['observed'], bad['expected']),
                        native=bad and dict(confirmed=True, how='real decoder run on the byte-code', **bad)))
    # sequences: every pair of instructions decodes independently (handlers consume exactly their bytes)
    rng = random.Random(seed + 3)
    bad = None
    for _ in range(3000 if tier == 'quick' else 60000):
        code = tuple(rng.randrange(256) for _ in range(rng.randrange(1, 12))) + (0xb0, 0xb0)
        n += 1
        r = _compare(code)
        if r:
            bad = r
            break
    obs.append(dict(name='ground:ehabi/decoder.py:sequences', kind='ground', verdict='refuted' if bad else 'proved',
                    backend='ground-eval(seeded sample)', time=0.0, bounded=True,
                    detail=bad and repr(bad), native=bad and dict(confirmed=True, how='real decoder run', **bad)))
    # 0xb2 operand: exhaustive up to two operand bytes, sampled beyond
    bad = None
    for a in range(256):
        for b in range(256):
            for c in ((), (0x7f,), (0x80, 0x01)):
                code = (0xb2, a, b) + c + (0xb0,)
                n += 1
                r = _compare(code)
                if r and not bad:
                    bad = r
    obs.append(dict(name='ground:ehabi/decoder.py:opcode[0xb2]:uleb-operand', kind='ground',
                    verdict='refuted' if bad else 'proved', backend='ground-eval(operands up to 4 bytes)',
                    time=0.0, bounded=True, detail=bad and repr(bad),
                    native=bad and dict(confirmed=True, how='real decoder run', **bad)))
    return dict(obligations=obs, assumptions=[
        'mnemonic text: templates of LLVM ARMEHABIPrinter as quoted in the library source; no independent text oracle',
        'BOUNDED: the ULEB128 operand of opcode 0xb2 is enumerated up to 4 bytes; instruction sequences are sampled'],
        functions=[dict(function='elftools/ehabi/decoder.py:EHABIBytecodeDecoder._decode + ring + handlers',
                        kind='ground', evaluations=n)], exhaustive=False)


@task('k2-ehabi-structs', ['C20'], kind='K2')
def ehabi_structs(tier, seed):
    from elftools.ehabi.structs import EHABIStructs
    obs = []
    rng = random.Random(seed)
    for le in (True, False):
        st = EHABIStructs(le)
        en = 'le' if le else 'be'
        spec = {'EH_index_struct': ('struct', [('word0', ('int', 4, False, en)), ('word1', ('int', 4, False, en))]),
                'EH_table_struct': ('struct', [('word0', ('int', 4, False, en))])}
        for n, want in spec.items():
            out, fns = [], []
            real = k2.normal_form(getattr(st, n))
            k2.compare(real, want, n, out, fns)
            nat = k2.differential(getattr(st, n), want, rng, n=30) if out else None
            obs.append(dict(name='K2:ehabi/structs.py:%s[%s]' % (n, en), kind='K2', verdict='refuted' if out else 'proved',
                            backend='ground-eval', time=0.0, detail=out or None, native=nat))
    return dict(obligations=obs, assumptions=[], functions=[dict(function='elftools/ehabi/structs.py:EHABIStructs', kind='K2')])
