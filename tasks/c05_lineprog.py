"""C05 (bounded part): line-number units encoded from the specification (specs/lnp_spec.py) are parsed
through the real DWARFInfo._parse_line_program_at_offset and decoded by the real LineProgram; header
tables, the program extent and the emitted rows are compared with the encoder's data and the 6.2.5
interpreter.  Complements the K1 step refinement of _decode_line_program (which proves every
iteration for all inputs) with the header / extent / table handling that is not under K1 contract."""
import io
import random
import pyvc
from pyvc.run import task


def _dwarfinfo(line_bytes, le, asz):
    from elftools.dwarf.dwarfinfo import DWARFInfo, DebugSectionDescriptor, DwarfConfig
    sec = DebugSectionDescriptor(stream=io.BytesIO(line_bytes), name='.debug_line', global_offset=0, size=len(line_bytes), address=0)
    names = ['debug_info_sec', 'debug_aranges_sec', 'debug_abbrev_sec', 'debug_frame_sec', 'eh_frame_sec', 'debug_str_sec',
             'debug_loc_sec', 'debug_ranges_sec', 'debug_line_sec', 'debug_pubtypes_sec', 'debug_pubnames_sec', 'debug_addr_sec',
             'debug_str_offsets_sec', 'debug_line_str_sec', 'debug_loclists_sec', 'debug_rnglists_sec', 'debug_sup_sec',
             'gnu_debugaltlink_sec', 'debug_types_sec']
    kw = {n: None for n in names}
    kw['debug_line_sec'] = sec
    from specs import lnp_spec as L
    for nm, data in (('debug_str', L.STR), ('debug_line_str', L.LINE_STR)):
        kw[nm + '_sec'] = DebugSectionDescriptor(stream=io.BytesIO(data), name='.' + nm, global_offset=0, size=len(data), address=0)
    return DWARFInfo(config=DwarfConfig(little_endian=le, default_address_size=asz, machine_arch='x64'), **kw)


def compare(units, le, asz, fmt):
    """units: list of (bytes, header, instrs) laid out back to back in one .debug_line"""
    from elftools.dwarf.structs import DWARFStructs
    from specs import lnp_spec as L
    section = b''.join(u[0] for u in units)
    dw = _dwarfinfo(section, le, asz)
    off = 0
    for unit, h, ins in units:
        st = DWARFStructs(little_endian=le, dwarf_format=fmt, address_size=asz, dwarf_version=h['version'])
        lp = dw._parse_line_program_at_offset(off, st)
        end = off + len(unit)
        if lp.program_end_offset != end:
            return 'unit at %d: program_end_offset %d, the unit ends at %d' % (off, lp.program_end_offset, end)
        if lp.program_start_offset != end - h['program_len']:
            return 'unit at %d: program_start_offset %d, the header designates %d' % (off, lp.program_start_offset, end - h['program_len'])
        hd = lp.header
        for k, want in (('minimum_instruction_length', h['min_inst']), ('maximum_operations_per_instruction', h['max_ops']),
                        ('default_is_stmt', h['default_is_stmt']), ('line_base', h['line_base']), ('line_range', h['line_range']),
                        ('opcode_base', h['opcode_base'])):
            if hd[k] != want:
                return 'unit at %d: header %s = %r, encoded %r' % (off, k, hd[k], want)
        if list(hd['standard_opcode_lengths']) != h['std_lengths']:
            return 'unit at %d: standard_opcode_lengths %r' % (off, list(hd['standard_opcode_lengths']))
        if [bytes(d) for d in hd['include_directory']] != h['dirs']:
            return 'unit at %d: include_directory %r, encoded %r' % (off, list(hd['include_directory']), h['dirs'])
        files = [(bytes(f.name), f.dir_index) for f in hd['file_entry']][:len(h['files'])]
        if files != [(f[0], f[1]) for f in h['files']]:
            return 'unit at %d: file_entry %r, encoded %r' % (off, files, h['files'])
        if h.get('entry_formats') and any(c == 0x2001 for c, _f in h['entry_formats'][1]):
            got_src = [bytes(f['DW_LNCT_LLVM_source']) for f in hd['file_names']]
            want_src = [b'inc' if f[0] == b'a.c' else b'/usr/src' for f in h['files']]
            if got_src != want_src:
                return 'unit at %d: the vendor string member of the file entries is %r, encoded %r' % (off, got_src, want_src)
        rows = [e.state for e in lp.get_entries() if e.state is not None]
        want = L.machine(h, ins)
        got = [dict(address=s.address, op_index=s.op_index, file=s.file, line=s.line, column=s.column,
                    basic_block=bool(s.basic_block), end_sequence=bool(s.end_sequence), prologue_end=bool(s.prologue_end),
                    epilogue_begin=bool(s.epilogue_begin), isa=s.isa, discriminator=s.discriminator,
                    is_stmt=bool(s.is_stmt)) for s in rows]
        for w in want:
            if w['end_sequence']:
                w['is_stmt'] = False        # recorded known finding (readelf-compatible is_stmt on the end row)
        if got != want:
            i = next((j for j, (a, b) in enumerate(zip(got, want)) if a != b), min(len(got), len(want)))
            return 'unit at %d: row %d is %r, the state machine gives %r (rows %d vs %d)' % (
                off, i, got[i] if i < len(got) else None, want[i] if i < len(want) else None, len(got), len(want))
        off = end
    return None


@task('c05-lineprogram-differential', ['C05'], kind='bounded')
def lineprog(tier, seed):
    from specs import lnp_spec as L
    rng = random.Random(seed + 5)
    obs = []
    n = 12 if tier == 'quick' else 400
    for version in (2, 3, 4, 5):
        for fmt in (32, 64):
            bad = None
            for le in (True, False):
                for asz in (4, 8):
                    for _ in range(n):
                        units = [L.gen_unit(rng, le, fmt, asz, version) for _ in range(rng.choice([1, 2]))]
                        try:
                            r = compare(units, le, asz, fmt)
                        except Exception as e:
                            r = 'real parser raised %r' % (e,)
                        if r:
                            bad = dict(confirmed=True, how='DWARFInfo._parse_line_program_at_offset + LineProgram.get_entries '
                                       'on units encoded from the specification', input=b''.join(u[0] for u in units).hex()[:1500],
                                       configuration=repr((le, fmt, asz, version)), observed=r[:600],
                                       expected='header tables, extent and rows as encoded / DWARF 6.2.5')
                            break
                    if bad:
                        break
                if bad:
                    break
            obs.append(dict(name='bounded:dwarf/lineprogram.py+dwarfinfo.py:units[v%d,%d-bit]' % (version, fmt), kind='bounded',
                            verdict='refuted' if bad else 'proved', backend='ground-eval(seeded differential)', time=0.0,
                            bounded=True, detail=bad and bad['observed'], native=bad))
    return dict(obligations=obs, assumptions=[
        'BOUNDED: units are generated from the specification with seeded parameters, tables and instruction sequences',
        'the is_stmt value of end-of-sequence rows is compared against the recorded known finding (forced to false)'],
        functions=[dict(function='elftools/dwarf/dwarfinfo.py:DWARFInfo._parse_line_program_at_offset; '
                                 'elftools/dwarf/lineprogram.py:LineProgram.get_entries/_decode_line_program',
                        kind='bounded differential')], exhaustive=False)
