"""C13 (bounded part): .debug_aranges sections encoded from DWARF 6.1.2 / 7.21 (32-bit format sets: unit_length, version 2,
debug_info_offset, address_size, segment_size 0, padding to a multiple of the tuple size, (address, length) tuples up to the
(0, 0) terminator; one address size per section) are read through the real ARanges: every encoded tuple with its set header,
in order, and cu_offset_at_addr for addresses inside, on both boundaries, between and outside the (pairwise disjoint)
ranges.  Backstop of the K1 contracts of aranges.py: it supplies a failing input when the loop annotations no longer fit."""
import io
import random
import struct
from pyvc.run import task
from tasks.c04_dies import _dwarfinfo


def gen(rng, le, asz):
    e = '<' if le else '>'
    out, exp = b'', []
    nsets = rng.choice([1, 2, 3])
    # disjoint ranges over all sets, unsorted within and across the sets; a range may start at address 0
    starts = rng.sample(range(0, 64), rng.choice([0, 1, 3, 6, 9]))
    ranges = [(s * 0x100 if s else 0, rng.choice([1, 0x10, 0x100])) for s in starts]
    rng.shuffle(ranges)
    for k in range(nsets):
        mine = ranges[k::nsets]
        info = rng.randrange(0, 1 << 20)
        hdr = struct.pack(e + 'HIBB', 2, info, asz, 0)
        pad = -(len(out) + 4 + len(hdr)) % (2 * asz)
        body = hdr + b'\x00' * pad + b''.join(struct.pack(e + ('II' if asz == 4 else 'QQ'), a, l) for a, l in mine) + b'\x00' * (2 * asz)
        for a, l in mine:
            exp.append(dict(begin_addr=a, length=l, info_offset=info, unit_length=len(body), version=2, address_size=asz, segment_size=0))
        out += struct.pack(e + 'I', len(body)) + body
    return out, exp


def one_case(rng):
    le, asz = rng.random() < 0.5, rng.choice([4, 8])
    data, exp = gen(rng, le, asz)
    ar = _dwarfinfo({'debug_aranges': data}, le, asz).get_aranges()
    cfg = 'le=%s address_size=%d section=%s' % (le, asz, data.hex()[:800])
    got = sorted((dict(begin_addr=x.begin_addr, length=x.length, info_offset=x.info_offset, unit_length=x.unit_length, version=x.version,
                       address_size=x.address_size, segment_size=x.segment_size) for x in ar.entries), key=lambda d: d['begin_addr'])
    want = sorted(exp, key=lambda d: d['begin_addr'])
    if got != want:
        return 'entries %r, encoded %r' % (got[:4], want[:4]), cfg
    probes = set()
    for x in exp:
        probes |= {x['begin_addr'], x['begin_addr'] + x['length'] - 1, x['begin_addr'] + x['length'], max(0, x['begin_addr'] - 1)}
    probes |= {0, 0x50, 1 << 20}
    for p in sorted(probes):
        w = next((x['info_offset'] for x in exp if x['begin_addr'] <= p < x['begin_addr'] + x['length']), None)
        g = ar.cu_offset_at_addr(p)
        if g != w:
            return 'cu_offset_at_addr(%#x) = %r, the ranges give %r' % (p, g, w), cfg
    return None


@task('c13-aranges-differential', ['C13'], kind='bounded')
def aranges(tier, seed):
    rng = random.Random(seed + 1313)
    n = 200 if tier == 'quick' else 8000
    bad = None
    for _ in range(n):
        try:
            r = one_case(rng)
        except Exception as e:
            import traceback
            r = ('real code raised %r (%s)' % (e, traceback.format_exc().splitlines()[-3].strip()), '')
        if r:
            bad = dict(confirmed=True, how='DWARFInfo.get_aranges() on a section encoded from the specification', input=r[1][:2000],
                       observed=r[0][:600], expected='the encoded tuples and the unit of the containing range')
            break
    obs = [dict(name='bounded:dwarf/aranges.py:address ranges', kind='bounded', verdict='refuted' if bad else 'proved',
                backend='ground-eval(seeded differential, %d sections)' % n, time=0.0, bounded=True, detail=bad and bad['observed'], native=bad)]
    return dict(obligations=obs, assumptions=['BOUNDED: 1-3 sets of one address size, 0-9 pairwise disjoint ranges (a range may start at address 0)'],
                functions=[dict(function='elftools/dwarf/aranges.py:ARanges (end to end)', kind='bounded differential')], exhaustive=False)
