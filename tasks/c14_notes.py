"""C14 (bounded part): note extents encoded from the gABI (note header of three words, name and descriptor
each padded to 4 bytes) are placed in images that describe the same bytes both as an SHT_NOTE section and as
a PT_NOTE segment (p_align 1, 4 or 8: the padding inside the extent is the standard 4 bytes whatever the
segment alignment).  NoteSection.iter_notes and NoteSegment.iter_notes must both yield exactly the encoded
notes in order: sizes, owner, type (named by the table of the file type: ET_CORE or other), raw descriptor,
offset, padded size, and the decoded descriptor of the GNU ABI tag, build id, gold version and property
notes.  Complements the K1 contract of iter_notes (one extent, for all inputs) with the two container views,
which are not under contract, and keeps deciding when the loop is rewritten in a form the engine rejects."""
import io
import random
import struct
from pyvc.run import task

GNU_TYPES = {1: 'NT_GNU_ABI_TAG', 2: 'NT_GNU_HWCAP', 3: 'NT_GNU_BUILD_ID', 4: 'NT_GNU_GOLD_VERSION', 5: 'NT_GNU_PROPERTY_TYPE_0'}
CORE_TYPES = {1: 'NT_PRSTATUS', 2: 'NT_FPREGSET', 6: 'NT_AUXV'}
ABI_OS = {0: 'ELF_NOTE_OS_LINUX', 1: 'ELF_NOTE_OS_GNU', 2: 'ELF_NOTE_OS_SOLARIS2', 3: 'ELF_NOTE_OS_FREEBSD'}


def pad4(b):
    return b + b'\x00' * (-len(b) % 4)


def gen_notes(rng, cls, le, core, base):
    e = '<' if le else '>'
    out, exp = b'', []
    for _ in range(rng.choice([0, 1, 2, 3, 6])):
        off = base + len(out)
        owner = rng.choice([b'GNU', b'GNU', b'CORE', b'LINUX', b'', b'a', b'ab', b'abcd', b'Vendor-Name-Long'])
        name = owner + b'\x00' if owner or rng.random() < 0.5 else b''
        typ = rng.choice([1, 2, 6, 0x7777, 0x100] if core else [1, 3, 4, 5, 2, 0x7777, 0x100])
        desc_view = None
        if not core and owner == b'GNU' and typ == 1:
            osv = rng.choice(sorted(ABI_OS))
            ver = [rng.randrange(0, 50) for _ in range(3)]
            desc = struct.pack(e + 'IIII', osv, *ver)
            desc_view = ('abi', ABI_OS[osv], ver)
        elif not core and owner == b'GNU' and typ == 5:
            desc, sizes = b'', []
            al = 4 if cls == 32 else 8
            for _k in range(rng.choice([1, 2, 3])):
                # GNU_PROPERTY_STACK_SIZE (1: one class-sized word), GNU_PROPERTY_NO_COPY_ON_PROTECTED (2: empty),
                # GNU_PROPERTY_X86_FEATURE_1_AND (0xc0000002: one 4-byte word); each padded to 4 / 8 bytes
                pt = rng.choice([1, 2, 0xc0000002])
                data = {1: bytes(rng.randrange(256) for _ in range(al)), 2: b'', 0xc0000002: struct.pack(e + 'I', rng.randrange(4))}[pt]
                p = struct.pack(e + 'II', pt, len(data)) + data
                desc += p + b'\x00' * (-len(p) % al)
                sizes.append(len(data))
            desc_view = ('props', sizes)
        else:
            desc = bytes(rng.randrange(256) for _ in range(rng.choice([0, 1, 2, 3, 4, 5, 16, 20, 33])))
            if not core and owner == b'GNU' and typ == 3:
                desc_view = ('hex', desc.hex())
            elif not core and owner == b'GNU' and typ == 4:
                desc_view = ('str', desc.decode('latin-1'))
            else:
                desc_view = ('raw', desc)
        raw = struct.pack(e + 'III', len(name), len(desc), typ) + pad4(name) + pad4(desc)
        table = CORE_TYPES if core else GNU_TYPES
        exp.append(dict(n_namesz=len(name), n_descsz=len(desc), n_type=table.get(typ, typ), n_name=(owner.decode() if name else None),
                        n_descdata=desc, n_offset=off, n_size=len(raw), desc=desc_view))
        out += raw
    return out, exp


def image(cls, le, etype, notes, p_align, sec_size=None):
    e = '<' if le else '>'
    ident = b'\x7fELF' + bytes([1 if cls == 32 else 2, 1 if le else 2, 1, 0]) + b'\x00' * 8
    ehsz, phsz, shsz = (64, 56, 64) if cls == 64 else (52, 32, 40)
    note_off = ehsz + phsz
    note_off += -note_off % 8
    strtab = b'\x00.note.x\x00.shstrtab\x00'
    str_off = note_off + len(notes)
    shoff = str_off + len(strtab)
    shoff += -shoff % 8

    def sh(name, typ, off, size):
        if cls == 64:
            return struct.pack(e + 'IIQQQQIIQQ', name, typ, 0, 0, off, size, 0, 0, 4, 0)
        return struct.pack(e + 'IIIIIIIIII', name, typ, 0, 0, off, size, 0, 0, 4, 0)
    shdrs = sh(0, 0, 0, 0) + sh(1, 7, note_off, len(notes) if sec_size is None else sec_size) + sh(9, 3, str_off, len(strtab))
    if cls == 64:
        hdr = ident + struct.pack(e + 'HHIQQQIHHHHHH', etype, 62, 1, 0, ehsz, shoff, 0, ehsz, phsz, 1, shsz, 3, 2)
        ph = struct.pack(e + 'IIQQQQQQ', 4, 4, note_off, 0, 0, len(notes), len(notes), p_align)
    else:
        hdr = ident + struct.pack(e + 'HHIIIIIHHHHHH', etype, 3, 1, 0, ehsz, shoff, 0, ehsz, phsz, 1, shsz, 3, 2)
        ph = struct.pack(e + 'IIIIIIII', 4, note_off, 0, 0, len(notes), len(notes), 4, p_align)
    img = hdr + ph
    img += b'\x00' * (note_off - len(img)) + notes + strtab
    img += b'\x00' * (shoff - len(img)) + shdrs
    return img, note_off


def view(n):
    d = n['n_desc']
    t = n['n_type']
    if n['n_name'] == 'GNU' and t == 'NT_GNU_ABI_TAG':
        dv = ('abi', d['abi_os'], [d['abi_major'], d['abi_minor'], d['abi_tiny']])
    elif n['n_name'] == 'GNU' and t == 'NT_GNU_PROPERTY_TYPE_0':
        dv = ('props', [p['pr_datasz'] for p in d])
    elif n['n_name'] == 'GNU' and t == 'NT_GNU_BUILD_ID':
        dv = ('hex', d)
    elif n['n_name'] == 'GNU' and t == 'NT_GNU_GOLD_VERSION':
        dv = ('str', d)
    else:
        dv = ('raw', bytes(d))
    return dict(n_namesz=n['n_namesz'], n_descsz=n['n_descsz'], n_type=t, n_name=n['n_name'], n_descdata=bytes(n['n_descdata']),
                n_offset=n['n_offset'], n_size=n['n_size'], desc=dv)


def one_case(rng):
    from elftools.elf.elffile import ELFFile
    cls, le = rng.choice([32, 64]), rng.random() < 0.5
    etype = rng.choice([1, 2, 3, 4])
    p_align = rng.choice([1, 4, 8])
    # the extent's file offset is fixed by the layout: build twice (offsets in the expectations are absolute)
    _img, base = image(cls, le, etype, b'', p_align)
    notes, exp = gen_notes(rng, cls, le, etype == 4, base)
    # the usual link-editor layout: the PT_NOTE segment covers several note sections and starts where the first of them
    # starts -- one time in three the section holds only the first k notes of the segment's extent
    k = len(exp)
    if exp and rng.random() < 0.34:
        k = rng.randrange(1, len(exp) + 1)
    sec_size = None if k == len(exp) else exp[k - 1]['n_offset'] + exp[k - 1]['n_size'] - base
    img, base2 = image(cls, le, etype, notes, p_align, sec_size)
    assert base == base2
    cfg = 'class %d le=%s e_type=%d p_align=%d notes=%r; the section holds the first %d' % (
        cls, le, etype, p_align, [(x['n_name'], x['n_type'], x['n_descsz']) for x in exp], k)
    ef = ELFFile(io.BytesIO(img))
    sec = ef.get_section_by_name('.note.x')
    seg = next(ef.iter_segments('PT_NOTE'))
    order = [('section', sec), ('segment', seg), ('section again', sec)]
    if rng.random() < 0.5:
        order = [('segment', seg), ('section', sec), ('segment again', seg)]
    full = exp
    for label, it in order:
        exp = full[:k] if label.startswith('section') else full
        got = [view(n) for n in it.iter_notes()]
        if got != exp:
            i = next((k for k, (a, b) in enumerate(zip(got, exp)) if a != b), min(len(got), len(exp)))
            return ('%s view: note %d is %r, encoded %r (%d notes yielded, %d encoded)' % (
                label, i, got[i] if i < len(got) else None, exp[i] if i < len(exp) else None, len(got), len(exp)), cfg, img.hex())
    return None


def stab_case(rng):
    """a .stab section (12-byte records: n_strx word, n_type byte, n_other byte, n_desc half, n_value word) placed after other
    sections: every record with its fields and its FILE offset, in order, repeatedly"""
    from elftools.elf.elffile import ELFFile
    from tasks._img import sections_image
    cls, le = rng.choice([32, 64]), rng.random() < 0.5
    e = '<' if le else '>'
    recs = [(rng.randrange(1 << 32), rng.randrange(256), rng.randrange(256), rng.randrange(1 << 16), rng.randrange(1 << 32))
            for _ in range(rng.choice([0, 1, 2, 5, 9]))]
    data = b''.join(struct.pack(e + 'IBBHI', *r) for r in recs)
    img, offs = sections_image(cls, le, [dict(name='.text', type=1, data=b'\x90' * rng.choice([1, 7, 40])),
                                         dict(name='.stab', type=1, data=data, entsize=12, align=4), dict(name='.stabstr', type=3, data=b'\x00a\x00')])
    sec = ELFFile(io.BytesIO(img)).get_section_by_name('.stab')
    want = [dict(n_strx=r[0], n_type=r[1], n_other=r[2], n_desc=r[3], n_value=r[4], n_offset=offs[1] + 12 * i) for i, r in enumerate(recs)]
    for _ in range(2):
        got = [{k: st[k] for k in ('n_strx', 'n_type', 'n_other', 'n_desc', 'n_value', 'n_offset')} for st in sec.iter_stabs()]
        if got != want:
            i = next((k for k, (a, b) in enumerate(zip(got, want)) if a != b), min(len(got), len(want)))
            return ('stab record %d is %r, encoded %r (%d vs %d records; the section starts at file offset %d)' % (
                i, got[i] if i < len(got) else None, want[i] if i < len(want) else None, len(got), len(want), offs[1]),
                'class %d le=%s' % (cls, le), img.hex())
    return None


@task('c14-stabs-differential', ['C14'], kind='bounded')
def stabs(tier, seed):
    rng = random.Random(seed + 1415)
    n = 100 if tier == 'quick' else 4000
    bad = None
    for _ in range(n):
        try:
            r = stab_case(rng)
        except Exception as e:
            import traceback
            r = ('real code raised %r (%s)' % (e, traceback.format_exc().splitlines()[-3].strip()), '', '')
        if r:
            bad = dict(confirmed=True, how='StabSection.iter_stabs on an image with a generated .stab section', input=r[2][:2500],
                       configuration=r[1], observed=r[0][:700], expected='the encoded records with their file offsets')
            break
    obs = [dict(name='bounded:elf/sections.py:stab records', kind='bounded', verdict='refuted' if bad else 'proved',
                backend='ground-eval(seeded differential, %d images)' % n, time=0.0, bounded=True, detail=bad and bad['observed'], native=bad)]
    return dict(obligations=obs, assumptions=['BOUNDED: sections of 0-9 records'],
                functions=[dict(function='elftools/elf/sections.py:StabSection.iter_stabs (end to end)', kind='bounded differential')], exhaustive=False)


@task('c14-notes-differential', ['C14'], kind='bounded')
def notes(tier, seed):
    rng = random.Random(seed + 1414)
    n = 150 if tier == 'quick' else 6000
    bad = None
    for _ in range(n):
        try:
            r = one_case(rng)
        except Exception as e:
            import traceback
            r = ('real code raised %r (%s)' % (e, traceback.format_exc().splitlines()[-3].strip()), '', '')
        if r:
            bad = dict(confirmed=True, how='NoteSection.iter_notes / NoteSegment.iter_notes on an image encoded from the gABI',
                       input=r[2][:3000], configuration=r[1][:1200], observed=r[0][:800], expected='the encoded notes')
            break
    obs = [dict(name='bounded:elf/notes.py+sections.py+segments.py:note views', kind='bounded', verdict='refuted' if bad else 'proved',
                backend='ground-eval(seeded differential, %d images)' % n, time=0.0, bounded=True, detail=bad and bad['observed'], native=bad)]
    return dict(obligations=obs, assumptions=[
        'BOUNDED: extents of 0-6 notes; core-file process-info / file-map descriptors (NT_PRPSINFO, NT_FILE) are not generated'],
        functions=[dict(function='elftools/elf/notes.py:iter_notes; sections.py:NoteSection.iter_notes; segments.py:NoteSegment.iter_notes',
                        kind='bounded differential')], exhaustive=False)
