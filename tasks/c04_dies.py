"""C04 / C10 (bounded part): .debug_info sections encoded from the specification (specs/die_spec.py) are
read through the real DWARFInfo / CompileUnit / DIE; the decoded unit headers, the entry sequence
(offset, size, code, tag, child flag, attributes in order with final form, raw and resolved value,
offset), the children / parent / terminator relations and lookups by offset are compared with the
encoder's data.  The same queries are then repeated on the same object after a random history of
other queries and stream repositionings, and compared with the answers of a fresh object (C10).

Bounded stand-in: the K1 contracts of contracts/c04_die.py prove the cache and the children walk for
all inputs against the structural specification; the parse of one entry (_parse_DIE and the form
table lookups), the subtree iterator and the parent search are covered here only."""
import io
import random
from pyvc.run import task


def _dwarfinfo(secs, le, asz):
    from elftools.dwarf.dwarfinfo import DWARFInfo, DebugSectionDescriptor, DwarfConfig
    names = ['debug_info_sec', 'debug_aranges_sec', 'debug_abbrev_sec', 'debug_frame_sec', 'eh_frame_sec', 'debug_str_sec',
             'debug_loc_sec', 'debug_ranges_sec', 'debug_line_sec', 'debug_pubtypes_sec', 'debug_pubnames_sec', 'debug_addr_sec',
             'debug_str_offsets_sec', 'debug_line_str_sec', 'debug_loclists_sec', 'debug_rnglists_sec', 'debug_sup_sec',
             'gnu_debugaltlink_sec', 'debug_types_sec']
    kw = {n: None for n in names}
    for k, data in secs.items():
        if data:
            kw[k + '_sec'] = DebugSectionDescriptor(stream=io.BytesIO(data), name='.' + k, global_offset=0, size=len(data), address=0)
    return DWARFInfo(config=DwarfConfig(little_endian=le, default_address_size=asz, machine_arch='x64'), **kw)


def _plain(v):
    if isinstance(v, (list, tuple)):
        return [_plain(x) for x in v]
    if isinstance(v, (bytes, bytearray)):
        return bytes(v)
    return v


def _same(a, b):
    a, b = _plain(a), _plain(b)
    return type(a) is type(b) and a == b if not isinstance(a, bool) and not isinstance(b, bool) else (a is b or a == b and type(a) is type(b))


def die_view(die):
    return dict(offset=die.offset, size=die.size, code=die.abbrev_code, tag=die.tag, has_children=die.has_children,
                attrs=[[a.name, a.form, _plain(a.raw_value), _plain(a.value), a.offset, a.indirection_length]
                       for a in die.attributes.values()])


def want_view(e):
    return dict(offset=e['offset'], size=e['size'], code=e['code'], tag=e['tag'], has_children=e['has_children'],
                attrs=[[a[0], a[1], _plain(a[2]), _plain(a[3]), a[4], a[5]] for a in e['attrs']])


def cmp_die(die, e, where):
    g, w = die_view(die), want_view(e)
    if e.get('null'):
        w['has_children'] = None
    for k in ('offset', 'size', 'code', 'tag', 'has_children'):
        if not _same(g[k], w[k]) and not (k == 'has_children' and bool(g[k]) == bool(w[k]) and g[k] is not None and w[k] is not None):
            return '%s: entry at %d: %s is %r, encoded %r' % (where, e['offset'], k, g[k], w[k])
    # a repeated attribute name keeps the last occurrence (dict): compare per name, in first-occurrence order
    last = {}
    for a in w['attrs']:
        last[a[0]] = a
    wl = [last[n] for n in dict.fromkeys(a[0] for a in w['attrs'])]
    if len(g['attrs']) != len(wl):
        return '%s: entry at %d has %d attributes, encoded %d' % (where, e['offset'], len(g['attrs']), len(wl))
    for ga, wa in zip(g['attrs'], wl):
        for i, nm in enumerate(('name', 'form', 'raw_value', 'value', 'offset', 'indirection_length')):
            if not _same(ga[i], wa[i]):
                return '%s: entry at %d attribute %r: %s is %r, encoded %r' % (where, e['offset'], wa[0], nm, ga[i], wa[i])
    return None


def _units(dw, exps):
    """(real unit objects, expectations) of .debug_info followed by those of .debug_types (version 4 type units)"""
    xi = [x for x in exps if x.get('section') != 'debug_types']
    xt = [x for x in exps if x.get('section') == 'debug_types']
    cus = list(dw.iter_CUs())
    tus = list(dw.iter_TUs()) if xt else []
    return cus, xi, tus, xt


def check_sequential(dw, exps):
    cus, xi, tus, xt = _units(dw, exps)
    if len(cus) != len(xi):
        return 'iter_CUs yields %d units, the section holds %d' % (len(cus), len(xi))
    if len(tus) != len(xt):
        return 'iter_TUs yields %d units, .debug_types holds %d' % (len(tus), len(xt))
    for cu, x in list(zip(cus, xi)) + list(zip(tus, xt)):
        fields = [('cu_offset', cu.cu_offset), ('cu_die_offset', cu.cu_die_offset), ('size', cu.size),
                  ('unit_length', cu['unit_length']), ('version', cu['version']), ('address_size', cu['address_size']),
                  ('debug_abbrev_offset', cu['debug_abbrev_offset'])]
        if x.get('section') == 'debug_types':
            fields += [('cu_offset', cu.tu_offset), ('cu_die_offset', cu.tu_die_offset), ('signature', cu['signature']),
                       ('type_offset', cu['type_offset'])]
        elif x['signature'] is not None:
            fields += [('signature', cu['type_signature']), ('type_offset', cu['type_offset'])]
        for k, g in fields:
            if g != x[k]:
                return 'unit at %d: %s is %r, encoded %r' % (x['cu_offset'], k, g, x[k])
        if x['unit_type'] is not None and cu['unit_type'] != x['unit_type']:
            return 'unit at %d: unit_type %r, encoded %r' % (x['cu_offset'], cu['unit_type'], x['unit_type'])
        if cu.structs.dwarf_format != x['cfg'].fmt:
            return 'unit at %d: format %r, encoded %r' % (x['cu_offset'], cu.structs.dwarf_format, x['cfg'].fmt)
        dies = list(cu.iter_DIEs())
        if len(dies) != len(x['entries']):
            return 'unit at %d: iter_DIEs yields %d entries, encoded %d' % (x['cu_offset'], len(dies), len(x['entries']))
        pos = x['cu_die_offset']
        for d, e in zip(dies, x['entries']):
            r = cmp_die(d, e, 'iter_DIEs')
            if r:
                return r
            if d.offset != pos:
                return 'unit at %d: entries do not tile the unit: entry at %d, previous ended at %d' % (x['cu_offset'], d.offset, pos)
            pos += d.size
        if pos != x['cu_offset'] + x['size']:
            return 'unit at %d: entries end at %d, the unit at %d' % (x['cu_offset'], pos, x['cu_offset'] + x['size'])
    return None


def check_structure(dw, exps, rng):
    cus, xi, tus, xt = _units(dw, exps)
    for cu, x in list(zip(cus, xi)) + list(zip(tus, xt)):
        in_types = x.get('section') == 'debug_types'
        ents = x['entries']
        order = list(range(len(ents)))
        rng.shuffle(order)
        for i in order[:12]:
            e = ents[i]
            d = cu.get_DIE_from_refaddr(e['offset'])
            r = cmp_die(d, e, 'CompileUnit.get_DIE_from_refaddr')
            if r:
                return r
            if not in_types:
                d2 = dw.get_DIE_from_refaddr(e['offset'])
                if d2.offset != e['offset'] or d2.cu.cu_offset != x['cu_offset']:
                    return 'DWARFInfo.get_DIE_from_refaddr(%d) gives the entry at %d of unit %d' % (e['offset'], d2.offset, d2.cu.cu_offset)
            if e['has_children']:
                kids = [c.offset for c in d.iter_children()]
                if kids != [ents[k]['offset'] for k in e['children']]:
                    return 'children of the entry at %d: %r, encoded %r' % (e['offset'], kids, [ents[k]['offset'] for k in e['children']])
                if d._terminator is None or d._terminator.offset != ents[e['terminator']]['offset']:
                    return 'terminator of the entry at %d: %r, encoded %d' % (e['offset'], d._terminator and d._terminator.offset,
                                                                             ents[e['terminator']]['offset'])
            elif not e.get('null'):
                if list(d.iter_children()):
                    return 'entry at %d without children yields children' % e['offset']
            p = d.get_parent()        # null entries included: their parent is the entry whose list they close
            want = None if e['parent'] is None else ents[e['parent']]['offset']
            if (p.offset if p is not None else None) != want:
                return 'parent of the entry at %d: %r, encoded %r' % (e['offset'], p and p.offset, want)
    return None


def snapshot(dw):
    """every observable of a full sequential read, as plain data"""
    out = []
    for cu in dw.iter_CUs():
        out.append((cu.cu_offset, cu.cu_die_offset, cu.size, [die_view(d) for d in cu.iter_DIEs()]))
    if dw.debug_types_sec is not None:
        for tu in dw.iter_TUs():
            out.append((tu.tu_offset, tu.tu_die_offset, tu.size, [die_view(d) for d in tu.iter_DIEs()]))
    return out


def check_history(secs, exps, le, asz, rng):
    """C10: answers after an arbitrary history of queries and stream repositionings equal those of a fresh object"""
    fresh = snapshot(_dwarfinfo(secs, le, asz))
    dw = _dwarfinfo(secs, le, asz)
    streams = [getattr(dw, n).stream for n in ('debug_info_sec', 'debug_abbrev_sec', 'debug_str_sec') if getattr(dw, n)]
    log = []
    for _ in range(rng.choice([3, 8, 20])):
        op = rng.choice(['refaddr', 'cu_at', 'partial_iter', 'children', 'seek', 'top', 'parent', 'containing'])
        x = rng.choice(exps)
        e = rng.choice(x['entries'])
        if x.get('section') == 'debug_types':
            op = 'tu-' + rng.choice(['sig', 'partial_iter', 'refaddr', 'seek'])
        log.append((op, e['offset']))
        try:
            if op == 'tu-sig':
                dw.get_TU_by_sig8(x['signature'])
            elif op == 'tu-partial_iter':
                it = dw.get_TU_by_sig8(x['signature']).iter_DIEs()
                for _k in range(rng.randrange(0, 4)):
                    next(it, None)
            elif op == 'tu-refaddr':
                for _c in dw.get_TU_by_sig8(x['signature']).get_DIE_from_refaddr(e['offset']).iter_children():
                    if rng.random() < 0.3:
                        break
            elif op == 'tu-seek':
                dw.debug_types_sec.stream.seek(rng.randrange(0, 64))
            elif op == 'refaddr':
                dw.get_DIE_from_refaddr(e['offset'])
            elif op == 'cu_at':
                dw.get_CU_at(x['cu_offset'])
            elif op == 'containing':
                dw.get_CU_containing(e['offset'])
            elif op == 'partial_iter':
                it = dw.get_CU_at(x['cu_offset']).iter_DIEs()
                for _k in range(rng.randrange(0, 4)):
                    next(it, None)
            elif op == 'children':
                for _c in dw.get_DIE_from_refaddr(e['offset']).iter_children():
                    if rng.random() < 0.3:
                        break
            elif op == 'seek':
                for s in streams:
                    s.seek(rng.randrange(0, 64))
            elif op == 'top':
                dw.get_CU_at(x['cu_offset']).get_top_DIE()
            elif op == 'parent':
                dw.get_DIE_from_refaddr(e['offset']).get_parent()
        except Exception as ex:
            return 'history %r: query raised %r' % (log, ex)
    try:
        after = snapshot(dw)
    except Exception as ex:
        return 'after history %r the sequential read raises %r; a fresh object reads every unit' % (log[-6:], ex)
    if after != fresh:
        for (a, b) in zip(after, fresh):
            if a != b:
                da = next((p for p, q in zip(a[3], b[3]) if p != q), None)
                db = next((q for p, q in zip(a[3], b[3]) if p != q), None)
                return 'after history %r the unit at %d reads %r, a fresh object reads %r' % (log[-6:], b[0], da or a[:3], db or b[:3])
        return 'after history %r the sequential read differs in length' % (log[-6:],)
    return None


def one_case(rng, version, fmt, tier):
    from specs import die_spec as S
    le = rng.random() < 0.5
    n_units = rng.choice([1, 2, 3])
    cfgs = []
    for i in range(n_units):
        v = version if i == 0 else rng.choice([2, 3, 4, 5])
        f = fmt if i == 0 else rng.choice([32, 64])
        ut = rng.choice(sorted(S.V5_UNIT_TYPES)) if v >= 5 else 'DW_UT_compile'
        cfgs.append(S.Cfg(le, f, rng.choice([4, 8]), v, ut))
    # version 4: type units in .debug_types alongside the .debug_info units
    tcfgs = [S.Cfg(le, rng.choice([32, 64]), rng.choice([4, 8]), 4, 'TU4') for _ in range(rng.choice([0, 1, 2, 3]))] if version == 4 else []
    secs, exps = S.gen_section(rng, cfgs, shared_abbrev=rng.random() < 0.4, type_cfgs=tcfgs)
    asz = cfgs[0].asz
    inp = dict(configuration=repr([(c.le, c.fmt, c.asz, c.version, c.unit_type) for c in cfgs + tcfgs]),
               input='debug_info=%s debug_abbrev=%s debug_types=%s' % (secs['debug_info'].hex()[:1200], secs['debug_abbrev'].hex()[:600],
                                                                       secs['debug_types'].hex()[:600]))
    try:
        r = check_sequential(_dwarfinfo(secs, le, asz), exps)
        r = r or check_structure(_dwarfinfo(secs, le, asz), exps, rng)
    except Exception as e:
        import traceback
        r = 'real parser raised %r (%s)' % (e, traceback.format_exc().splitlines()[-3].strip())
    if r:
        return 'decode', r, inp
    r = check_history(secs, exps, le, asz, rng)
    if r:
        return 'history', r, inp
    return None


def run_cases(tier, seed):
    rng = random.Random(seed * 7919 + 4)
    n = 10 if tier == 'quick' else 300
    res = {}
    for version in (2, 3, 4, 5):
        for fmt in (32, 64):
            bad = {}
            for _ in range(n):
                r = one_case(rng, version, fmt, tier)
                if r and r[0] not in bad:
                    bad[r[0]] = r
            res[(version, fmt)] = bad
    return res


_cache = {}


def _results(tier, seed):
    if (tier, seed) not in _cache:
        _cache[(tier, seed)] = run_cases(tier, seed)
    return _cache[(tier, seed)]


def _obs(tier, seed, which, label, how, expected):
    obs = []
    for (version, fmt), bad in sorted(_results(tier, seed).items()):
        b = bad.get(which)
        nat = b and dict(confirmed=True, how=how, input=b[2]['input'], configuration=b[2]['configuration'],
                         observed=b[1][:700], expected=expected)
        obs.append(dict(name='bounded:dwarf/die.py+compileunit.py+dwarfinfo.py:%s[v%d,%d-bit]' % (label, version, fmt), kind='bounded',
                        verdict='refuted' if b else 'proved', backend='ground-eval(seeded differential)', time=0.0, bounded=True,
                        detail=b and b[1][:700], native=nat))
    return obs


@task('c04-die-tree-differential', ['C04'], kind='bounded')
def die_tree(tier, seed):
    obs = _obs(tier, seed, 'decode', 'entry-tree', 'DWARFInfo.iter_CUs / CompileUnit.iter_DIEs / get_DIE_from_refaddr / '
               'DIE.iter_children / get_parent on sections encoded from the specification',
               'units, entries, attributes and tree relations exactly as encoded (DWARF 7.5)')
    return dict(obligations=obs, assumptions=[
        'BOUNDED: sections are generated from the specification with seeded parameters (1-3 units of mixed version/format/'
        'address size, 7 declarations, trees of depth <= 4, every form valid for the version incl. nested DW_FORM_indirect)',
        'a repeated attribute name in one declaration is compared as the library stores it (dict: the last occurrence wins)'],
        functions=[dict(function='elftools/dwarf/die.py:DIE._parse_DIE/_resolve_indirect/_translate_attr_value; '
                                 'compileunit.py:_iter_DIE_subtree; die.py:_search_ancestor_offspring; abbrevtable.py',
                        kind='bounded differential')], exhaustive=False)


@task('c10-die-history-differential', ['C10'], kind='bounded')
def die_history(tier, seed):
    obs = _obs(tier, seed, 'history', 'history-independence', 'random histories of unit/entry queries, partial iterations and '
               'stream repositionings, then a full sequential read compared with a fresh object',
               'the same answers as a freshly opened object')
    return dict(obligations=obs, assumptions=[
        'BOUNDED: histories of 3-20 operations over {lookup by offset, unit lookup, partial iteration, children, parent, root '
        'entry, containing unit, stream repositioning} on generated sections'],
        functions=[dict(function='elftools/dwarf/dwarfinfo.py + compileunit.py + die.py (query history)', kind='bounded differential')],
        exhaustive=False)
