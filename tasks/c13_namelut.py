"""C13 (bounded part): .debug_pubnames / .debug_pubtypes sections encoded from DWARF 6.1.1 (32-bit format:
unit_length, version 2, debug_info_offset, debug_info_length, then (offset, NUL-terminated name) pairs up to
a zero offset) are read through DWARFInfo.get_pubnames() / get_pubtypes(); every encoded name (UTF-8, also
non-ASCII) must map to its unit offset and absolute entry offset, in encoded order, with the set headers.
NameLUT is not under K1 contract (string-keyed dictionary built in a nested loop)."""
import io
import random
import struct
from pyvc.run import task
from tasks.c04_dies import _dwarfinfo

NAMES = ['main', 'x', 'été', 'ns::fn', 'Ω', 'a_long_identifier_name_for_testing_purposes', 'π≈3', 'operator<<', 'z9', 'naïve', '日本']


def gen(rng, le):
    e = '<' if le else '>'
    out, sets, order = b'', [], []
    pool = list(NAMES)
    rng.shuffle(pool)
    for _ in range(rng.choice([1, 2, 3])):
        cu_ofs, cu_len = rng.randrange(0, 1 << 20), rng.randrange(1, 1 << 16)
        body = b''
        k = rng.choice([0, 1, 2, 4])
        for _i in range(k):
            if not pool:
                break
            name = pool.pop()
            die = rng.randrange(1, 1 << 16)
            body += struct.pack(e + 'I', die) + name.encode('utf-8') + b'\x00'
            order.append((name, cu_ofs, cu_ofs + die))
        body += struct.pack(e + 'I', 0)
        hdr = struct.pack(e + 'HII', 2, cu_ofs, cu_len)
        unit_length = len(hdr) + len(body)
        sets.append(dict(unit_length=unit_length, version=2, debug_info_offset=cu_ofs, debug_info_length=cu_len))
        out += struct.pack(e + 'I', unit_length) + hdr + body
    return out, sets, order


def one_case(rng):
    le = rng.random() < 0.5
    data, sets, order = gen(rng, le)
    which = rng.choice(['debug_pubnames', 'debug_pubtypes'])
    dw = _dwarfinfo({which: data}, le, rng.choice([4, 8]))
    lut = dw.get_pubnames() if which == 'debug_pubnames' else dw.get_pubtypes()
    cfg = '%s le=%s sets=%r names=%r' % (which, le, sets, order)
    got = [(n, e.cu_ofs, e.die_ofs) for n, e in lut.items()]
    if got != order:
        return 'items() = %r, encoded %r' % (got[:6], order[:6]), cfg
    for n, cu, die in order:
        e = lut.get(n)
        if e is None or (e.cu_ofs, e.die_ofs) != (cu, die):
            return 'lookup of %r = %r, encoded (%d, %d)' % (n, e and (e.cu_ofs, e.die_ofs), cu, die), cfg
    if lut.get('no_such_name') is not None or len(lut) != len(order):
        return 'absent name found or len() = %d, encoded %d' % (len(lut), len(order)), cfg
    hdrs = [dict(unit_length=h.unit_length, version=h.version, debug_info_offset=h.debug_info_offset, debug_info_length=h.debug_info_length)
            for h in lut.get_cu_headers()]
    if hdrs != sets:
        return 'set headers %r, encoded %r' % (hdrs, sets), cfg
    return None


@task('c13-namelut-differential', ['C13'], kind='bounded')
def namelut(tier, seed):
    rng = random.Random(seed * 37 + 13)
    n = 200 if tier == 'quick' else 5000
    bad = None
    for _ in range(n):
        try:
            r = one_case(rng)
        except Exception as e:
            import traceback
            r = ('raised %r (%s)' % (e, traceback.format_exc().splitlines()[-3].strip()), '')
        if r:
            bad = r
            break
    nat = bad and dict(confirmed=True, how='DWARFInfo.get_pubnames()/get_pubtypes() on sections encoded from DWARF 6.1.1', input=bad[1][:900],
                       observed=bad[0][:600], expected='every encoded name with its unit and entry offset, in order, with the set headers')
    obs = [dict(name='bounded:dwarf/namelut.py:name-tables', kind='bounded', verdict='refuted' if bad else 'proved',
                backend='ground-eval(seeded differential, %d sections)' % n, time=0.0, bounded=True, detail=bad and bad[0][:600], native=nat)]
    return dict(obligations=obs, assumptions=['BOUNDED: 1-3 sets of 0-4 names (ASCII and non-ASCII UTF-8), 32-bit format, both byte orders'],
                functions=[dict(function='elftools/dwarf/namelut.py:NameLUT._get_entries/items/get/get_cu_headers', kind='bounded differential')],
                exhaustive=False)
