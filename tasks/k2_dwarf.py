"""K2 obligations for the DWARF structures: DWARFStructs is instantiated through
its real __new__ (cache included) for the complete configuration space, in two
different orders, and every construct tree is compared with specs/dwarf_layouts."""
import random
import time
import pyvc
from pyvc import k2
from pyvc.run import task

STRUCT_PROPS = {
    'Dwarf_CU_header': ['C04'], 'Dwarf_TU_header': ['C04'], 'Dwarf_abbrev_declaration': ['C04'],
    'Dwarf_string_offsets_table_header': ['C04'], 'Dwarf_address_table_header': ['C04', 'C07'],
    'Dwarf_lineprog_header': ['C05'], 'Dwarf_lineprog_file_entry': ['C05'],
    'Dwarf_CIE_header': ['C06'], 'EH_CIE_header': ['C06'], 'Dwarf_FDE_header': ['C06'],
    'Dwarf_loclists_CU_header': ['C07'], 'Dwarf_rnglists_CU_header': ['C07'], 'Dwarf_loclists_entries': ['C07'],
    'Dwarf_rnglists_entries': ['C07'], 'Dwarf_loclists_counted_location_description': ['C07'],
    'Dwarf_locview_pair': ['C07'], 'Dwarf_aranges_header': ['C13'], 'Dwarf_nameLUT_header': ['C13'],
    'Dwarf_debugsup': ['C11'], 'Dwarf_debugaltlink': ['C11'],
}
FORM_PROPS = ['C04', 'C05']
PRIM_PROPS = ['C16', 'C04']


def configs():
    out = []
    for le in (True, False):
        for fmt in (32, 64):
            for asz in (4, 8):
                for ver in (2, 3, 4, 5):
                    out.append((le, fmt, asz, ver))
    return out


def run(props, tier, seed):
    from elftools.dwarf.structs import DWARFStructs
    from specs.dwarf_layouts import layouts
    t0 = time.time()
    rng = random.Random(seed + 23)
    obligations, fn_seen, seen = {}, {}, {}
    cfgs = configs()
    orders = [cfgs, list(reversed(cfgs))]
    r2 = list(cfgs)
    random.Random(seed + 5).shuffle(r2)
    orders.append(r2)
    nconf = 0

    def ob(name):
        return obligations.setdefault(name, dict(name=name, kind='K2', verdict='proved', backend='ground-eval',
                                                 time=0.0, configs=0, detail=None))

    def fail(rec, cfg, out, nat=None):
        if rec['verdict'] == 'proved':
            rec['verdict'] = 'refuted'
            rec['detail'] = ['configuration (little_endian, dwarf_format, address_size, dwarf_version) = %r' % (cfg,)] + out[:6]
            if nat and nat.get('confirmed'):
                nat['how'] = 'real struct of this configuration and Sem(specification layout) run on concrete bytes'
                nat['configuration'] = repr(cfg)
                rec['native'] = nat

    def check(oname, cfg, real_con, spec_nf, gkey):
        rec = ob(oname)
        rec['configs'] += 1
        try:
            real = k2.normal_form(real_con) if real_con is not None else None
        except k2.K2Error as e:
            rec['verdict'] = 'undecided'
            rec['reason'] = str(e)
            return
        key = (oname, repr(real), repr(spec_nf))
        if key not in seen:
            out, fns = [], []
            if real is None or spec_nf is None:
                if real is not spec_nf:
                    out.append('%s: %r != %r' % (oname, real, spec_nf))
            else:
                k2.compare(real, spec_nf, oname.split(':')[-1], out, fns)
            nat = None
            if real is not None and spec_nf is not None and not _has_formatted(spec_nf):
                try:
                    nat = k2.differential(real_con, spec_nf, rng, n=60 if out else 8)
                except Exception as e:
                    nat = dict(confirmed=False, error=repr(e))
            seen[key] = (out, fns, nat)
        out, fns, nat = seen[key]
        if out:
            fail(rec, cfg, out, nat)
        elif nat and nat.get('confirmed') and rec['verdict'] == 'proved':
            rec['verdict'] = 'undecided'
            rec['reason'] = 'cross-check: layouts compare equal but real parser and Sem disagree: %r' % (nat,)
        for path, rfn, spec in fns:
            fkey = (path, rfn.fn.__code__.co_filename, rfn.fn.__code__.co_firstlineno, spec.text)
            if fkey in fn_seen:
                continue
            r = k2.fn_equiv(rfn.fn, spec.text, spec.params, dict(spec.shapes), spec.requires,
                            name='K2:dwarf/structs.py:%s:fn' % path)
            if r['verdict'] == 'error':
                r['verdict'] = 'undecided'
                r['reason'] = r.pop('error')
            fn_seen[fkey] = r

    for order in orders:
        DWARFStructs._structs_cache.clear()
        for cfg in order:
            nconf += 1
            le, fmt, asz, ver = cfg
            st = DWARFStructs(little_endian=le, dwarf_format=fmt, address_size=asz, dwarf_version=ver)
            L, F, P, THE = layouts(le, fmt, asz, ver)
            for n, want in L.items():
                if not (set(STRUCT_PROPS.get(n, [])) & props):
                    continue
                oname = 'K2:dwarf/structs.py:%s' % n
                if not hasattr(st, n):
                    fail(ob(oname), cfg, ['struct %s missing' % n])
                    continue
                check(oname, cfg, getattr(st, n), want, n)
            names = set(n for n in vars(st) if n.startswith('Dwarf_') and hasattr(getattr(st, n), '_parse')
                        and not isinstance(getattr(st, n), type))
            for n in sorted(names - set(L)):
                if props & {'C04'}:
                    fail(ob('K2:dwarf/structs.py:%s' % n), cfg, ['struct %s has no specification layout' % n])
            if set(FORM_PROPS) & props:
                table = st.Dwarf_dw_form
                for fname, want in F.items():
                    oname = 'K2:dwarf/structs.py:Dwarf_dw_form[%s]' % fname
                    if fname not in table:
                        fail(ob(oname), cfg, ['form %s defined by the standard has no parser entry' % fname],
                             dict(confirmed=True, input='Dwarf_dw_form[%r]' % fname, observed='KeyError',
                                  expected=repr(want)))
                        ob(oname)['configs'] += 1
                        continue
                    check(oname, cfg, table[fname], want, fname)
            if set(PRIM_PROPS) & props:
                for pn, want in list(P.items()) + list(THE.items()):
                    oname = 'K2:dwarf/structs.py:%s' % pn
                    try:
                        f = getattr(st, pn)
                        con = f('x') if pn in P else f
                    except Exception as e:
                        fail(ob(oname), cfg, ['%s: %s' % (pn, e)])
                        continue
                    check(oname, cfg, con, want, pn)
    obs = list(obligations.values()) + list(fn_seen.values())
    return dict(obligations=obs, assumptions=[
        'Sem of construct node kinds as in DESIGN.md 2.8; FormattedEntry (v5 line-table entries) is a node kind whose '
        'real _parse is under its own K1 contract (C05)',
        'DW_AT_GNU_all_call_sites and DW_FORM_ref keys of Dwarf_dw_form are not forms of any DWARF version: unchecked'],
        functions=[dict(function='elftools/dwarf/structs.py:DWARFStructs.__new__/_create_structs', kind='K2',
                        configurations=nconf)], exhaustive=True, configurations=nconf)


def _has_formatted(nf):
    if isinstance(nf, tuple):
        if nf and nf[0] == 'formatted':
            return True
        return any(_has_formatted(x) for x in nf)
    if isinstance(nf, list):
        return any(_has_formatted(x) for x in nf)
    if isinstance(nf, dict):
        return any(_has_formatted(x) for x in nf.values())
    return False


def _mk(prop):
    @task('k2-dwarf-structs[%s]' % prop, [prop], kind='K2')
    def _t(tier, seed, prop=prop):
        return run({prop}, tier, seed)
    return _t


for _p in sorted(set(p for ps in STRUCT_PROPS.values() for p in ps) | set(FORM_PROPS) | set(PRIM_PROPS)):
    _mk(_p)
