"""C17 ground obligations: every (table, name, value) of the library's constant
tables against the vendored registries (registry/*.json)."""
import json
import os
import time
import pyvc
from pyvc.run import task

HERE = os.path.join(pyvc.ROOT, 'registry')


def load_registries():
    regs = {}
    for f in ('elf_h.json', 'llvm_elf.json', 'llvm_dwarf.json', 'supplement.json'):
        regs[f] = {k: set(v) for k, v in json.load(open(os.path.join(HERE, f)))['names'].items()}
    return regs


def lookup(regs, name, which):
    vals = set()
    for f in which:
        vals |= regs[f].get(name, set())
    return vals


ELF_REGS = ('elf_h.json', 'llvm_elf.json', 'supplement.json')
DW_REGS = ('llvm_dwarf.json', 'supplement.json')


def tables():
    """yield (table name, {name: value}, registries)"""
    import elftools.elf.enums as EE
    import elftools.elf.constants as EC
    import elftools.dwarf.enums as DE
    import elftools.dwarf.constants as DC
    import elftools.dwarf.dwarf_expr as DX
    import elftools.dwarf.callframe as CF
    for n, v in sorted(vars(EE).items()):
        if n.startswith('ENUM_') and isinstance(v, dict):
            yield 'elf/enums.py:' + n, {k: x for k, x in v.items() if k != '_default_' and isinstance(x, int)}, ELF_REGS
        if n.startswith('ENUMMAP_') and isinstance(v, dict):
            for k2, d in v.items():
                yield 'elf/enums.py:%s[%s]' % (n, k2), {k: x for k, x in d.items() if k != '_default_'}, ELF_REGS
    for n, c in sorted(vars(EC).items()):
        if isinstance(c, type):
            d = {k: x for k, x in vars(c).items() if not k.startswith('_') and isinstance(x, int)}
            yield 'elf/constants.py:' + n, d, ELF_REGS
    for n, v in sorted(vars(DE).items()):
        if n.startswith('ENUM_') and isinstance(v, dict):
            yield 'dwarf/enums.py:' + n, {k: x for k, x in v.items() if k != '_default_' and isinstance(x, int)}, DW_REGS
    yield 'dwarf/enums.py:DW_EH_encoding_flags', dict(DE.DW_EH_encoding_flags), DW_REGS
    yield 'dwarf/constants.py', {k: x for k, x in vars(DC).items() if k.startswith('DW_') and isinstance(x, int)}, DW_REGS
    yield 'dwarf/dwarf_expr.py:DW_OP_name2opcode', dict(DX.DW_OP_name2opcode), DW_REGS


@task('c17-registries', ['C17'], kind='ground')
def c17(tier, seed):
    import elftools.dwarf.enums as DE
    import elftools.dwarf.constants as DC
    import elftools.dwarf.dwarf_expr as DX
    import elftools.dwarf.callframe as CF
    regs = load_registries()
    obs = []
    unchecked = {}
    nchecked = 0
    for tname, d, which in tables():
        for name, val in sorted(d.items()):
            want = lookup(regs, name, which)
            if not want:
                unchecked.setdefault(tname, []).append(name)
                continue
            nchecked += 1
            ok = val in want
            obs.append(dict(name='ground:%s:%s' % (tname, name), kind='ground', verdict='proved' if ok else 'refuted',
                            backend='ground-eval', time=0.0,
                            detail=None if ok else 'library value %#x, registry value(s) %s' % (val, sorted(want)),
                            native=None if ok else dict(confirmed=True, how='module-level table read from the imported library',
                                                        input='%s[%r]' % (tname, name), observed=val,
                                                        expected=sorted(want))))
    # derived tables as functions of their sources
    def derived(name, ok, detail):
        obs.append(dict(name='ground:derived:' + name, kind='ground', verdict='proved' if ok else 'refuted',
                        backend='ground-eval', time=0.0, detail=None if ok else detail,
                        native=None if ok else dict(confirmed=True, how='module-level table read from the imported library',
                                                    input=name, observed=detail, expected='derived table consistent with its source')))
    inv = DE.DW_FORM_raw2name
    bad = [(v, n) for v, n in inv.items() if DE.ENUM_DW_FORM.get(n) != v]
    miss = [n for n, v in DE.ENUM_DW_FORM.items() if n != '_default_' and v not in inv]
    derived('dwarf/enums.py:DW_FORM_raw2name', not bad and not miss, 'bad %r missing %r' % (bad[:5], miss[:5]))
    # CFA opcode name map: each value -> a name registered for that value; every DW_CFA constant present
    cfa = {k: v for k, v in vars(DC).items() if k.startswith('DW_CFA')}
    bad = [(v, n) for v, n in CF._OPCODE_NAME_MAP.items() if cfa.get(n) != v]
    miss = [n for n, v in cfa.items() if v not in CF._OPCODE_NAME_MAP]
    derived('dwarf/callframe.py:_OPCODE_NAME_MAP', not bad and not miss, 'bad %r missing %r' % (bad[:5], miss[:5]))
    for v, n in sorted(CF._OPCODE_NAME_MAP.items()):
        want = lookup(regs, n, DW_REGS)
        if want:
            ok = v in want
            obs.append(dict(name='ground:dwarf/callframe.py:_OPCODE_NAME_MAP:%#x' % v, kind='ground',
                            verdict='proved' if ok else 'refuted', backend='ground-eval', time=0.0,
                            detail=None if ok else 'opcode %#x named %s, registry gives %s' % (v, n, sorted(want)),
                            native=None if ok else dict(confirmed=True, how='table read', input='%#x' % v, observed=n,
                                                        expected=sorted(want))))
    # per-machine tables: the table consulted for a machine must be that machine's (every pair of another machine's table
    # is individually right, so the pairwise comparison cannot see a table attached to the wrong machine).  The gABI naming
    # convention is the oracle: processor-specific dynamic tags of machine EM_<ARCH> are named DT_<ARCH>_*
    import elftools.elf.enums as EE
    for mach, tab in sorted(EE.ENUMMAP_EXTRA_D_TAG_MACHINE.items()):
        arch = mach[3:]
        parts = arch.split('_')         # EM_MIPS_RS3_LE is a MIPS machine: any leading part of the machine name is its family
        fams = ['_'.join(parts[:i]) for i in range(len(parts), 0, -1)]
        wrong = sorted(n for n in tab if n != '_default_' and not any(n.startswith('DT_%s_' % f) for f in fams))
        derived('elf/enums.py:ENUMMAP_EXTRA_D_TAG_MACHINE[%s]:machine-prefix' % mach, not wrong,
                'machine %s is given a table with the names %r (expected DT_%s_*)' % (mach, wrong[:4], arch))
    # operation names <-> opcodes one-to-one (C12/C17)
    rev = {}
    for n, v in DX.DW_OP_name2opcode.items():
        rev.setdefault(v, []).append(n)
    dup = {v: ns for v, ns in rev.items() if len(ns) > 1}
    derived('dwarf/dwarf_expr.py:DW_OP_opcode2name', all(DX.DW_OP_name2opcode.get(n) == v for v, n in DX.DW_OP_opcode2name.items())
            and set(DX.DW_OP_opcode2name) == set(rev), 'reverse map inconsistent')
    nun = sum(len(v) for v in unchecked.values())
    return dict(obligations=obs, assumptions=[
        'registries: glibc elf.h and LLVM 14 BinaryFormat headers as found in the sandbox image (hashes in registry/*.json); '
        'a name is accepted when any registry assigns it the library value',
        '%d names are known to no registry and cannot fail (unchecked): e.g. %s' % (
            nun, ', '.join('%s:%s' % (t.split(':')[-1], ns[0]) for t, ns in list(unchecked.items())[:8]))],
        functions=[dict(function='module-level constant tables of elf/enums.py, elf/constants.py, dwarf/enums.py, '
                                 'dwarf/constants.py, dwarf/dwarf_expr.py, dwarf/callframe.py', kind='ground',
                        names_checked=nchecked, names_unchecked=nun)],
        exhaustive=True)
