"""C03 (bounded part): GNU and SysV hash tables built from the specification over random symbol names
(both classes, both byte orders, any nbuckets >= 1, symoffset, bloom size / shift, names colliding in
hash, in bucket, and in the upper 31 hash bits) are queried through the real GNUHashTable /
ELFHashTable for every present name and for absent names; the recovered symbol count must equal the
table's true length.  The symbol table is a stub that shares the file stream and moves it on every
lookup, as the real symbol and string tables do.  Complements the K1 contracts (hash functions, count
recovery, GNU chain walk), which do not cover the bloom filter test (assumed there) nor SysV chains."""
import io
import random
import struct
from pyvc.run import task


def gnu_hash(name):
    h = 5381
    for c in name.encode():
        h = (h * 33 + c) & 0xffffffff
    return h


def sysv_hash(name):
    h = 0
    for c in name.encode():
        h = (h << 4) + c
        g = h & 0xf0000000
        if g:
            h ^= g >> 24
        h &= ~g
    return h & 0xffffffff


def build_gnu(names, symoffset, nbuckets, bloom_size, shift, cls, le, perm=None):
    """(bytes of the table, symbol names in final table order): the hashed symbols of one bucket are adjacent; the buckets'
    chains follow one another in bucket order, or in the order perm gives (any order is a valid table: a lookup starts at the
    index its bucket holds and walks to the end bit)"""
    e = '<' if le else '>'
    C = cls
    rank = (lambda b: b) if perm is None else (lambda b: perm[b])
    unhashed, hashed = names[:symoffset], sorted(names[symoffset:], key=lambda n: rank(gnu_hash(n) % nbuckets))
    order = unhashed + hashed
    bloom = [0] * bloom_size
    buckets = [0] * nbuckets
    chain = []
    for i, n in enumerate(hashed):
        h = gnu_hash(n)
        bloom[(h // C) % bloom_size] |= (1 << (h % C)) | (1 << ((h >> shift) % C))
        b = h % nbuckets
        if buckets[b] == 0:
            buckets[b] = symoffset + i
        last = (i + 1 == len(hashed)) or (gnu_hash(hashed[i + 1]) % nbuckets != b)
        chain.append((h & ~1) | (1 if last else 0))
    out = struct.pack(e + 'IIII', nbuckets, symoffset, bloom_size, shift)
    out += b''.join(struct.pack(e + ('Q' if C == 64 else 'I'), w) for w in bloom)
    out += b''.join(struct.pack(e + 'I', b) for b in buckets)
    out += b''.join(struct.pack(e + 'I', c) for c in chain)
    return out, order


def build_sysv(names, nbuckets, le):
    e = '<' if le else '>'
    n = len(names)
    buckets, chains = [0] * nbuckets, [0] * n
    for i in range(1, n):
        b = sysv_hash(names[i]) % nbuckets
        chains[i] = buckets[b]
        buckets[b] = i
    return struct.pack(e + 'II', nbuckets, n) + b''.join(struct.pack(e + 'I', x) for x in buckets + chains)


class _Sym:
    def __init__(self, name):
        self.name = name


class _StubSymtab:
    """shares the file stream and moves it on every lookup (as reading an Elf_Sym and its name does)"""

    def __init__(self, stream, names, rng):
        self.stream, self.names, self.rng = stream, names, rng

    def get_symbol(self, i):
        self.stream.seek(self.rng.randrange(0, 64))
        self.stream.read(self.rng.randrange(0, 8))
        return _Sym(self.names[i])

    def num_symbols(self):
        return len(self.names)


def colliding_names(rng, k):
    """names among which some collide in the upper 31 bits of the GNU hash (last character differs by 1 with
    an even/odd pair) and some in the full hash modulo small bucket counts"""
    out = set()
    while len(out) < k:
        base = 'f' + ''.join(rng.choice('abcdefgh') for _ in range(rng.choice([1, 2, 5])))
        out.add(base + rng.choice('ab'))
        if rng.random() < 0.5:
            out.add(base + rng.choice('cd'))
    return sorted(out)


def one_case(rng):
    from specs import elf_writer as W
    from elftools.elf.elffile import ELFFile
    from elftools.elf.hash import GNUHashTable, ELFHashTable
    cls, le = rng.choice([32, 64]), rng.random() < 0.5
    names = [''] + colliding_names(rng, rng.choice([1, 3, 8, 20]))
    rng.shuffle(names)
    names.remove('')
    names = [''] + names
    symoffset = rng.randrange(1, len(names) + 1)
    nb = rng.choice([1, 1, 2, 3, 7])
    bsize, shift = rng.choice([1, 2, 4]), rng.choice([0, 5, 6, 26])
    perm = None
    if rng.random() < 0.5:
        perm = list(range(nb))
        rng.shuffle(perm)
    table, order = build_gnu(names, symoffset, nb, bsize, shift, cls, le, perm)
    head = W.write_elf(cls, le, [('.text', b'\x90' * 64, 0)])
    image = head + table
    ef = ELFFile(io.BytesIO(image))
    cfg = 'class=%d le=%s names=%r symoffset=%d nbuckets=%d bloom=(%d,%d)' % (cls, le, order, symoffset, nb, bsize, shift)
    t = GNUHashTable(ef, len(head), _StubSymtab(ef.stream, order, rng))
    hashed = order[symoffset:]
    want_n = len(order) if hashed else symoffset
    got_n = t.get_number_of_symbols()
    if got_n != want_n:
        return 'GNU hash: get_number_of_symbols() = %d, the table has %d' % (got_n, want_n), cfg
    queries = list(hashed)
    rng.shuffle(queries)
    for q in queries:
        s = t.get_symbol(q)
        if s is None or s.name != q:
            return 'GNU hash: get_symbol(%r) = %r, the name is present in the hashed part' % (q, s and s.name), cfg
    for q in order[1:symoffset] + ['absent_%d' % rng.randrange(99), 'fzz']:
        if q in hashed:
            continue
        s = t.get_symbol(q)
        if s is not None:
            return 'GNU hash: get_symbol(%r) = %r, the name is not in the hashed part' % (q, s.name), cfg
    # SysV
    nb2 = rng.choice([1, 2, 5, 13])
    tab2 = build_sysv(order, nb2, le)
    ef2 = ELFFile(io.BytesIO(head + tab2))
    t2 = ELFHashTable(ef2, len(head), _StubSymtab(ef2.stream, order, rng))
    if t2.get_number_of_symbols() != len(order):
        return 'SysV hash: get_number_of_symbols() = %d, the table has %d' % (t2.get_number_of_symbols(), len(order)), cfg
    for q in order[1:]:
        s = t2.get_symbol(q)
        if s is None or s.name != q:
            return 'SysV hash (nbuckets=%d): get_symbol(%r) = %r, the name is present' % (nb2, q, s and s.name), cfg
    if t2.get_symbol('absent_name') is not None:
        return 'SysV hash: an absent name was found', cfg
    return None


@task('c03-hash-differential', ['C03'], kind='bounded')
def hash_diff(tier, seed):
    rng = random.Random(seed * 29 + 3)
    n = 150 if tier == 'quick' else 6000
    bad = None
    for _ in range(n):
        try:
            r = one_case(rng)
        except Exception as e:
            import traceback
            r = ('raised %r (%s)' % (e, traceback.format_exc().splitlines()[-3].strip()), '')
        if r:
            bad = r
            break
    nat = bad and dict(confirmed=True, how='GNUHashTable / ELFHashTable over tables built from the specification', input=bad[1][:900],
                       observed=bad[0][:600], expected='present names found, absent names not, true symbol count')
    obs = [dict(name='bounded:elf/hash.py:lookup-and-count', kind='bounded', verdict='refuted' if bad else 'proved',
                backend='ground-eval(seeded differential, %d tables)' % n, time=0.0, bounded=True, detail=bad and bad[0][:600], native=nat)]
    return dict(obligations=obs, assumptions=['BOUNDED: 1-20 names with engineered collisions, nbuckets in {1,2,3,7}, bloom sizes 1-4, both classes '
                                              'and byte orders; the symbol table is a stub sharing the stream'],
                functions=[dict(function='elftools/elf/hash.py:GNUHashTable.get_symbol/_matches_bloom/get_number_of_symbols; ELFHashTable.get_symbol',
                                kind='bounded differential')], exhaustive=False)
