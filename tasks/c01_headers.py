"""C01 (bounded part): images encoded from the gABI (file header, section header table and program header table
placed anywhere, entry sizes equal to or larger than the standard structures, section-name string table) are read
through the real ELFFile: file-header fields, every section in file order (name and every header field), every
segment (every header field), and the agreement of lookups by name and by index with the enumeration -- on a fresh
object, after partial enumerations and repeatedly.  Complements the K1/K2 obligations of contracts/c01_headers.py
(which prove the addressing and the dispatch for all inputs but not the construction of the name map) and keeps
deciding when a function is rewritten in a form the engine rejects."""
import io
import random
import struct
from pyvc.run import task

SH_FIELDS = ('sh_name', 'sh_type', 'sh_flags', 'sh_addr', 'sh_offset', 'sh_size', 'sh_link', 'sh_info', 'sh_addralign', 'sh_entsize')
PH_FIELDS = ('p_type', 'p_offset', 'p_vaddr', 'p_paddr', 'p_filesz', 'p_memsz', 'p_flags', 'p_align')
SHT = {0: 'SHT_NULL', 1: 'SHT_PROGBITS', 8: 'SHT_NOBITS', 3: 'SHT_STRTAB', 0x12345: 0x12345}
PT = {0: 'PT_NULL', 1: 'PT_LOAD', 6: 'PT_PHDR', 0x6474e551: 'PT_GNU_STACK', 0x5123456: 0x5123456}


def gen(rng):
    cls, le = rng.choice([32, 64]), rng.random() < 0.5
    e = '<' if le else '>'
    ehsz, shstd, phstd = (64, 64, 56) if cls == 64 else (52, 40, 32)
    shentsize = shstd + rng.choice([0, 0, 8, 24])
    phentsize = phstd + rng.choice([0, 0, 8, 16])
    names = rng.sample(['.text', '.data', '.bss', '.rodata', '.comment', '.x', '.a_rather_long_section_name', '.déjà'], rng.choice([0, 1, 3, 6]))
    strtab = b'\x00'
    noff = {}
    for n in names + ['.shstrtab']:
        noff[n] = len(strtab)
        strtab += n.encode('utf-8') + b'\x00'
    nseg = rng.choice([0, 1, 3])
    segs = [dict(p_type=rng.choice(sorted(PT)), p_offset=rng.randrange(1 << 16), p_vaddr=rng.randrange(1 << 31), p_paddr=rng.randrange(1 << 31),
                 p_filesz=rng.randrange(1 << 12), p_memsz=rng.randrange(1 << 13), p_flags=rng.randrange(8), p_align=rng.choice([0, 1, 8, 0x1000]))
            for _ in range(nseg)]
    # layout: header | (pad) | program headers | section data | string table | (pad) | section headers   (or the tables swapped)
    pos = ehsz + rng.choice([0, 0, 4, 12])
    tables_first = rng.random() < 0.5
    secs = []
    body = b'\x00' * (pos - ehsz)
    phoff = 0
    if nseg and tables_first:
        phoff = pos
        body += b''.join(_ph(cls, e, s) + b'\xaa' * (phentsize - phstd) for s in segs)
        pos = ehsz + len(body)
    for n in names:
        typ = rng.choice([1, 1, 8, 3, 0x12345])
        data = bytes(rng.randrange(256) for _ in range(rng.choice([0, 1, 16, 100])))
        sh = dict(sh_name=noff[n], sh_type=typ, sh_flags=rng.choice([0, 2, 6, 0x30]), sh_addr=rng.randrange(1 << 31), sh_offset=pos,
                  sh_size=len(data) if typ != 8 else rng.randrange(1 << 16), sh_link=0, sh_info=rng.randrange(4), sh_addralign=rng.choice([0, 1, 4, 16]),
                  sh_entsize=rng.choice([0, 0, 8]))
        secs.append((n, sh))
        if typ != 8:
            body += data
            pos += len(data)
    str_sh = dict(sh_name=noff['.shstrtab'], sh_type=3, sh_flags=0, sh_addr=0, sh_offset=pos, sh_size=len(strtab), sh_link=0, sh_info=0,
                  sh_addralign=1, sh_entsize=0)
    body += strtab
    pos += len(strtab)
    if nseg and not tables_first:
        pad = rng.choice([0, 3])
        body += b'\x00' * pad
        phoff = pos + pad
        body += b''.join(_ph(cls, e, s) + b'\xaa' * (phentsize - phstd) for s in segs)
        pos = ehsz + len(body)
    pad = rng.choice([0, 1, 8])
    body += b'\x00' * pad
    shoff = pos + pad
    null = dict.fromkeys(SH_FIELDS, 0)
    allsecs = [('', null)] + secs + [('.shstrtab', str_sh)]
    tab = b''.join(_sh(cls, e, sh) + b'\xbb' * (shentsize - shstd) for _n, sh in allsecs)
    hdr = dict(e_type=rng.choice([1, 2, 3]), e_machine=rng.choice([3, 62, 40, 183, 8, 243]), e_version=1, e_entry=rng.randrange(1 << 31),
               e_phoff=phoff, e_shoff=shoff, e_flags=rng.randrange(1 << 16), e_ehsize=ehsz, e_phentsize=phentsize if nseg else 0,
               e_phnum=nseg, e_shentsize=shentsize, e_shnum=len(allsecs), e_shstrndx=len(allsecs) - 1)
    ident = b'\x7fELF' + bytes([1 if cls == 32 else 2, 1 if le else 2, 1, 0]) + b'\x00' * 8
    fmt = 'HHIQQQIHHHHHH' if cls == 64 else 'HHIIIIIHHHHHH'
    img = ident + struct.pack(e + fmt, *[hdr[k] for k in ('e_type', 'e_machine', 'e_version', 'e_entry', 'e_phoff', 'e_shoff', 'e_flags', 'e_ehsize',
                                                          'e_phentsize', 'e_phnum', 'e_shentsize', 'e_shnum', 'e_shstrndx')]) + body + tab
    return img, cls, le, hdr, allsecs, segs


def _sh(cls, e, h):
    v = [h[k] for k in SH_FIELDS]
    return struct.pack(e + ('IIQQQQIIQQ' if cls == 64 else 'IIIIIIIIII'), *v)


def _ph(cls, e, s):
    if cls == 64:
        return struct.pack(e + 'IIQQQQQQ', s['p_type'], s['p_flags'], s['p_offset'], s['p_vaddr'], s['p_paddr'], s['p_filesz'], s['p_memsz'], s['p_align'])
    return struct.pack(e + 'IIIIIIII', s['p_type'], s['p_offset'], s['p_vaddr'], s['p_paddr'], s['p_filesz'], s['p_memsz'], s['p_flags'], s['p_align'])


def one_case(rng):
    from elftools.elf.elffile import ELFFile
    img, cls, le, hdr, allsecs, segs = gen(rng)
    cfg = 'class %d le=%s e_shentsize=%d e_phentsize=%d sections=%r segments=%d' % (
        cls, le, hdr['e_shentsize'], hdr['e_phentsize'], [n for n, _ in allsecs], len(segs))

    def fail(m):
        return m, cfg, img.hex()
    ef = ELFFile(io.BytesIO(img))
    if ef.elfclass != cls or ef.little_endian != le:
        return fail('class / byte order reported as %r / %r' % (ef.elfclass, ef.little_endian))
    for k, v in hdr.items():
        got = ef.header[k]
        if k in ('e_type', 'e_machine', 'e_version'):
            continue                       # named codes: the constant tables are C17's subject
        if got != v:
            return fail('file header %s = %r, encoded %r' % (k, got, v))
    history = rng.choice(['fresh', 'partial', 'byname-first'])
    if history == 'partial':
        it = ef.iter_sections()
        for _ in range(rng.randrange(0, 3)):
            next(it, None)
    if history == 'byname-first' and len(allsecs) > 2:
        ef.get_section_by_name(allsecs[-2][0])
    if ef.num_sections() != len(allsecs) or ef.num_segments() != len(segs):
        return fail('num_sections / num_segments = %d / %d, encoded %d / %d' % (ef.num_sections(), ef.num_segments(), len(allsecs), len(segs)))
    got = [(s.name, {k: s[k] for k in SH_FIELDS}) for s in ef.iter_sections()]
    want = [(n, dict(h, sh_type=SHT[h['sh_type']])) for n, h in allsecs]
    if got != want:
        i = next((k for k, (a, b) in enumerate(zip(got, want)) if a != b), min(len(got), len(want)))
        return fail('section %d enumerates as %r, encoded %r' % (i, got[i] if i < len(got) else None, want[i] if i < len(want) else None))
    order = list(range(len(allsecs)))
    rng.shuffle(order)
    for i in order:
        n, h = want[i]
        s = ef.get_section(i)
        if (s.name, {k: s[k] for k in SH_FIELDS}) != (n, h):
            return fail('get_section(%d) differs from the enumeration' % i)
        if i:              # the names are distinct and non-empty except the null section's
            s2 = ef.get_section_by_name(n)
            if s2 is None or s2['sh_offset'] != h['sh_offset'] or s2['sh_name'] != h['sh_name'] or ef.get_section_index(n) != i or not ef.has_section(n):
                return fail('lookup of %r: section %r index %r has_section %r; the enumeration has it at index %d' % (
                    n, s2 and (s2.name, s2['sh_offset']), ef.get_section_index(n), ef.has_section(n), i))
    if ef.get_section_by_name('.no_such_section') is not None or ef.has_section('.no_such_section'):
        return fail('an absent name is found')
    gotp = [{k: s[k] for k in PH_FIELDS} for s in ef.iter_segments()]
    wantp = [dict(s, p_type=PT[s['p_type']]) for s in segs]
    if gotp != wantp or [{k: ef.get_segment(i)[k] for k in PH_FIELDS} for i in range(len(segs))] != wantp:
        return fail('segments %r, encoded %r' % (gotp[:3], wantp[:3]))
    return None


# processor-specific codes 0x70000000 / 0x70000001 by machine (glibc elf.h; ARM EHABI): the name depends on e_machine of the
# file the object was opened on -- also when another file of the same class and byte order is open at the same time
MACH = {40: ({0x70000001: 'SHT_ARM_EXIDX'}, {0x70000001: 'PT_ARM_EXIDX'}),
        8: ({0x70000006: 'SHT_MIPS_REGINFO', 0x7000002a: 'SHT_MIPS_ABIFLAGS'}, {0x70000003: 'PT_MIPS_ABIFLAGS'}),
        3: ({0x70000001: 0x70000001}, {0x70000001: 0x70000001})}


def _mach_image(cls, le, machine, shts, pts):
    e = '<' if le else '>'
    ehsz, shstd, phstd = (64, 64, 56) if cls == 64 else (52, 40, 32)
    strtab = b'\x00.a\x00.shstrtab\x00'
    phoff = ehsz
    body = b''.join(_ph(cls, e, dict(p_type=t, p_offset=0, p_vaddr=0, p_paddr=0, p_filesz=0, p_memsz=0, p_flags=4, p_align=1)) for t in pts)
    stroff = ehsz + len(body)
    body += strtab
    shoff = ehsz + len(body)
    null = dict.fromkeys(SH_FIELDS, 0)
    secs = [null] + [dict(null, sh_name=1, sh_type=t, sh_offset=stroff, sh_size=0) for t in shts] + \
        [dict(null, sh_name=4, sh_type=3, sh_offset=stroff, sh_size=len(strtab), sh_addralign=1)]
    tab = b''.join(_sh(cls, e, h) for h in secs)
    ident = b'\x7fELF' + bytes([1 if cls == 32 else 2, 1 if le else 2, 1, 0]) + b'\x00' * 8
    fmt = 'HHIQQQIHHHHHH' if cls == 64 else 'HHIIIIIHHHHHH'
    return ident + struct.pack(e + fmt, 2, machine, 1, 0, phoff, shoff, 0, ehsz, phstd, len(pts), shstd, len(secs), len(secs) - 1) + body + tab


def two_files(rng):
    """two files of the same class and byte order but different machines, open at the same time, read alternately"""
    from elftools.elf.elffile import ELFFile
    cls, le = rng.choice([32, 64]), rng.random() < 0.5
    ma, mb = rng.sample(sorted(MACH), 2)
    imgs, objs, wants = {}, {}, {}
    for m in (ma, mb):
        shts, pts = sorted(MACH[m][0]), sorted(MACH[m][1])
        imgs[m] = _mach_image(cls, le, m, shts, pts)
        wants[m] = ([MACH[m][0][t] for t in shts], [MACH[m][1][t] for t in pts])
    cfg = 'class %d le=%s machines %d then %d, both open' % (cls, le, ma, mb)
    for m in (ma, mb):
        objs[m] = ELFFile(io.BytesIO(imgs[m]))
    for m in rng.choice([(ma, mb), (mb, ma), (ma, mb, ma)]):
        got = ([s['sh_type'] for s in objs[m].iter_sections()][1:-1], [s['p_type'] for s in objs[m].iter_segments()])
        if got != wants[m]:
            return ('e_machine %d read while a file of e_machine %d is open: section / segment types %r, encoded %r' % (
                m, mb if m == ma else ma, got, wants[m]), cfg, imgs[m].hex())
    return None


@task('c01-headers-differential', ['C01'], kind='bounded')
def headers(tier, seed):
    rng = random.Random(seed + 101)
    n = 150 if tier == 'quick' else 6000
    bad = None
    for _ in range(n):
        try:
            r = one_case(rng) or (two_files(rng) if _ % 5 == 0 else None)
        except Exception as e:
            import traceback
            r = ('real code raised %r (%s)' % (e, traceback.format_exc().splitlines()[-3].strip()), '', '')
        if r:
            bad = dict(confirmed=True, how='ELFFile on an image encoded from the gABI', input=r[2][:3000], configuration=r[1][:1200],
                       observed=r[0][:800], expected='as encoded')
            break
    obs = [dict(name='bounded:elf/elffile.py:headers, enumeration and lookups', kind='bounded', verdict='refuted' if bad else 'proved',
                backend='ground-eval(seeded differential, %d images)' % n, time=0.0, bounded=True, detail=bad and bad['observed'], native=bad)]
    return dict(obligations=obs, assumptions=[
        'BOUNDED: 2-8 sections with distinct names of plain types, 0-3 segments, entry sizes up to 24 bytes above the standard; extended '
        'numbering, specialised section kinds and the named code tables are the K1 / K2 / C17 obligations; every fifth case also opens two '
        'files of one class and byte order and different machines (ARM, MIPS, i386) at once and reads their processor-specific codes alternately'],
        functions=[dict(function='elftools/elf/elffile.py:ELFFile (header, enumeration, lookups by name and index, name map construction)',
                        kind='bounded differential')], exhaustive=False)
