"""C07 (bounded part): location / range list sections encoded from the specification
(specs/lists_spec.py) are read through DWARFInfo.range_lists() / location_lists(): lists fetched by
section offset and by index (through the root entry's DW_FORM_rnglistx / loclistx attribute and the
unit's offset table), the unit blocks of the v5 sections and the raw lists of each block are compared
with the encoder's data, entry by entry (kind, begin/end or base address with indexed addresses
resolved, expression bytes, entry offset and length).  Complements the K1 contracts, which prove the
list walks and translators for all inputs but assume the entry parse of the root DIE and do not cover
iter_range_lists / iter_location_lists / iter_CUs of the list classes."""
import io
import random
from pyvc.run import task
from tasks.c04_dies import _dwarfinfo


def view(entry):
    n = type(entry).__name__
    if n == 'BaseAddressEntry':
        return dict(kind='base', entry_offset=entry.entry_offset, entry_length=getattr(entry, 'entry_length', None),
                    vals=(entry.base_address,), expr=None)
    d = dict(kind='range', entry_offset=entry.entry_offset, entry_length=entry.entry_length,
             vals=(entry.begin_offset, entry.end_offset, bool(entry.is_absolute)), expr=None)
    if n == 'LocationEntry':
        d['expr'] = list(entry.loc_expr)
    return d


def same_list(got, want, loc, v5, where):
    g = [view(e) for e in got]
    w = [dict(x) for x in want]
    for x in w:
        if not loc:
            x['expr'] = None
        if x['kind'] == 'base' and not loc:
            x['entry_length'] = None       # ranges.BaseAddressEntry has no entry_length
    for a in g:
        if a['kind'] == 'base' and not loc:
            a['entry_length'] = None
    if g != w:
        i = next((k for k, (a, b) in enumerate(zip(g, w)) if a != b), min(len(g), len(w)))
        return '%s: entry %d is %r, encoded %r (%d vs %d entries)' % (where, i, g[i] if i < len(g) else None, w[i] if i < len(w) else None,
                                                                     len(g), len(w))
    return None


def one_case(rng):
    from specs import lists_spec as L
    le = rng.random() < 0.5
    secs, units, asz = L.gen_case(rng, le)
    cfgtxt = 'le=%s asz=%d units=%r' % (le, asz, [(u['version'], u['cfg'].fmt) for u in units])
    inp = ' '.join('%s=%s' % (k, v.hex()[:400]) for k, v in secs.items() if v)
    dw = _dwarfinfo(secs, le, asz)
    rl, ll = dw.range_lists(), dw.location_lists()
    cus = list(dw.iter_CUs())
    if len(cus) != len(units):
        return 'iter_CUs yields %d units, encoded %d' % (len(cus), len(units)), cfgtxt, inp
    order = list(range(len(units)))
    rng.shuffle(order)            # query order is arbitrary
    for k in order:
        cu, u = cus[k], units[k]
        top = cu.get_top_DIE()
        if u['version'] >= 5:
            for (off, exp, _raw) in u['rng']['lists']:
                r = same_list(rl.get_range_list_at_offset(off, cu), exp, False, True, 'range list at %d (unit %d)' % (off, k))
                if r:
                    return r, cfgtxt, inp
            for (off, exp, _raw) in u['loc']['lists']:
                r = same_list(ll.get_location_list_at_offset(off, top), exp, True, True, 'location list at %d (unit %d)' % (off, k))
                if r:
                    return r, cfgtxt, inp
            if 'ranges_index' in u:
                want_off = u['rng']['base'] + u['rng']['offsets'][u['ranges_index']]
                a = top.attributes['DW_AT_ranges']
                if a.value != want_off or a.raw_value != u['ranges_index']:
                    return 'unit %d: DW_AT_ranges rnglistx %d resolves to %r, the offset table designates %d' % (
                        k, u['ranges_index'], a.value, want_off), cfgtxt, inp
                exp = next(x for o, x, _ in u['rng']['lists'] if o == want_off)
                r = same_list(rl.get_range_list_at_offset(a.value, cu), exp, False, True, 'range list by index (unit %d)' % k)
                if r:
                    return r, cfgtxt, inp
            if 'loc_index' in u:
                want_off = u['loc']['base'] + u['loc']['offsets'][u['loc_index']]
                a = top.attributes['DW_AT_location']
                if a.value != want_off:
                    return 'unit %d: DW_AT_location loclistx %d resolves to %r, the offset table designates %d' % (
                        k, u['loc_index'], a.value, want_off), cfgtxt, inp
                from elftools.dwarf.locationlists import LocationParser
                lp = LocationParser(ll)
                if not lp.attribute_has_location(a, 5):
                    return 'unit %d: loclistx attribute is not classified as location' % k, cfgtxt, inp
                exp = next(x for o, x, _ in u['loc']['lists'] if o == want_off)
                r = same_list(lp.parse_from_attribute(a, 5, top), exp, True, True, 'location list by index (unit %d)' % k)
                if r:
                    return r, cfgtxt, inp
        else:
            for (off, exp) in u['rng4']:
                r = same_list(rl.get_range_list_at_offset(off, cu), exp, False, False, 'pre-v5 range list at %d' % off)
                if r:
                    return r, cfgtxt, inp
            for (off, exp) in u['loc4']:
                r = same_list(ll.get_location_list_at_offset(off, top), exp, True, False, 'pre-v5 location list at %d' % off)
                if r:
                    return r, cfgtxt, inp
    # unit blocks of the v5 sections and the raw lists of each block
    v5 = [u for u in units if u['version'] >= 5]
    if v5:
        for name, lists_obj, key in (('rnglists', rl, 'rng'), ('loclists', ll, 'loc')):
            if type(lists_obj).__name__ == 'LocationListsPair':
                continue          # documented: unit iteration is not offered when both location sections exist
            blocks = list(lists_obj.iter_CUs())
            if len(blocks) != len(v5):
                return '%s.iter_CUs yields %d unit blocks, encoded %d' % (name, len(blocks), len(v5)), cfgtxt, inp
            for b, u in zip(blocks, v5):
                x = u[key]
                if (b.cu_offset, b.unit_length, b.offset_count) != (x['block_offset'], x['unit_length'], x['offset_count']):
                    return '%s block at %d: (offset, length, offset_count) = %r, encoded %r' % (
                        name, x['block_offset'], (b.cu_offset, b.unit_length, b.offset_count),
                        (x['block_offset'], x['unit_length'], x['offset_count'])), cfgtxt, inp
                offs = list(b.offsets) if b.offsets else []
                if offs != x['offsets']:
                    return '%s block at %d: offset table %r, encoded %r' % (name, x['block_offset'], offs, x['offsets']), cfgtxt, inp
                if key == 'rng':
                    rawlists = list(lists_obj.iter_CU_range_lists_ex(b))
                    got = [[e.entry_type for e in l] for l in rawlists]
                    want = [raw for (_o, _e, raw) in x['lists']]
                    if got != want:
                        return 'rnglists block at %d: raw lists %r, encoded %r' % (x['block_offset'], got, want), cfgtxt, inp
    return None


@task('c07-lists-differential', ['C07'], kind='bounded')
def lists(tier, seed):
    rng = random.Random(seed * 101 + 7)
    n = 60 if tier == 'quick' else 3000
    bad = None
    for _ in range(n):
        try:
            r = one_case(rng)
        except Exception as e:
            import traceback
            r = ('real parser raised %r (%s)' % (e, ' | '.join(x.strip() for x in traceback.format_exc().splitlines()[-4:-1])), '', '')
        if r:
            bad = r
            break
    nat = bad and dict(confirmed=True, how='DWARFInfo.range_lists()/location_lists() on sections encoded from the specification',
                       input=bad[2][:1500], configuration=bad[1], observed=bad[0][:700],
                       expected='exactly the encoded entries, offsets and unit blocks')
    obs = [dict(name='bounded:dwarf/ranges.py+locationlists.py+dwarfinfo.py:lists', kind='bounded', verdict='refuted' if bad else 'proved',
                backend='ground-eval(seeded differential, %d sections)' % n, time=0.0, bounded=True, detail=bad and bad[0][:700], native=nat)]
    return dict(obligations=obs, assumptions=[
        'BOUNDED: 1-3 units (v4/v5, 32/64-bit format) per file with one address size, lists of 0-7 entries over every DW_RLE/DW_LLE '
        'kind, offset tables with 0-3 entries; location view pairs and iter_range_lists/iter_location_lists are not exercised'],
        functions=[dict(function='elftools/dwarf/dwarfinfo.py:range_lists/location_lists/get_addr; ranges.py; locationlists.py; '
                                 'dwarf_util.py (end to end)', kind='bounded differential')], exhaustive=False)
