"""C07 (bounded part): enumeration of the lists of a section.  A version 5 (or version 4) unit whose entries
designate location and range lists by section offset (DW_FORM_sec_offset) is encoded together with
.debug_loclists / .debug_rnglists (.debug_loc / .debug_ranges) in which the designated lists are separated
by gaps (padding, lists no entry refers to), followed by a trailing gap, spread over several unit blocks,
some of which hold no designated list at all.  LocationLists.iter_location_lists and
RangeLists.iter_range_lists must visit exactly the designated lists, in offset order, each decoded to its
encoded entries.  Lists use the non-indexed entry kinds (the indexed kinds and the by-index path are covered
by tasks/c07_lists.py)."""
import random
from pyvc.run import task
from tasks.c04_dies import _dwarfinfo
from tasks.c07_lists import same_list


def gen(rng, le, fmt, asz, version):
    from specs import lists_spec as L
    from specs.die_spec import uleb, Cfg
    cfg = Cfg(le, fmt, asz, version)
    addrs = [0x1000]        # not used: only non-indexed kinds are kept below
    secs = {}
    want = {}
    for loc in (True, False):
        data, designated = b'', []
        if version >= 5:
            nblocks = rng.choice([1, 2, 3])
            for b in range(nblocks):
                il = 4 if fmt == 32 else 12
                start = len(data)
                body = b''
                nlists = rng.choice([0, 1, 2, 3])
                for _ in range(nlists):
                    body += bytes(rng.choice([0, 0, 1, 3]))                       # a gap before the list
                    while True:
                        lb, exp, raw = L.gen_v5_list(rng, cfg, addrs, loc, start + il + 8 + len(body))
                        if not any('x' in k.split('_', 2)[2] for k in raw):           # drop base_addressx / startx_* kinds
                            break
                    if loc and rng.random() < 0.3:
                        # GNU location views: one (begin, end) ULEB128 pair per location entry, placed right before the list and
                        # designated by DW_AT_GNU_locviews of the entry whose DW_AT_location designates the list
                        nv = sum(1 for x in exp if x['kind'] == 'range')
                        vo = start + il + 8 + len(body)
                        pairs = [(rng.randrange(0, 100), rng.randrange(0, 100)) for _ in range(nv)]
                        body += b''.join(bytes([a, b]) for a, b in pairs)
                        # the list moved behind the pairs: shift its entry offsets
                        exp = [dict(x, entry_offset=x['entry_offset'] + 2 * nv) for x in exp]
                        designated.append((vo, exp, [(vo + 2 * i, a, b) for i, (a, b) in enumerate(pairs)]))
                    elif rng.random() < 0.75:
                        designated.append((start + il + 8 + len(body), exp))
                    body += lb
                body += bytes(rng.choice([0, 0, 2, 4]))                           # a gap after the last list of the block
                rest = cfg.u(5, 2) + bytes([asz, 0]) + cfg.u(0, 4) + body
                data += cfg.initial_length(len(rest)) + rest
        else:
            for _ in range(rng.choice([1, 2, 4])):
                data += bytes(rng.choice([0, 0, 3]))
                lb, exp = L.gen_v4_list(rng, cfg, loc, len(data))
                if rng.random() < 0.75:
                    designated.append((len(data), exp))
                data += lb
        secs[('debug_loclists' if version >= 5 else 'debug_loc') if loc else ('debug_rnglists' if version >= 5 else 'debug_ranges')] = data
        want[loc] = designated
    # .debug_info: root entry with one child per designated list, in shuffled order
    plain_loc = [d for d in want[True] if len(d) == 2]
    viewed = [d for d in want[True] if len(d) == 3]
    # an entry with location views also carries a further list-valued attribute (DW_AT_frame_base) designating another list
    extra_for = {}
    for d in viewed:
        if plain_loc:
            extra_for[d[0]] = plain_loc.pop()[0]
    refs = [(True, d[0]) for d in plain_loc] + [(False, o) for o, _ in want[False]] + [('views', d[0]) for d in viewed]
    rng.shuffle(refs)
    form = 0x17 if version >= 4 else (0x06 if fmt == 32 else 0x07)          # sec_offset; data4 / data8 before version 4
    abbrev = uleb(1) + uleb(0x11) + b'\x01\x00\x00' + uleb(2) + uleb(0x34) + b'\x00' + uleb(0x02) + uleb(form) + b'\x00\x00' + \
        uleb(3) + uleb(0x0b) + b'\x00' + uleb(0x55) + uleb(form) + b'\x00\x00' + \
        uleb(4) + uleb(0x34) + b'\x00' + uleb(0x2137) + uleb(form) + uleb(0x02) + uleb(form) + uleb(0x40) + uleb(form) + b'\x00\x00' + \
        uleb(5) + uleb(0x34) + b'\x00' + uleb(0x2137) + uleb(form) + uleb(0x02) + uleb(form) + b'\x00\x00' + b'\x00'

    def die(kind, o):
        if kind == 'views':
            d = next(x for x in viewed if x[0] == o)
            list_off = o + 2 * len(d[2])
            if o in extra_for:
                return uleb(4) + cfg.off(o) + cfg.off(list_off) + cfg.off(extra_for[o])
            return uleb(5) + cfg.off(o) + cfg.off(list_off)
        return (uleb(2) if kind else uleb(3)) + cfg.off(o)
    dies = uleb(1) + b''.join(die(k, o) for k, o in refs) + b'\x00'
    if version >= 5:
        hdr = cfg.u(5, 2) + bytes([1, asz]) + cfg.off(0)
    else:
        hdr = cfg.u(version, 2) + cfg.off(0) + bytes([asz])
    secs['debug_info'] = cfg.initial_length(len(hdr) + len(dies)) + hdr + dies
    secs['debug_abbrev'] = abbrev
    return secs, want


def one_case(rng):
    le, fmt, asz = rng.random() < 0.5, rng.choice([32, 64]), rng.choice([4, 8])
    version = rng.choice([5, 5, 4, 3])
    secs, want = gen(rng, le, fmt, asz, version)
    cfg = 'le=%s format=%d address_size=%d version=%d designated location lists at %r, range lists at %r' % (
        le, fmt, asz, version, [d[0] for d in want[True]], [d[0] for d in want[False]])
    inp = ' '.join('%s=%s' % (k, v.hex()[:600]) for k, v in secs.items())
    dw = _dwarfinfo(secs, le, asz)
    for loc, obj, meth in ((True, dw.location_lists(), 'iter_location_lists'), (False, dw.range_lists(), 'iter_range_lists')):
        exp = sorted(want[loc], key=lambda t: t[0])
        # a list designated twice is enumerated once (the enumeration is by distinct offset)
        if obj is None:
            if exp:
                return 'no list object although lists are designated', cfg, inp
            continue
        got = list(getattr(obj, meth)())
        if len(got) != len(exp):
            return '%s yields %d lists, %d are designated' % (meth, len(got), len(exp)), cfg, inp
        for g, d in zip(got, exp):
            o, x = d[0], d[1]
            views = d[2] if len(d) == 3 else []
            gv = [(p.entry_offset, p.begin, p.end) for p in g[:len(views)] if type(p).__name__ == 'LocationViewPair']
            if gv != views:
                return '%s: the list at %d comes with the view pairs %r, encoded %r' % (meth, o, gv, views), cfg, inp
            r = same_list(g[len(views):], x, loc, version >= 5, '%s: list at %d' % (meth, o))
            if r:
                return r, cfg, inp
    return None


@task('c07-enumeration-differential', ['C07'], kind='bounded')
def enum(tier, seed):
    rng = random.Random(seed * 31 + 77)
    n = 150 if tier == 'quick' else 5000
    bad = None
    for _ in range(n):
        try:
            r = one_case(rng)
        except Exception as e:
            import traceback
            r = ('real parser raised %r (%s)' % (e, ' | '.join(x.strip() for x in traceback.format_exc().splitlines()[-4:-1])), '', '')
        if r:
            bad = dict(confirmed=True, how='LocationLists.iter_location_lists / RangeLists.iter_range_lists on sections encoded from the '
                       'specification', input=r[2][:2500], configuration=r[1][:800], observed=r[0][:700],
                       expected='exactly the designated lists, in offset order')
            break
    obs = [dict(name='bounded:dwarf/locationlists.py+ranges.py:enumeration', kind='bounded', verdict='refuted' if bad else 'proved',
                backend='ground-eval(seeded differential, %d sections)' % n, time=0.0, bounded=True, detail=bad and bad['observed'], native=bad)]
    return dict(obligations=obs, assumptions=[
        'BOUNDED: one unit, 0-9 designated lists, 1-3 unit blocks, gaps of 0-4 bytes; GNU location view pairs on some version 5 lists, whose entries carry a further list-valued attribute'],
        functions=[dict(function='elftools/dwarf/locationlists.py:LocationLists.iter_location_lists; ranges.py:RangeLists.iter_range_lists',
                        kind='bounded differential')], exhaustive=False)
