"""C03 (bounded part): images with a static and a dynamic symbol table (gABI 4.1 symbol entries of both classes, linked
string tables) whose symbols include repeated names, empty names (the null symbol, section symbols) and non-ASCII names are
read through the real SymbolTableSection: every entry in index order (name, value, size, binding, type, visibility,
section index) and lookup by name -- exactly the symbols bearing that name, in index order, nothing for an absent name;
on a fresh object and after the enumeration.  Complements the K1/K2 obligations (addressing, names, hash functions and
lookups through hash sections for all inputs; the construction of the name map is not under contract)."""
import io
import random
import struct
from pyvc.run import task
from tasks._img import sections_image

BIND = {0: 'STB_LOCAL', 1: 'STB_GLOBAL', 2: 'STB_WEAK'}
TYPE = {0: 'STT_NOTYPE', 1: 'STT_OBJECT', 2: 'STT_FUNC', 3: 'STT_SECTION', 4: 'STT_FILE'}
VIS = {0: 'STV_DEFAULT', 1: 'STV_INTERNAL', 2: 'STV_HIDDEN', 3: 'STV_PROTECTED'}
SHN = {0: 'SHN_UNDEF', 0xfff1: 'SHN_ABS', 0xfff2: 'SHN_COMMON'}


def gen_table(rng, cls, le):
    e = '<' if le else '>'
    pool = ['main', 'foo', 'foo', 'bar', '', '', 'été', 'a_rather_long_symbol_name_for_testing', 'x']
    names = [''] + [rng.choice(pool) for _ in range(rng.choice([0, 1, 3, 6, 12]))]
    # a string table need not be free of duplicates: a name may be stored twice, may be the tail of a longer string (tail
    # merging by link editors), and the empty name is any NUL byte; each symbol uses any of the offsets that spell its name
    strtab = b'\x00'
    offs = {'': [0]}
    for n in dict.fromkeys(names):
        if n:
            for _rep in range(rng.choice([1, 1, 2])):
                if rng.random() < 0.3:
                    strtab += b'pre_'
                offs.setdefault(n, []).append(len(strtab))
                strtab += n.encode('utf-8') + b'\x00'
                offs[''].append(len(strtab) - 1)

    class _Pick(dict):
        def __getitem__(self, n):
            return rng.choice(offs[n])
    off = _Pick()
    syms, exp = b'', []
    for i, n in enumerate(names):
        b_, t_, v_ = (rng.choice(sorted(BIND)), rng.choice(sorted(TYPE)), rng.choice(sorted(VIS))) if i else (0, 0, 0)
        shndx = rng.choice([0, 1, 2, 0xfff1, 0xfff2]) if i else 0
        value, size = (rng.randrange(1 << 31), rng.randrange(1 << 16)) if i else (0, 0)
        info, other = b_ << 4 | t_, v_
        if cls == 64:
            syms += struct.pack(e + 'IBBHQQ', off[n], info, other, shndx, value, size)
        else:
            syms += struct.pack(e + 'IIIBBH', off[n], value, size, info, other, shndx)
        exp.append(dict(name=n, st_value=value, st_size=size, bind=BIND[b_], type=TYPE[t_], visibility=VIS[v_], st_shndx=SHN.get(shndx, shndx)))
    return strtab, syms, exp


def one_case(rng):
    from elftools.elf.elffile import ELFFile
    cls, le = rng.choice([32, 64]), rng.random() < 0.5
    st1, sy1, x1 = gen_table(rng, cls, le)
    st2, sy2, x2 = gen_table(rng, cls, le)
    ent = 24 if cls == 64 else 16
    img, _ = sections_image(cls, le, [dict(name='.text', type=1, data=b'\x90' * 8), dict(name='.data', type=1, data=b'\x00' * 8),
                                      dict(name='.strtab', type=3, data=st1), dict(name='.symtab', type=2, data=sy1, link=3, info=1, entsize=ent, align=8),
                                      dict(name='.dynstr', type=3, data=st2), dict(name='.dynsym', type=11, data=sy2, link=5, info=1, entsize=ent, align=8)], etype=3)
    cfg = 'class %d le=%s .symtab names %r .dynsym names %r' % (cls, le, [x['name'] for x in x1], [x['name'] for x in x2])

    def view(s):
        return dict(name=s.name, st_value=s['st_value'], st_size=s['st_size'], bind=s['st_info']['bind'], type=s['st_info']['type'],
                    visibility=s['st_other']['visibility'], st_shndx=s['st_shndx'])
    for secname, exp in (('.symtab', x1), ('.dynsym', x2)):
        for history in ('fresh', 'after enumeration'):
            tab = ELFFile(io.BytesIO(img)).get_section_by_name(secname)
            if history != 'fresh':
                got = [view(s) for s in tab.iter_symbols()]
                if got != exp or tab.num_symbols() != len(exp) or [view(tab.get_symbol(i)) for i in range(len(exp))] != exp:
                    i = next((k for k, (a, b) in enumerate(zip(got, exp)) if a != b), min(len(got), len(exp)))
                    return ('%s: symbol %d enumerates as %r, encoded %r (%d vs %d)' % (
                        secname, i, got[i] if i < len(got) else None, exp[i] if i < len(exp) else None, len(got), len(exp)), cfg, img.hex())
            qs = list(dict.fromkeys(x['name'] for x in exp)) + ['no_such_symbol']
            rng.shuffle(qs)
            for q in qs + qs[:2]:
                want = [x for x in exp if x['name'] == q]
                r = tab.get_symbol_by_name(q)
                got = None if r is None else [view(s) for s in r]
                if got != (want or None):
                    return ('%s (%s): get_symbol_by_name(%r) gives %r; the table holds that name %d times: %r' % (
                        secname, history, q, got and [(g['name'], hex(g['st_value'])) for g in got], len(want),
                        [(w['name'], hex(w['st_value'])) for w in want]), cfg, img.hex())
    return None


@task('c03-symbols-differential', ['C03'], kind='bounded')
def symbols(tier, seed):
    rng = random.Random(seed + 303)
    n = 150 if tier == 'quick' else 6000
    bad = None
    for _ in range(n):
        try:
            r = one_case(rng)
        except Exception as e:
            import traceback
            r = ('real code raised %r (%s)' % (e, traceback.format_exc().splitlines()[-3].strip()), '', '')
        if r:
            bad = dict(confirmed=True, how='SymbolTableSection on an image with generated symbol tables', input=r[2][:3000],
                       configuration=r[1][:1000], observed=r[0][:800], expected='as encoded')
            break
    obs = [dict(name='bounded:elf/sections.py:symbol tables and lookup by name', kind='bounded', verdict='refuted' if bad else 'proved',
                backend='ground-eval(seeded differential, %d images)' % n, time=0.0, bounded=True, detail=bad and bad['observed'], native=bad)]
    return dict(obligations=obs, assumptions=['BOUNDED: tables of 1-13 symbols; extended section indices and the Solaris tables are K1/K2 only'],
                functions=[dict(function='elftools/elf/sections.py:SymbolTableSection (enumeration, get_symbol, get_symbol_by_name incl. the name map)',
                                kind='bounded differential')], exhaustive=False)
