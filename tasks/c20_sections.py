"""C20 (bounded part): (a) build-attribute sections encoded from the ARM / RISC-V ABI addenda (format 'A';
vendor subsections = 4-byte length + NTBS vendor; sub-subsections = scope tag byte, 4-byte size, for section /
symbol scope a ULEB128 number list ended by 0, then (tag, value) attributes with ULEB128 or NTBS values by tag
kind) are read through the real AttributesSection classes and compared subsection by subsection;
(b) .ARM.exidx / .ARM.extab pairs encoded from the EHABI (8-byte index entries: prel31 function offset, then
1 = cannot unwind, an inline compact entry, or a prel31 to a table entry: generic personality or compact model
0/1/2 with N extra words) are read through the real EHABIInfo, every index entry in several orders, with table
entries shared between index entries.  Complements the K1 contracts of contracts/c20_*.py and keeps deciding
when a function is rewritten in a form the engine rejects."""
import io
import random
import struct
from pyvc.run import task
from tasks._img import sections_image

ARM_ULEB = {6: 'TAG_CPU_ARCH', 7: 'TAG_CPU_ARCH_PROFILE', 8: 'TAG_ARM_ISA_USE', 9: 'TAG_THUMB_ISA_USE', 10: 'TAG_FP_ARCH',
            24: 'TAG_ABI_ALIGN_NEEDED', 44: 'TAG_DIV_USE'}
ARM_NTBS = {4: 'TAG_CPU_RAW_NAME', 5: 'TAG_CPU_NAME', 67: 'TAG_CONFORMANCE'}
RV_ULEB = {4: 'TAG_STACK_ALIGN', 6: 'TAG_UNALIGNED_ACCESS', 8: 'TAG_PRIV_SPEC', 10: 'TAG_PRIV_SPEC_MINOR'}
RV_NTBS = {5: 'TAG_ARCH'}
SCOPE = {1: 'TAG_FILE', 2: 'TAG_SECTION', 3: 'TAG_SYMBOL'}


def uleb(v):
    out = bytearray()
    while True:
        b = v & 0x7f
        v >>= 7
        if v:
            out.append(b | 0x80)
        else:
            out.append(b)
            return bytes(out)


def gen_attr_section(rng, le, arm):
    e = '<' if le else '>'
    U, N = (ARM_ULEB, ARM_NTBS) if arm else (RV_ULEB, RV_NTBS)
    data, exp = b'A', []
    for _ in range(rng.choice([1, 1, 2, 3])):
        vendor = rng.choice(['aeabi' if arm else 'riscv', 'gnu', 'v'])
        subs = b''
        for _k in range(rng.choice([1, 2, 3])):
            scope = rng.choice([1, 1, 2, 3])
            nums = [rng.choice([1, 7, 127, 128, 300, 16384]) for _ in range(rng.choice([0, 1, 3]))] if scope != 1 else None
            numb = b'' if nums is None else b''.join(uleb(x) for x in nums) + b'\x00'
            attrs, aexp = b'', []
            for _a in range(rng.choice([0, 1, 2, 5])):
                if rng.random() < 0.3:
                    t = rng.choice(sorted(N))
                    s = rng.choice(['', 'Cortex-A8', 'rv64imafdc_zicsr', '2.09'])
                    attrs += uleb(t) + s.encode() + b'\x00'
                    aexp.append((N[t], s, None))
                elif arm and rng.random() < 0.2:
                    # Tag_also_compatible_with (65): an NTBS-framed nested (tag, value) pair: a ULEB128 value is followed by the
                    # terminating NUL, a string value is its own terminator
                    if rng.random() < 0.5:
                        t, v = rng.choice(sorted(U)), rng.choice([0, 1, 127, 128, 300])
                        attrs += uleb(65) + uleb(t) + uleb(v) + b'\x00'
                        aexp.append(('TAG_ALSO_COMPATIBLE_WITH', (U[t], v), None))
                    else:
                        t, sv = rng.choice(sorted(N)), rng.choice(['', 'Cortex-M3', 'x'])
                        attrs += uleb(65) + uleb(t) + sv.encode() + b'\x00'
                        aexp.append(('TAG_ALSO_COMPATIBLE_WITH', (N[t], sv), None))
                elif arm and rng.random() < 0.15:
                    v, s = rng.randrange(0, 300), rng.choice(['', 'vendor'])
                    attrs += uleb(32) + uleb(v) + s.encode() + b'\x00'      # Tag_compatibility: ULEB128 flag + NTBS vendor
                    aexp.append(('TAG_COMPATIBILITY', v, s))
                else:
                    t = rng.choice(sorted(U))
                    v = rng.choice([0, 1, 2, 127, 128, 70000])
                    attrs += uleb(t) + uleb(v)
                    aexp.append((U[t], v, None))
            size = 1 + 4 + len(numb) + len(attrs)
            subs += bytes([scope]) + struct.pack(e + 'I', size) + numb + attrs
            exp.append((vendor, SCOPE[scope], size, nums, aexp))
        payload = vendor.encode() + b'\x00' + subs
        data += struct.pack(e + 'I', 4 + len(payload)) + payload
    return data, exp


def case_attributes(rng):
    from elftools.elf.elffile import ELFFile
    le, arm = rng.random() < 0.5, rng.random() < 0.6
    data, exp = gen_attr_section(rng, le, arm)
    name = '.ARM.attributes' if arm else '.riscv.attributes'
    img, _ = sections_image(32, le, [dict(name=name, type=0x70000003, data=data)], etype=1, machine=40 if arm else 243)
    sec = ELFFile(io.BytesIO(img)).get_section_by_name(name)
    for _ in range(2):
        got = []
        for ss in sec.iter_subsections():
            for sss in ss.iter_subsubsections():
                got.append((ss['vendor_name'], sss.header.tag, sss.header.value, sss.header.extra,
                            [(a.tag, (a.value.tag, a.value.value) if a.tag == 'TAG_ALSO_COMPATIBLE_WITH' else a.value, a.extra)
                             for a in sss.iter_attributes()]))
        if got != exp:
            i = next((k for k, (a, b) in enumerate(zip(got, exp)) if a != b), min(len(got), len(exp)))
            return ('sub-subsection %d reads %r, encoded %r (%d read, %d encoded)' % (
                i, got[i] if i < len(got) else None, exp[i] if i < len(exp) else None, len(got), len(exp)),
                '%s le=%s' % (name, le), img.hex())
    return None


def prel31(target, place):
    return (target - place) & 0x7fffffff


def case_ehabi(rng):
    from elftools.elf.elffile import ELFFile
    from elftools.ehabi.ehabiinfo import EHABIInfo
    le = rng.random() < 0.5
    e = '<' if le else '>'
    n = rng.choice([1, 2, 4, 7])
    # layout first (sizes only), then contents: addresses are file offsets (sh_addr == sh_offset)
    tab_entries = []
    for _ in range(rng.choice([0, 1, 2, 3])):
        kind = rng.choice(['generic', 'c0', 'c1', 'c2', 'c1'])
        more = rng.choice([0, 1, 2, 5]) if kind in ('c1', 'c2') else 0
        tab_entries.append((kind, more, 4 * (1 + more) + (rng.choice([0, 4, 8]) if kind == 'generic' else 0)))
    tab_size = sum(t[2] for t in tab_entries)
    secs = [dict(name='.text', type=1, data=b'\x00' * 0x100, align=4),
            dict(name='.ARM.extab', type=1, data=b'\x00' * tab_size, align=4),
            dict(name='.ARM.exidx', type=0x70000001, data=b'\x00' * (8 * n), align=4)]
    _img, offs = sections_image(32, le, secs, etype=2, machine=40)
    text_off, tab_off, idx_off = offs
    # table entries
    tab, texp, pos = b'', [], tab_off
    for kind, more, size in tab_entries:
        if kind == 'generic':
            routine = text_off + 4 * rng.randrange(0, 0x40)
            w = struct.pack(e + 'I', prel31(routine, pos))
            texp.append(('GenericEHABIEntry', routine, None, None))
        else:
            per = int(kind[1])
            if per == 0:
                ops = [rng.randrange(256) for _ in range(3)]
                w = struct.pack(e + 'I', 0x80000000 | ops[0] << 16 | ops[1] << 8 | ops[2])
                texp.append(('EHABIEntry', 0, ops, 'skip'))
            else:
                ops = [rng.randrange(256) for _ in range(2 + 4 * more)]
                w = struct.pack(e + 'I', 0x80000000 | per << 24 | more << 16 | ops[0] << 8 | ops[1])
                for k in range(more):
                    o = ops[2 + 4 * k: 6 + 4 * k]
                    w += struct.pack(e + 'I', o[0] << 24 | o[1] << 16 | o[2] << 8 | o[3])
                texp.append(('EHABIEntry', per, ops, pos))
        w += b'\x00' * (size - len(w))
        tab += w
        pos += size
    starts = [tab_off + sum(t[2] for t in tab_entries[:k]) for k in range(len(tab_entries))]
    idx, exp = b'', []
    for i in range(n):
        place = idx_off + 8 * i
        fn = rng.choice([text_off + 4 * rng.randrange(0, 0x40), place + rng.choice([0x100, 0x3fffff00]), rng.randrange(0, place + 1) & ~1])
        w0 = prel31(fn, place)
        kind = rng.choice(['cannot', 'inline', 'table', 'table', 'corrupt'] if tab_entries else ['cannot', 'inline', 'corrupt'])
        if kind == 'cannot':
            w1 = 1
            exp.append(('CannotUnwindEHABIEntry', fn, None, None, None))
        elif kind == 'inline':
            ops = [rng.randrange(256) for _ in range(3)]
            w1 = 0x80000000 | ops[0] << 16 | ops[1] << 8 | ops[2]
            exp.append(('EHABIEntry', fn, 0, ops, None))
        elif kind == 'corrupt':
            w0 |= 0x80000000
            w1 = rng.randrange(1 << 32)
            exp.append(('CorruptEHABIEntry', None, None, None, None))
        else:
            k = rng.randrange(len(tab_entries))          # several index entries may share one table entry
            w1 = prel31(starts[k], place + 4)
            cls_, per, ops, tpos = texp[k]
            exp.append((cls_, fn, per, ops, tpos))
        idx += struct.pack(e + 'II', w0, w1)
    secs[1]['data'], secs[2]['data'] = tab, idx
    img, offs2 = sections_image(32, le, secs, etype=2, machine=40)
    assert offs2 == offs
    ef = ELFFile(io.BytesIO(img))
    info = EHABIInfo(ef.get_section_by_name('.ARM.exidx'), ef.little_endian)
    cfg = 'le=%s index entries %r table entries %r' % (le, exp, tab_entries)
    if info.num_entry() != n:
        return 'num_entry() = %d, encoded %d' % (info.num_entry(), n), cfg, img.hex()
    order = list(range(n)) * 2
    rng.shuffle(order)
    for i in order:
        en = info.get_entry(i)
        cls_, fn, per, ops, tpos = exp[i]
        got = (type(en).__name__, en.function_offset, en.personality, en.bytecode_array)
        want = (cls_, fn, per, ops)
        if cls_ == 'GenericEHABIEntry':
            want = (cls_, fn, per, None)
        if got != want or (tpos not in (None, 'skip') and en.eh_table_offset != tpos):
            return ('get_entry(%d) = (kind, function, personality, byte-code) %r table offset %r; encoded %r table offset %r (query order %r)' % (
                i, got, en.eh_table_offset, want, tpos, order), cfg, img.hex())
    return None


@task('c20-sections-differential', ['C20'], kind='bounded')
def c20_sections(tier, seed):
    rng = random.Random(seed + 2020)
    n = 120 if tier == 'quick' else 5000
    obs = []
    for label, fn, how in (('attribute sections', case_attributes, 'AttributesSection.iter_subsections / iter_subsubsections / iter_attributes'),
                           ('exception index', case_ehabi, 'EHABIInfo.get_entry on generated .ARM.exidx / .ARM.extab')):
        bad = None
        for _ in range(n):
            try:
                r = fn(rng)
            except Exception as e:
                import traceback
                r = ('real code raised %r (%s)' % (e, traceback.format_exc().splitlines()[-3].strip()), '', '')
            if r:
                bad = dict(confirmed=True, how=how, input=r[2][:3000], configuration=r[1][:1500], observed=r[0][:800], expected='as encoded')
                break
        obs.append(dict(name='bounded:elf/sections.py+ehabi/ehabiinfo.py:%s' % label, kind='bounded', verdict='refuted' if bad else 'proved',
                        backend='ground-eval(seeded differential, %d images)' % n, time=0.0, bounded=True, detail=bad and bad['observed'],
                        native=bad))
    return dict(obligations=obs, assumptions=[
        'BOUNDED: 1-3 vendor subsections x 1-3 sub-subsections x 0-5 attributes over a subset of the ARM / RISC-V tags; 1-7 index entries, '
        '0-3 table entries; section addresses equal file offsets; function addresses are non-negative',
        'the table offset of table-based compact model 0 entries is not compared (the class documents it, the constructor call omits it)'],
        functions=[dict(function='elftools/elf/sections.py:Attributes* classes; elftools/ehabi/ehabiinfo.py:EHABIInfo.get_entry (end to end)',
                        kind='bounded differential')], exhaustive=False)
