"""C06: call-frame sections generated from the specification (specs/cfi_spec.py: encoder for
.debug_frame and .eh_frame, instruction table of DWARF 7.24, interpreter of DWARF 6.4.2) are parsed
by the real CallFrameInfo and compared entry by entry: kind, header fields, CIE link, pointer-encoded
initial location, LSDA pointer, instruction opcodes/operands, decoded rows and register order.
Every opcode of the instruction table is exercised in every configuration (exhaustive over the
dispatch); operands and sequences are sampled: a BOUNDED stand-in for the two loops, not a proof."""
import io
import random
import pyvc
from pyvc.run import task

ALL_NAMES = None


def _names():
    from specs import cfi_spec as C
    return [n for (n, k) in list(C.PRIMARY.values()) + list(C.EXTENDED.values())]


def build_debug_frame(rng, le, fmt, asz, version, names, n_fde=2):
    from specs import cfi_spec as C
    from specs.dwarf_ops import _uleb, _sleb
    bo = 'little' if le else 'big'
    offw = 4 if fmt == 32 else 8

    def wrap(body):
        if fmt == 32:
            return len(body).to_bytes(4, bo) + body
        return b'\xff\xff\xff\xff' + len(body).to_bytes(8, bo) + body
    code_align = rng.choice([1, 2, 4])
    data_align = rng.choice([-8, -4, -1, 1, 4])
    ra = rng.choice([14, 16, 30])
    cie_names = [n for n in names if 'restore' not in n and 'advance' not in n and n != 'DW_CFA_set_loc'
                 and n != 'DW_CFA_remember_state' and n != 'DW_CFA_restore_state']
    body = (b'\xff' * offw) + bytes([version]) + b'\x00'
    if version >= 4:
        body += bytes([asz, 0])
    body += _uleb(code_align) + _sleb(data_align) + (bytes([ra]) if version == 1 else _uleb(ra))
    cie_instrs = []
    for _ in range(rng.randrange(0, 4)):
        raw, op, args = C.gen_instruction(rng, asz, le, cie_names)
        body += raw
        cie_instrs.append((op, args))
    cie_bytes = wrap(body)
    # any interleaving: with fde_first the first FDE precedes the CIE its pointer designates (the CIE is then parsed on
    # behalf of that FDE and met again, already cached, by the section scan)
    fde_first = rng.random() < 0.4
    section, expect, cie_off = b'', [], 0
    cie_x = dict(kind='CIE', offset=0, instrs=cie_instrs, code_align=code_align, data_align=data_align, version=version, ra=ra)
    if not fde_first:
        section = cie_bytes
        expect.append(cie_x)
    for i_fde in range(n_fde):
        off = len(section)
        loc = rng.randrange(0, 1 << (8 * asz - 1))
        rng_len = rng.randrange(1, 5000)
        n_ins = rng.randrange(0, 9)
        if fde_first and i_fde == 0:
            # the CIE follows this FDE: its offset depends on the FDE's length, so the instructions come first
            pre = []
            for _ in range(n_ins):
                raw, op, args = C.gen_instruction(rng, asz, le, [n for n in names if n not in (
                    'DW_CFA_restore_state', 'DW_CFA_remember_state')])
                pre.append((raw, op, args))
            flen = offw + 2 * asz + sum(len(r) for r, _, _ in pre)
            cie_off = off + (4 if fmt == 32 else 12) + flen
            body = cie_off.to_bytes(offw, bo) + loc.to_bytes(asz, bo) + rng_len.to_bytes(asz, bo) + b''.join(r for r, _, _ in pre)
            section += wrap(body)
            expect.append(dict(kind='FDE', offset=off, instrs=[(op, args) for _, op, args in pre], initial_location=loc,
                               address_range=rng_len, cie=cie_off))
            assert len(section) == cie_off
            cie_x['offset'] = cie_off
            section += cie_bytes
            expect.append(cie_x)
            continue
        body = cie_off.to_bytes(offw, bo) + loc.to_bytes(asz, bo) + rng_len.to_bytes(asz, bo)
        instrs, depth = [], 0
        for _ in range(n_ins):
            allow = [n for n in names if (n != 'DW_CFA_restore_state' or depth > 0)]
            raw, op, args = C.gen_instruction(rng, asz, le, allow)
            nme = C.name_of(op)
            if nme == 'DW_CFA_remember_state':
                depth += 1
            if nme == 'DW_CFA_restore_state':
                depth -= 1
            body += raw
            instrs.append((op, args))
        section += wrap(body)
        expect.append(dict(kind='FDE', offset=off, instrs=instrs, initial_location=loc, address_range=rng_len, cie=cie_off))
    return section, expect


ENC = {0x00: ('ADDR', False), 0x01: ('ULEB', False), 0x02: (2, False), 0x03: (4, False), 0x04: (8, False),
       0x09: ('SLEB', True), 0x0a: (2, True), 0x0b: (4, True), 0x0c: (8, True)}


def _enc_value(v, enc, asz, bo):
    from specs.dwarf_ops import _uleb, _sleb
    k, signed = ENC[enc & 0x0f]
    if k == 'ULEB':
        return _uleb(v)
    if k == 'SLEB':
        return _sleb(v)
    n = asz if k == 'ADDR' else k
    return (v % (1 << (8 * n))).to_bytes(n, bo)


EH_AUGMENTATIONS = ['', 'z', 'zR', 'zL', 'zLR', 'zRL', 'zPR', 'zPLR', 'zRS', 'zSLR']


def build_eh_frame(rng, le, asz, address, names, aug=None):
    """one CIE with the augmentation string `aug` (the letters in string order decide the augmentation data; without
    'z' neither the CIE nor its FDEs carry augmentation data, without 'R' addresses are absolute pointers, without 'L'
    there is no LSDA pointer) and two FDEs; returns (bytes, expectations)"""
    from specs import cfi_spec as C
    from specs.dwarf_ops import _uleb, _sleb
    bo = 'little' if le else 'big'
    if aug is None:
        aug = rng.choice(EH_AUGMENTATIONS)
    has_z = aug.startswith('z')
    fde_enc = rng.choice([0x00, 0x03, 0x0b, 0x1b, 0x10 | 0x0c, 0x04, 0x02, 0x0a, 0x01, 0x09]) if 'R' in aug else 0x00
    with_lsda = 'L' in aug
    lsda_enc = rng.choice([0x00, 0x03, 0x0b, 0x1b, 0x0a, 0x1a, 0x09, 0x19])
    pers_enc = rng.choice([0x00, 0x03, 0x0b, 0x1b, 0x04, 0x0c, 0x02])
    pers_val = rng.randrange(0x10, 0x7000)
    code_align, data_align = rng.choice([1, 4]), rng.choice([-8, -4, 4])
    augdata, aug_expect = b'', {}
    for ch in aug[1:]:
        if ch == 'R':
            augdata += bytes([fde_enc])
            aug_expect['FDE_encoding'] = fde_enc
        elif ch == 'L':
            augdata += bytes([lsda_enc])
            aug_expect['LSDA_encoding'] = lsda_enc
        elif ch == 'P':
            augdata += bytes([pers_enc]) + _enc_value(pers_val, pers_enc, asz, bo)
            aug_expect['personality'] = (pers_enc, pers_val)
    body = (0).to_bytes(4, bo) + bytes([1]) + aug.encode() + b'\x00' + _uleb(code_align) + _sleb(data_align) + bytes([16])
    if has_z:
        body += _uleb(len(augdata)) + augdata
    cie_names = [n for n in names if 'restore' not in n and 'advance' not in n and n != 'DW_CFA_set_loc'
                 and n not in ('DW_CFA_remember_state', 'DW_CFA_restore_state')]
    cie_instrs = []
    for _ in range(rng.randrange(0, 3)):
        raw, op, args = C.gen_instruction(rng, asz, le, cie_names)
        body += raw
        cie_instrs.append((op, args))
    section = len(body).to_bytes(4, bo) + body
    expect = [dict(kind='CIE', offset=0, instrs=cie_instrs, code_align=code_align, data_align=data_align,
                   aug=aug, aug_bytes=augdata if has_z else b'', aug_fields=aug_expect if has_z else {})]
    for i_fde in range(2):
        if i_fde == 1 and rng.random() < 0.3:
            # a zero terminator in the middle of the section (between the contributions of two objects): an entry of its
            # own kind; the entries after it are still entries of the section
            expect.append(dict(kind='ZERO', offset=len(section)))
            section += (0).to_bytes(4, bo)
        off = len(section)
        k, signed = ENC[fde_enc & 0x0f]
        width = asz if k == 'ADDR' else (4 if k in ('ULEB', 'SLEB') else k)
        field_off = off + 8
        pcrel = (fde_enc & 0xf0) == 0x10
        if pcrel:
            # a pc-relative target lies near the section (the displacement must fit the encoding)
            delta = rng.randrange(-0x8000, 0x8000) if signed else rng.randrange(0, 0x8000)
            target = address + field_off + delta
            stored = delta
        else:
            target = rng.randrange(0x1000, min(0x7fff0000, (1 << (8 * width - 1)) - 1))
            stored = target
        rlen = rng.randrange(1, 4096)
        hdr = (field_off - 4 - 0).to_bytes(4, bo)          # CIE_pointer: distance from this field back to the CIE (offset 0)
        body = hdr + _enc_value(stored, fde_enc, asz, bo) + _enc_value(rlen, fde_enc & 0x0f if (fde_enc & 0x0f) not in (0x09,) else fde_enc, asz, bo)
        lsda_expect = None
        aug_payload = b''
        if with_lsda:
            lk, lsigned = ENC[lsda_enc & 0x0f]
            lsda_field_off = off + 4 + len(body) + 1         # after the one-byte augmentation length
            lpcrel = (lsda_enc & 0xf0) == 0x10
            lw = asz if lk == 'ADDR' else (8 if lk in ('ULEB', 'SLEB') else lk)
            if lpcrel:
                ldelta = rng.randrange(-0x4000, 0x4000) if lsigned else rng.randrange(0, 0x4000)
                lsda_target = address + lsda_field_off + ldelta
                lstored = ldelta
            else:
                lsda_target = rng.randrange(0x10, min(0x7000000, (1 << (8 * lw - 1)) - 1))
                lstored = lsda_target
            aug_payload = _enc_value(lstored, lsda_enc, asz, bo)
            lsda_expect = lsda_target
        if has_z:
            body += _uleb(len(aug_payload)) + aug_payload
        instrs, depth = [], 0
        for _ in range(rng.randrange(0, 6)):
            allow = [n for n in names if (n != 'DW_CFA_restore_state' or depth > 0) and n != 'DW_CFA_set_loc']
            if rng.random() < 0.15:
                # DW_CFA_set_loc: in .eh_frame its address operand uses the FDE pointer encoding of the CIE (absolute
                # address-sized word without 'R'), relative to the operand's own address under the pcrel modifier
                opnd = off + 4 + len(body) + 1
                if pcrel:
                    d = rng.randrange(-0x8000, 0x8000) if signed else rng.randrange(0, 0x8000)
                    tgt, st_ = address + opnd + d, d
                else:
                    tgt = rng.randrange(0x1000, min(0x7fff0000, (1 << (8 * width - 1)) - 1))
                    st_ = tgt
                body += b'\x01' + _enc_value(st_, fde_enc, asz, bo)
                instrs.append((0x01, [tgt]))
                continue
            raw, op, args = C.gen_instruction(rng, asz, le, allow)
            nme = C.name_of(op)
            depth += (nme == 'DW_CFA_remember_state') - (nme == 'DW_CFA_restore_state')
            body += raw
            instrs.append((op, args))
        section += len(body).to_bytes(4, bo) + body
        expect.append(dict(kind='FDE', offset=off, instrs=instrs, initial_location=target, address_range=rlen, cie=0,
                           lsda=lsda_expect, with_lsda=with_lsda, aug_bytes=aug_payload if has_z else b''))
    section += (0).to_bytes(4, bo)
    expect.append(dict(kind='ZERO', offset=len(section) - 4))
    return section, expect


def compare(section, expect, le, asz, for_eh, address):
    from elftools.dwarf.callframe import CallFrameInfo, CIE, FDE, ZERO
    from elftools.dwarf.structs import DWARFStructs
    from specs import cfi_spec as C
    st = DWARFStructs(little_endian=le, dwarf_format=32, address_size=asz)
    cfi = CallFrameInfo(io.BytesIO(section), len(section), address, st, for_eh_frame=for_eh)
    entries = cfi.get_entries()
    if len(entries) != len(expect):
        return 'number of entries %d, encoded %d' % (len(entries), len(expect))
    cie_rows = {}
    for x in expect:          # an FDE may precede its CIE: the CIEs' initial rules first
        if x['kind'] == 'CIE':
            cie_rows[x['offset']] = (C.interpret(x['instrs'], x['code_align'], x['data_align'], 0, None, True), x,
                                     C.reg_order(x['instrs'], []))
    for e, x in zip(entries, expect):
        kind = 'CIE' if isinstance(e, CIE) else 'FDE' if isinstance(e, FDE) else 'ZERO' if isinstance(e, ZERO) else '?'
        if kind != x['kind'] or e.offset != x['offset']:
            return 'entry at %d: kind %s offset %d, encoded %s at %d' % (e.offset, kind, e.offset, x['kind'], x['offset'])
        if kind == 'ZERO':
            continue
        got = [(i.opcode, list(i.args)) for i in e.instructions]
        # trailing padding (DW_CFA_nop) is part of the entry in the encoding as generated: none here
        if got != x['instrs']:
            return 'entry at %d: instructions %r, encoded %r' % (e.offset, got[:6], x['instrs'][:6])
        if kind == 'CIE':
            if e['code_alignment_factor'] != x['code_align'] or e['data_alignment_factor'] != x['data_align']:
                return 'CIE alignment factors %r' % ((e['code_alignment_factor'], e['data_alignment_factor']),)
            if 'aug' in x:
                if e['augmentation'] != x['aug'].encode():
                    return 'CIE augmentation string %r, encoded %r' % (e['augmentation'], x['aug'])
                if e.augmentation_bytes != x['aug_bytes']:
                    return 'CIE augmentation data %r, encoded %r' % (e.augmentation_bytes, x['aug_bytes'])
                for f, v in x['aug_fields'].items():
                    g = e.augmentation_dict.get(f)
                    g = (g.encoding, g.function) if f == 'personality' and g is not None else g
                    if g != v:
                        return 'CIE augmentation field %s = %r, encoded %r' % (f, g, v)
                for f in ('FDE_encoding', 'LSDA_encoding', 'personality'):
                    if f in e.augmentation_dict and f not in x['aug_fields']:
                        return 'CIE augmentation field %s reported, not encoded (augmentation %r)' % (f, x['aug'])
            rows = C.interpret(x['instrs'], x['code_align'], x['data_align'], 0, None, True)
            order = C.reg_order(x['instrs'], [])
            cie_rows[x['offset']] = (rows, x, order)
        else:
            if e.cie.offset != x['cie']:
                return 'FDE at %d linked to CIE at %d, encoded pointer designates %d' % (e.offset, e.cie.offset, x['cie'])
            if e['initial_location'] != x['initial_location'] or e['address_range'] != x['address_range']:
                return 'FDE at %d: initial_location/range %r, encoded %r' % (
                    e.offset, (e['initial_location'], e['address_range']), (x['initial_location'], x['address_range']))
            if for_eh and 'with_lsda' in x and e.lsda_pointer != x['lsda']:
                return 'FDE at %d: LSDA pointer %r, encoded %r' % (e.offset, e.lsda_pointer, x['lsda'])
            if for_eh and 'aug_bytes' in x and e.augmentation_bytes != x['aug_bytes']:
                return 'FDE at %d: augmentation data %r, encoded %r' % (e.offset, e.augmentation_bytes, x['aug_bytes'])
            crow, cx, corder = cie_rows[x['cie']]
            rows = C.interpret(x['instrs'], cx['code_align'], cx['data_align'], x['initial_location'], crow, False)
            order = C.reg_order(x['instrs'], corder)
        dec = e.get_decoded()
        real = C.real_rows(dec)
        if real != rows:
            return 'entry at %d: decoded table %r, DWARF 6.4.2 gives %r' % (e.offset, real[-2:], rows[-2:])
        if list(dec.reg_order) != order:
            return 'entry at %d: register order %r, order of first appearance is %r' % (e.offset, list(dec.reg_order), order)
    return None


@task('c06-cfi-differential', ['C06'], kind='bounded')
def cfi(tier, seed):
    from specs import cfi_spec as C
    rng = random.Random(seed + 6)
    names = _names()
    obs = []
    n_per = 6 if tier == 'quick' else 200

    def run(label, builder, cfgs, per_name):
        for nme in per_name:
            bad = None
            for cfg in cfgs:
                for _ in range(n_per):
                    # the named instruction is over-represented so that every opcode is exercised in every configuration
                    allow = [nme] * 4 + names
                    try:
                        section, expect, args = builder(cfg, allow)
                        r = compare(section, expect, *args)
                    except Exception as e:
                        r = 'real parser raised %r' % (e,)
                        section = section if 'section' in dir() else b''
                    if r:
                        bad = dict(confirmed=True, how='CallFrameInfo on a section encoded from the specification',
                                   input=section.hex()[:1200], configuration=repr(cfg), observed=r[:500],
                                   expected='entries, instructions and rows as encoded / DWARF 6.4.2')
                        break
                if bad:
                    break
            obs.append(dict(name='bounded:dwarf/callframe.py:%s[%s]' % (label, nme), kind='bounded',
                            verdict='refuted' if bad else 'proved', backend='ground-eval(seeded differential)', time=0.0,
                            bounded=True, detail=bad and bad['observed'], native=bad))
    df_cfgs = [(le, fmt, asz, ver) for le in (True, False) for fmt in (32, 64) for asz in (4, 8) for ver in (1, 3, 4)]

    def b_df(cfg, allow):
        le, fmt, asz, ver = cfg
        s, x = build_debug_frame(rng, le, fmt, asz, ver, allow)
        return s, x, (le, asz, False, 0)
    run('debug_frame', b_df, df_cfgs, names)
    eh_cfgs = [(le, asz) for le in (True, False) for asz in (4, 8)]

    def b_eh(cfg, allow):
        le, asz = cfg
        address = rng.choice([0x400000, 0x7f0000001000 if asz == 8 else 0x10000])
        # the obligation's name selects the augmentation string ('pointer-encodings': any of them)
        aug = allow[0][len('augmentation='):] if allow[0].startswith('augmentation=') else None
        s, x = build_eh_frame(rng, le, asz, address, [n for n in allow if n.startswith('DW_CFA') and n != 'DW_CFA_set_loc'],
                              aug=aug)
        return s, x, (le, asz, True, address)
    run('eh_frame', b_eh, eh_cfgs, ['pointer-encodings'] + ['augmentation=' + a for a in EH_AUGMENTATIONS])
    return dict(obligations=obs, assumptions=[
        'BOUNDED: sections are generated from the specification with seeded operands and sequences; every opcode x '
        'configuration is exercised but operand values are sampled',
        'oracle: specs/cfi_spec.py (transcription of DWARF v5 6.4.2, 7.24 and the LSB pointer encodings)'],
        functions=[dict(function='elftools/dwarf/callframe.py:CallFrameInfo._parse_entries/_parse_entry_at/_parse_instructions/'
                                 '_parse_cie_for_fde/_parse_fde_header/_parse_lsda_pointer, CFIEntry._decode_CFI_table',
                        kind='bounded differential')], exhaustive=False)


def _decoded_view(e):
    from specs import cfi_spec as C
    dec = e.get_decoded()
    return (C.real_rows(dec), list(dec.reg_order))


@task('c10-cfi-history-differential', ['C10'], kind='bounded')
def cfi_history(tier, seed):
    """C10: the decoded table of an entry does not depend on which entries were decoded before, how
    often, or in which order (each answer is compared with a fresh object that decodes only that entry)"""
    from elftools.dwarf.callframe import CallFrameInfo, ZERO
    from elftools.dwarf.structs import DWARFStructs
    rng = random.Random(seed * 31 + 10)
    names = [n for n in _names() if n != 'DW_CFA_set_loc']
    obs = []
    n = 25 if tier == 'quick' else 600
    for le in (True, False):
        bad = None
        for _ in range(n):
            asz, ver = rng.choice([4, 8]), rng.choice([1, 3, 4])
            section, expect = build_debug_frame(rng, le, 32, asz, ver, names, n_fde=rng.choice([2, 3, 4]))

            def fresh():
                st = DWARFStructs(little_endian=le, dwarf_format=32, address_size=asz)
                return [e for e in CallFrameInfo(io.BytesIO(section), len(section), 0, st).get_entries() if not isinstance(e, ZERO)]
            try:
                k = len(fresh())
                alone = [_decoded_view(fresh()[i]) for i in range(k)]
                ents = fresh()
                hist = [rng.randrange(k) for _ in range(rng.choice([k, 2 * k, 3 * k]))]
                for i in hist:
                    got = _decoded_view(ents[i])
                    if got != alone[i]:
                        bad = dict(confirmed=True, how='entries of one CallFrameInfo decoded in the order %r' % (hist,),
                                   input=section.hex()[:1200], configuration=repr((le, asz, ver)),
                                   observed='entry #%d decodes to rows/register order %r' % (i, (got[0][-1:], got[1])),
                                   expected='what a fresh object decodes for it: %r' % ((alone[i][0][-1:], alone[i][1]),))
                        break
                if not bad:
                    for i in range(k):
                        got = _decoded_view(ents[i])
                        if got != alone[i]:
                            bad = dict(confirmed=True, how='entries decoded in the order %r, then entry #%d read again' % (hist, i),
                                       input=section.hex()[:1200], configuration=repr((le, asz, ver)),
                                       observed='entry #%d now reads %r' % (i, (got[0][-1:], got[1])),
                                       expected='%r' % ((alone[i][0][-1:], alone[i][1]),))
                            break
            except Exception as e:
                bad = dict(confirmed=True, how='decode history', input=section.hex()[:1200], configuration=repr((le, asz, ver)),
                           observed='raised %r' % (e,), expected='decoded tables')
            if bad:
                break
        obs.append(dict(name='bounded:dwarf/callframe.py:history-independence[%s]' % ('LSB' if le else 'MSB'), kind='bounded',
                        verdict='refuted' if bad else 'proved', backend='ground-eval(seeded differential)', time=0.0, bounded=True,
                        detail=bad and bad['observed'], native=bad))
    return dict(obligations=obs, assumptions=['BOUNDED: 2-4 FDEs sharing one CIE, histories up to 3x the number of entries, seeded'],
                functions=[dict(function='elftools/dwarf/callframe.py:CFIEntry.get_decoded/_decode_CFI_table (decode history)',
                                kind='bounded differential')], exhaustive=False)
