#!/bin/bash
# usage: tools/sedmut.sh <PROP> <file under elftools/> <sed expr> [check args]: run a check on a sed-mutated scratch copy
set -u
P=$1; F=$2; E=$3; shift 3
D=$(mktemp -d /tmp/vmut.XXXXXX)
cp -r /repo/elftools "$D/"
sed -i "$E" "$D/elftools/$F"
if diff -q /repo/elftools/$F "$D/elftools/$F" >/dev/null; then echo "sed did not change anything"; rm -rf "$D"; exit 9; fi
diff /repo/elftools/$F "$D/elftools/$F" | head -6
VERIF_REPO="$D" VERIF_OUT="$D/out" "$(dirname "$0")/../check" "$P" "$@" 2>&1 | grep -v "^KNOWN" | tail -4
echo "mutant-exit=${PIPESTATUS[0]}"
rm -rf "$D"
