#!/usr/bin/env python3
"""Regenerates baseline_counts.json from the evidence of a quick run on the unchanged tree (run tools/runall.sh first):
per property and function under K1 contract, the source hash and the number of distinct obligations generated.  The
checks refuse (exit 3) to report fewer obligations for a function whose source is unchanged, or to lose a function
altogether -- a guard against silently vacuous runs after a contract or engine change."""
import glob
import json
import os

ROOT = os.path.dirname(os.path.dirname(os.path.abspath(__file__)))


def main():
    out = {}
    for f in sorted(glob.glob(os.path.join(ROOT, 'evidence', 'C*.json'))):
        ev = json.load(open(f))
        prop = ev['property_id']
        for fn in ev['coverage'].get('functions_under_contract', []):
            src = fn.get('source')
            if not src or not src.get('hash') or fn.get('bounded') or not fn.get('distinct_obligations'):
                continue
            out.setdefault(prop, {})[fn['function']] = dict(hash=src['hash'], names=fn['distinct_obligations'],
                                                           alpha=src.get('alpha'), locals=src.get('locals'))
    json.dump(out, open(os.path.join(ROOT, 'baseline_counts.json'), 'w'), indent=1, sort_keys=True)
    print('baseline written:', {p: len(v) for p, v in sorted(out.items())})


if __name__ == '__main__':
    main()
