#!/bin/bash
# runs every check of the manifest (quick tier) and prints the summary line + exit code of each
cd "$(dirname "$0")/.."
ids=${*:-C01 C02 C03 C04 C05 C06 C07 C08 C09 C10 C11 C12 C13 C14 C15 C16 C17 C19 C20}
for p in $ids; do
  ( out=$(./check $p --tier quick 2>&1); rc=$?; echo "$p exit=$rc $(echo "$out" | grep '^\[' | tail -1)"; echo "$out" | grep -E '^(VIOLATION|UNDECIDED|CHECKER-ERROR)' | head -5 ) &
done
wait
