#!/usr/bin/env python3
"""Confirms every seeded change (raw sub-agent output under seeded_raw*/) against the current /repo and the
current checks, and writes the confirmed ones to seeded/<id>/ (patch.diff, demo.py, meta.json) plus
seeded/MATRIX.json.  For each change, in a scratch copy of /repo outside /repo and /verif:
  1. the patch applies (git apply --check); 2. the pinned test suite gives the baseline summary with the patch;
  3. demo.py exits 0 on the unchanged tree and 1 with the patch; 4. the property's check (and, if given, extra
  checks) is run against the patched elftools/ (VERIF_REPO) and its exit code and VIOLATION lines are recorded.
Usage: tools/confirm_seeded.py [ID ...]   (ID like C04/a or r2:C04/a; default: all)"""
import json
import os
import re
import shutil
import subprocess
import sys
import tempfile

ROOT = os.path.dirname(os.path.dirname(os.path.abspath(__file__)))
BASE = 'cd %s && /venv/bin/python -m pytest -ra -q -p no:cacheprovider --timeout=900 --continue-on-collection-errors 2>&1 | tail -1'
EXTRA = {'C10/b': ['C06', 'C10'], 'C10/a': ['C04', 'C10']}       # changes that manifest under a neighbouring property's check too


def sh(cmd, timeout=1800, env=None):
    p = subprocess.run(cmd, shell=True, capture_output=True, text=True, timeout=timeout, env=env)
    return p.returncode, (p.stdout + p.stderr)


def confirm(raw_dir, tag, prop, letter):
    src = os.path.join(ROOT, raw_dir, prop, letter)
    rnd = 'r' + (raw_dir[len('seeded_raw'):] or '1')
    sid = '%s-%s%s' % (prop, rnd, letter)
    out = dict(id=sid, property=prop, source=os.path.relpath(src, ROOT))
    meta = json.load(open(os.path.join(src, 'meta.json')))
    out['summary'] = meta.get('summary')
    out['needs_to_manifest'] = meta.get('needs_to_manifest')
    scratch = tempfile.mkdtemp(prefix='vseed.')
    try:
        rc, _ = sh('cp -r /repo %s/repo' % scratch)
        repo = scratch + '/repo'
        patch = os.path.join(src, 'patch.diff')
        rc, o = sh('cd %s && git apply --check %s' % (repo, patch))
        out['applies'] = rc == 0
        ran = []
        if rc != 0:
            alt = os.path.join(src, 'patch.adapted.diff')
            if os.path.exists(alt) and sh('cd %s && git apply --check %s' % (repo, alt))[0] == 0:
                patch, out['applies'], out['adapted'] = alt, True, True
            else:
                out['note'] = 'the patch no longer applies to the current tree (the lines it changes were modified by a fix: commit): ' + o.strip()[:300]
                return out
        rc0, d0 = sh('/venv/bin/python %s %s' % (os.path.join(src, 'demo.py'), repo), timeout=600)
        ran.append('demo.py on the unchanged tree -> exit %d' % rc0)
        sh('cd %s && git apply %s' % (repo, patch))
        rc1, d1 = sh('/venv/bin/python %s %s' % (os.path.join(src, 'demo.py'), repo), timeout=600)
        ran.append('demo.py with the change -> exit %d (%s)' % (rc1, d1.strip().splitlines()[-1][:160] if d1.strip() else ''))
        _, t = sh(BASE % repo, timeout=1800)
        ran.append('pinned suite with the change -> %s' % t.strip())
        out['suite_same'] = '1 failed, 111 passed, 2 errors' in t
        out['demo_ok'] = (rc0 == 0 and rc1 == 1)
        checks = {}
        for chk in EXTRA.get('%s/%s' % (prop, letter), [prop]):
            env = dict(os.environ, VERIF_REPO=repo, VERIF_OUT=scratch + '/out')
            rc, o = sh('cd %s && ./check %s --tier quick' % (ROOT, chk), env=env, timeout=2400)
            viol = [l for l in o.splitlines() if l.startswith('VIOLATION')]
            checks[chk] = dict(exit=rc, violations=[re.sub(r'^VIOLATION property=\S+ replay=replays/\S+?/', '', v)[:160] for v in viol][:6],
                               summary=[l for l in o.splitlines() if l.startswith('[')][-1:] )
            ran.append('VERIF_REPO=<patched copy> ./check %s --tier quick -> exit %d, %d VIOLATION lines' % (chk, rc, len(viol)))
        out['checks'] = checks
        out['caught'] = any(c['exit'] == 1 for c in checks.values())
        out['ran'] = ran
        if out['demo_ok'] and out['suite_same']:
            dst = os.path.join(ROOT, 'seeded', sid)
            os.makedirs(dst, exist_ok=True)
            shutil.copy(patch, os.path.join(dst, 'patch.diff'))
            shutil.copy(os.path.join(src, 'demo.py'), os.path.join(dst, 'demo.py'))
            json.dump(dict(property=prop, summary=out['summary'], needs_to_manifest=out['needs_to_manifest'],
                           files_changed=meta.get('files_changed'), produced_by='fresh sub-agent given only the property text and a scratch copy',
                           subagent_ran=meta.get('ran'), confirmed_by_me=ran, adapted=out.get('adapted', False),
                           caught=out['caught'], checks=checks), open(os.path.join(dst, 'meta.json'), 'w'), indent=1)
            out['kept'] = True
        else:
            out['kept'] = False
        return out
    finally:
        shutil.rmtree(scratch, ignore_errors=True)


def main():
    want = set(sys.argv[1:])
    items = []
    for raw in ['seeded_raw'] + ['seeded_raw%d' % i for i in range(2, 20)]:
        d = os.path.join(ROOT, raw)
        if not os.path.isdir(d):
            continue
        for prop in sorted(os.listdir(d)):
            for letter in sorted(os.listdir(os.path.join(d, prop))):
                n = raw[len('seeded_raw'):]
                key = (('r%s:' % n) if n else '') + '%s/%s' % (prop, letter)
                if want and key not in want:
                    continue
                if os.path.exists(os.path.join(d, prop, letter, 'patch.diff')):
                    items.append((raw, key, prop, letter))
    mpath = os.path.join(ROOT, 'seeded', 'MATRIX.json')
    os.makedirs(os.path.dirname(mpath), exist_ok=True)
    matrix = json.load(open(mpath)) if os.path.exists(mpath) else {}
    for raw, key, prop, letter in items:
        r = confirm(raw, key, prop, letter)
        matrix[r['id']] = r
        print(r['id'], 'applies' if r.get('applies') else 'NO-APPLY', 'demo_ok=%s suite_same=%s caught=%s' % (r.get('demo_ok'), r.get('suite_same'), r.get('caught')),
              {k: v['exit'] for k, v in (r.get('checks') or {}).items()}, flush=True)
        json.dump(matrix, open(mpath, 'w'), indent=1, sort_keys=True)


if __name__ == '__main__':
    main()
