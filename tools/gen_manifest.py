#!/usr/bin/env python3
"""Regenerates /verif/MANIFEST.json from the claims table below (kept here so the
manifest stays valid and in step with what the checks actually cover)."""
import json
import os

ROOT = os.path.dirname(os.path.dirname(os.path.abspath(__file__)))

K1 = 'K1: verification conditions generated from the real function ASTs of /repo (pyvc) and discharged by z3'
K2 = 'K2: the real struct-factory code run over its complete configuration space, construct trees compared with specification layouts; embedded lambdas proved equivalent by z3'
GR = 'ground obligations decided by evaluation'

CLAIMS = {
    # id: (category, technique, text, note)
}


def claim(pid, category, technique, text, note):
    CLAIMS[pid] = (category, technique, text, note)


claim('C17', 'proof', 'ground obligations: exhaustive (table, name, value) comparison with vendored registries',
      'every (name, value) of every constant table whose name a registry (glibc elf.h, LLVM 14 BinaryFormat, plus a cited supplement) defines is checked: complete enumeration of a finite space, one obligation per name',
      'registries are trusted transcriptions (hashes in registry/*.json); names known to no registry are reported as unchecked; derived tables checked as functions of their sources')
claim('C14', 'proof', K1 + '; ' + K2,
      'note walk iter_notes proved against notes_spec by step refinement (offsets, sizes, raw descriptor, termination, exhaustion of the extent) for all inputs; all note/stab structs (Nhdr, abi, Prop incl. closures, Prpsinfo, Nt_File, Stabs) K2-checked over every (class, byte order, machine, OS ABI, file type)',
      'descriptor decoding per note type relies on struct_parse = Sem(layout) (K2) ; property-list elements and StabSection.iter_stabs not yet under K1 contract; Sem of construct node kinds assumed (DESIGN 2.8)')
claim('C16', 'proof', K1 + '; ' + K2,
      'ULEB128._parse proved equal to the standard value/length for every byte string (loop invariant, variant, raises-iff-truncated); roundup proved; every fixed-width primitive factory of ELFStructs/DWARFStructs and the initial-length struct K2-checked in every configuration',
      'struct.Struct.unpack assumed to be the two\'s-complement reader; SLEB128/Int24/CString/initial-length adapter K1 contracts listed in evidence when present')

NOT_YET = 'not yet built in this round (DESIGN.md section 9 gives the order of work)'
NA = {
    'C18': 'oracle is the text output of GNU readelf, a third-party binary; no contract over the real code expresses it (DESIGN.md section 5)',
}


def main():
    props = [json.loads(l) for l in open(os.path.join(ROOT, 'properties.jsonl'))]
    checks, na = [], []
    for p in props:
        pid = p['id']
        if pid in CLAIMS:
            cat, tech, text, note = CLAIMS[pid]
            checks.append(dict(
                property_id=pid,
                quick_cmd='./check %s --tier quick' % pid,
                thorough_cmd='./check %s --tier thorough' % pid,
                evidence_file='evidence/%s.json' % pid,
                replay_cmd_template='./check %s --replay {path}' % pid,
                engine='pyvc',
                level_claimed=dict(category=cat, text=text, design_ref='DESIGN.md section 4 (%s) and section 11' % pid),
                level_note=note,
                technique=tech))
        else:
            na.append(dict(property_id=pid, reason=NA.get(pid, NOT_YET)))
    m = dict(
        version=1,
        setup_cmd='python3-vt -c "import z3, sys; sys.path.insert(0, \'.\'); import pyvc" && mkdir -p evidence replays',
        hooks=dict(guard='ELIBEN_PYELFTOOLS_VERIF',
                   enable='no source hooks: contracts are sidecar files under /verif/contracts; the verifier reads /repo\'s working tree (VERIF_REPO overrides the path)',
                   baseline_off_cmd='cd /repo && /venv/bin/python -m pytest -ra -q -p no:cacheprovider --timeout=900 --continue-on-collection-errors',
                   source_commits=[], add_only=True),
        engines=[dict(name='pyvc', path='/verif/pyvc', serves_properties=sorted(CLAIMS),
                      kind_free_text='verification-condition generator over the real Python ASTs of /repo with sidecar contracts (z3; cvc5 second opinion), K2 structure obligations on the real construct trees over complete configuration spaces, ground obligations by evaluation, native replay of counterexamples')],
        checks=checks,
        notes='fix: commits in /repo (genuine defects found by the obligations) are listed in known_findings.json with status fixed; they suppress nothing',
        not_applicable=na)
    json.dump(m, open(os.path.join(ROOT, 'MANIFEST.json'), 'w'), indent=1)
    try:
        import jsonschema
        jsonschema.validate(m, json.load(open('/root/.vp/MANIFEST.schema.json')))
        print('MANIFEST valid: %d checks, %d not_applicable' % (len(checks), len(na)))
    except ImportError:
        print('written (jsonschema not available)')


if __name__ == '__main__':
    main()
