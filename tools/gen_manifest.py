#!/usr/bin/env python3
"""Regenerates /verif/MANIFEST.json from the claims table below (kept here so the
manifest stays valid and in step with what the checks actually cover)."""
import json
import os

ROOT = os.path.dirname(os.path.dirname(os.path.abspath(__file__)))

K1 = 'K1: verification conditions generated from the real function ASTs of /repo (pyvc) and discharged by z3'
K2 = 'K2: the real struct-factory code run over its complete configuration space, construct trees compared with specification layouts; embedded lambdas proved equivalent by z3'
GR = 'ground obligations decided by evaluation'
BD = 'bounded differential against an independent specification encoder/interpreter (labelled bounded, never counted as proved)'

CLAIMS = {
    # id: (category, technique, text, note)
}


def claim(pid, category, technique, text, note):
    CLAIMS[pid] = (category, technique, text, note)


claim('C17', 'proof', 'ground obligations: exhaustive (table, name, value) comparison with vendored registries',
      'every (name, value) of every constant table whose name a registry (glibc elf.h, LLVM 14 BinaryFormat, plus a cited supplement) defines is checked: complete enumeration of a finite space, one obligation per name',
      'registries are trusted transcriptions (hashes in registry/*.json); names known to no registry are reported as unchecked; derived tables checked as functions of their sources')
claim('C14', 'proof', K1 + '; ' + K2 + '; ' + BD,
      'note walk iter_notes proved against notes_spec by step refinement (offsets, sizes, raw descriptor, termination, exhaustion of the extent) for all inputs; all note/stab structs (Nhdr, abi, Prop incl. closures, Prpsinfo, Nt_File, Stabs) K2-checked over every (class, byte order, machine, OS ABI, file type)',
      'descriptor decoding per note type relies on struct_parse = Sem(layout) (K2); property-list elements and the two container views (NoteSection / NoteSegment.iter_notes, any p_align) are not under K1 contract: covered by the bounded note differential (images describing one extent as section and as segment, GNU and core type tables); StabSection.iter_stabs is under contract; Sem of construct node kinds assumed (DESIGN 2.8)')
claim('C16', 'proof', K1 + '; ' + K2 + '; ' + BD,
      'ULEB128._parse and SLEB128._parse proved equal to the standard value (sign extension for any length) and length for every byte string (loop invariant, variant, raises-iff-truncated); UBInt24/ULInt24, the initial-length adapter (32/64-bit escape, reserved values), roundup proved; struct_parse is executed from its real body at every call site; every fixed-width primitive factory of ELFStructs/DWARFStructs and the initial-length struct K2-checked in every configuration',
      'bounded differentials over LEB128 encodings of 1..20 groups (minimal and padded) and over the fixed-width integer factories of both structs classes (both byte orders and signednesses, boundary patterns) keep deciding when a primitive is rewritten in a form the engine rejects; struct.Struct.unpack assumed to be the two\'s-complement reader of standard sizes; construct\'s FormatField/CString/PrefixedArray node semantics assumed (Sem, DESIGN 2.8)')

claim('C01', 'proof', K1 + '; ' + K2 + '; ' + BD,
      'Ehdr/Shdr/Phdr layouts K2-checked over every (class, byte order, machine, OS ABI, file type); table addressing with e_shentsize/e_phentsize, extended-numbering escapes, header fetch, type->class dispatch (all 18 kinds), segment dispatch, enumeration generators proved against their specifications for all inputs',
      'lookups through an already built name map are under contract (index 0 is an index); the construction of the map is not: it is decided by the bounded header differential (images with header tables anywhere and oversized entries: lookups by name and index against the enumeration, on fresh and used objects) and exercised by the C10 repeated-query fault injection; constructors of Dynamic/Relocation/Attributes sections and the eight linked-section helpers are assumed contracts at the dispatch (checked under their own properties where listed); Sem of construct node kinds assumed')
claim('C02', 'proof', K1 + '; ' + K2 + '; ' + BD,
      'chunked C-string reader proved to return the bytes up to the first NUL for any length; string table lookup; Section.__init__ compression header and Section.data (NOBITS / zlib with size check / raw) ; Segment.data; interpreter name; address_offsets soundness; section_in_segment proved equal to the binutils strict rule on every path; Elf_Chdr K2',
      'zlib.decompressobj assumed (documented contract); address_offsets: each yielded offset (soundness) and, per iteration, a yield exactly when the segment contains the range, with the enumeration consumed to its end and iter_segments passing on exactly the segments of the asked type (the completeness half; their composition over the whole table is also decided by the bounded contents differential: overlapping / nested / abutting segments); independence between same-named sections is covered by the bounded differential only; binutils rule scoped to the four condition groups of the statement')
claim('C03', 'proof', K1 + '; ' + K2 + '; ' + BD,
      'Elf_Sym (both classes, bit structs), syminfo, hash headers K2; symbol addressing by sh_entsize, names through the linked string table, index section, syminfo; SysV and GNU hash functions proved equal to the standard 32-bit functions for every name; GNU symbol-count recovery proved (walks the highest bucket chain to its end bit), SysV count; linked-section validators',
      'hash lookups: the GNU chain walk (found and fixed a shared-stream defect) and the SysV chain walk are under contract (every index on the chain examined, candidates are the symbols of those indices; no termination claim for cyclic SysV chains); the bloom filter test is an ASSUMED contract, covered with the end-to-end behaviour by the bounded hash differential (tables built from the specification, engineered collisions); the construction of the name map of get_symbol_by_name is not under contract: decided by the bounded symbol-table differential (repeated, empty and non-ASCII names, fresh and used objects)')
claim('C08', 'proof', K1 + '; ' + K2 + '; ' + GR + '; ' + BD,
      'Elf_Rel/Rela/Relr incl. MIPS64 layout and r_info lambdas K2 (lambdas proved by z3); relocation table addressing; RELR expansion proved by step refinement (anchor/bitmap/base advance); every supported (machine, type) recipe: width, addend source, and calc function proved equal to the psABI formula for all operands; applying one relocation (RelocationHandler._do_apply_relocation, postconditions generated from the psABI oracle with registry type numbers): for every supported (machine, flavour, type) the field at r_offset holds the formula of the symbol value, addend, place and previous field value wrapped to the field width and every other byte of the section keeps its value; an out-of-range symbol index, the wrong flavour for the machine and a type outside the supported set never return; the architecture-name dispatch (get_machine_arch) is proved for the nine machines with recipe tables',
      'the write of the relocated field is an ASSUMED contract of construct\'s builder (exactly the field\'s bytes at the position, every other byte kept, the written field parses back to the value); find_relocations_for_section / apply_section_relocations (the loop over a table) and the loading path in ELFFile are not under K1 contract: covered by the bounded differential (objects written by an independent ELF writer for every supported (machine, type), result compared byte for byte with the ABI formula); RELR expansion also has a bounded backstop differential; MIPS RELA in-place addend is a recorded known finding (ground recipe obligation and the two K1 value clauses)')
claim('C09', 'proof', K1 + '; ' + K2 + '; ' + BD,
      'Elf_Dyn K2 incl. machine/OS specific tag tables and the precedence of the specific name when a value has two names; raw tag addressing, walk to DT_NULL (with termination variant), table pointer lookup (first entry bearing the tag) mapped through loadable segments, string tags through the dynamic string table, tag count; GNU/SysV symbol count',
      '_get_stringtable assumed; the public iter_tags is proved to wrap exactly the raw walk; get_relocation_tables, DynamicSegment.num_symbols fallback path / get_symbol / constructors are not under K1 contract: covered by the bounded differential of section-less images (independent ELF writer: PT_LOAD + PT_DYNAMIC, string/symbol/hash/REL/RELA/JMPREL tables; lookup by name incl. several symbols of one name, on fresh and used objects)')
claim('C13', 'proof', K1 + '; ' + K2 + '; ' + BD,
      'aranges set parsing (alignment, tuple walk to the (0,0) terminator, appended entries), bisect lookup under disjointness, unit cache representation invariant with RI-preserving interference at yields, offset-exact and containing lookups; headers K2',
      'NameLUT is not under K1 contract (string-keyed dictionary built in a nested loop): covered by the bounded name-table differential (UTF-8 names, several sets); a bounded address-range differential (sets with padding, ranges starting at address 0, boundary probes) is the backstop of the K1 contracts of aranges.py; _parse_CU_at_offset is checked (unit header layout K2, DWARFStructs construction modelled); float ceil exact below 2^53; 32-bit DWARF sets; disjoint ranges assumed for the lookup')
claim('C15', 'proof', K1 + '; ' + K2 + '; ' + BD,
      'version records K2; entry and auxiliary chains by displacement (recursive offset spec), names via linked string table, requirement names, definition index resolution, versym entries, linked-section validation',
      'GNUVerNeedSection.get_version (searches every entry and auxiliary) and has_indexes (False only if every vna_other is 0; memoised) are under contract; a bounded differential over generated images (three version sections with padded chains, symbols, both classes and byte orders, queries in shuffled orders on fresh and used objects) covers the public methods end to end and keeps deciding when one is rewritten in a form the engine rejects')
claim('C20', 'proof', K1 + '; ' + K2 + '; ' + GR + '; ' + BD,
      'prel31; index entry classification and byte-code unpacking (all models, unbounded word loop); byte-code disassembler: every 1- and 2-byte instruction enumerated exhaustively against the EHABI 9.3 table; attribute value kinds per tag (ARM, RISC-V) incl. number lists by loop invariant; subsection and sub-subsection walkers by displacement with interference at yields',
      'ULEB operand of opcode 0xb2 and instruction sequences are bounded stand-ins (reported separately); _make_attributes walker and mnemonic text have no independent oracle; a bounded differential covers attribute sections with file/section/symbol sub-subsections (ARM, RISC-V) and exception index tables whose index entries share table entries, read in shuffled orders')
claim('C04', 'proof', K1 + '; ' + K2 + '; ' + BD,
      'K2: unit headers (v2-v5, every unit type), abbreviation declarations incl. implicit_const and the full form table per (format, address size, version) equal the DWARF layouts over the complete configuration space. K1 (all inputs): the parse of one entry (DIE._parse_DIE by step refinement: code, null entries, every attribute adjacent to the previous with name, offset, final form, raw value, indirection length; DW_FORM_indirect chains of any depth) over abstract form parsers; value translation (strings, flags, index forms with the unit\'s entry width and bases); unit header parse; the per-unit entry cache (sorted, duplicate free, exact), lookups by offset (rejects offsets outside the unit), children iteration proved against the structural tree specification (DW_AT_sibling shortcuts in unit-relative and section-relative forms give the same offsets on well-formed input); the same five contracts for version 4 type units (TypeUnit, derived mechanically from the CompileUnit contracts by renaming), type unit header parse and the type unit walk of .debug_types; reference resolution: the dispatch of DIE.get_DIE_from_attribute over the reference forms (unit-relative = unit offset + value within the own unit, section-relative passed unchanged, non-reference forms rejected) and DWARFInfo.get_DIE_from_refaddr (the entry at that offset of the containing unit); the signature map of .debug_types as a representation field (_parse_debug_types: every entry is a type unit parsed at its own offset whose header carries the key; get_TU_by_sig8; the version 4 path of get_DIE_by_sig8: the entry at type_offset of that unit, under the well-formedness precondition that type_offset designates a position at or after the first entry)',
      'DIE.__init__ enters the cache contracts as an ASSUMED die_at predicate (identified with _parse_DIE\'s contract on paper); abbreviation table lookups assumed (layout K2); the resolved attribute VALUE, _iter_DIE_subtree, get_parent, the scan of the version 5 type units inside get_DIE_by_sig8 (explored, not specified: the unit objects the unit walk yields carry no version 5 header members in the contract\'s view) are covered only by the bounded differentials (generated sections: 1-3 units of mixed parameters plus version 4 type units, every form incl. nested DW_FORM_indirect, trees of depth <= 4; reference resolution by every reference form incl. type signatures of v4 and v5 type units); termination of the recursive children walk not proved; Sem of construct node kinds assumed')
claim('C05', 'proof', K1 + '; ' + K2 + '; ' + BD,
      'K1 (all inputs): step refinement of LineProgram._decode_line_program against the DWARF 6.2.5 state machine: after every iteration each register, the emitted row and the next instruction offset are what the specification prescribes (special, standard incl. unknown standard opcodes skipped by standard_opcode_lengths, extended opcodes, VLIW op_index); K2: line program header v2-v5 incl. entry formats, file entries, form table',
      'header/extent handling in DWARFInfo._parse_line_program_at_offset and the v5 directory/file tables (entry formats varying per unit: inline, .debug_str and .debug_line_str paths, numeric forms, optional fields) are covered by the bounded differential only; the fold over the whole program follows from the step lemma by induction on the loop (composition argument in DESIGN 4, not machine checked); one recorded known finding (is_stmt of the end_sequence row)')
claim('C06', 'proof', K1 + '; ' + K2 + '; ' + BD,
      'K2: CIE (v1/3/4) and FDE headers over every configuration; K1 (all inputs): instruction decoding (_parse_instructions by step refinement against the operand-kind table of 6.4.2/7.24: opcode, operand count, operand values by kind, next offset, unknown opcodes rejected, walk up to end_offset), CIE lookup for an FDE (_parse_cie_for_fde: pointer arithmetic for .debug_frame and .eh_frame, position preserved), instruction naming; the parse of one entry (_parse_entry_at: cached entries, terminator, format from the first word, CIE/FDE discrimination by the identifier word, header members, link to the designated CIE, LSDA presence, extent of the instructions, entry cache as a representation field with its invariant), the .eh_frame FDE header (_parse_fde_header: initial location and range in the basic encoding the CIE records, absolute pointers without R, pcrel relative to the field), pointer encodings (_parse_lsda_pointer: nine basic encodings x absptr/pcrel), augmentation data (_parse_cie_augmentation for each augmentation string of the quantifier plus unknown letters, armcc and empty strings; _read_augmentation_data); bounded differential: entry walk (any interleaving incl. FDE before its CIE), every augmentation, and the decoded table incl. register order against a DWARF 6.4.2 interpreter',
      '_decode_CFI_table (the rule interpreter: a dictionary keyed by register numbers and names), the section scan _parse_entries, the position at which the instructions of an entry start and the value of the LSDA pointer inside _parse_entry_at are covered by the bounded differential only (every CFA opcode x configuration); augmentation strings are enumerated, not quantified; two defects were found and fixed (known_findings.json)')
claim('C07', 'proof', K1 + '; ' + K2 + '; ' + BD,
      'K2: v5 list unit headers, every DW_LLE/DW_RLE entry layout, counted location description, locview pair. K1 (all inputs): pre-v5 range and location list walks return exactly the encoded entries up to the (0,0) terminator (kind, begin/end or base address, expression bytes, offset, length); every v5 entry translator and the translation of a whole v5 list (map rule, table dispatch proved per kind) with indexed addresses resolved through the unit\'s address table (get_addr checked); access by section offset and by index through the offset table (entry width from the unit\'s format); unit blocks of the v5 sections and the raw lists of a block; location view pairs; section pair dispatch by unit version; attribute classification',
      'iter_range_lists / iter_location_lists (enumeration by scanning the debugging entries) are not under K1 contract: covered by the bounded enumeration differential (designated lists separated by gaps, trailing gaps, unit blocks without designated lists; found and fixed a defect); the end-to-end list differential covers access by offset/index and the unit blocks; DIE.__init__ assumed for the root entry that carries the base attributes; decoded v5 entries are the K1 abstraction of the K2-checked layout (count/fields as functions of bytes and offset)')
claim('C10', 'proof', K1 + '; ' + BD,
      'lazily built caches are representation fields with object invariants: only their owner functions touch them (enforced by the verifier), every owner re-establishes the invariant at exit and at every yield, and owners\' results are functions of (section bytes, arguments) whatever the cache holds (unit cache: _cached_CU_at_offset, get_CU_at, get_CU_containing, _parse_CUs_iter with interference at yields; entry cache: get_top_DIE, _get_cached_DIE, get_DIE_from_refaddr, iter_DIE_children); stream positions are havocked at every call and yield in all K1 contracts, so every proved postcondition holds for any position the previous query left',
      'the whole-history statement (any finite sequence of queries) follows from per-operation invariant preservation by induction over the history; that induction is not machine checked. Section-name and symbol-name maps, abbreviation and line-program caches, decoded call-frame tables are covered only by the bounded history differentials (entry queries, call-frame decode orders)')
claim('C11', 'proof', K2 + '; ' + K1 + '; ' + BD,
      'K2: debuglink (padding lambda proved), debugsup, debugaltlink structs; K1 (all inputs): Section.__init__/Section.data (gABI compression: header, declared-size check, zlib) ; bounded differential: one generated payload stored plainly, SHF_COMPRESSED (levels 1/6/9, partial), in the legacy .zdebug framing and behind a gnu_debuglink with right/wrong checksum, both classes and byte orders: identical units/entries/section contents, presence reporting, rejection of a wrong checksum and of a wrong declared size',
      'get_dwarf_info / _read_dwarf_section / _decompress_dwarf_section / _file_crc32 are NOT under K1 contract (19-section loop, streaming zlib): covered by the bounded differential only; supplementary-file links exercised with main payloads of versions 2-4 only (no *_sup form operands); zlib assumed; Sem of construct node kinds assumed')
claim('C12', 'proof', K1 + '; ' + K2 + '; ' + BD,
      'dispatch table of the expression parser: for every DW_OP code the registered parser reads exactly the operand kinds DWARF v5 7.7.1 / GNU extensions prescribe (closure analysis of the real table + replay of each parser on concrete operands); the name map is the inverse of the code map and every operation has the opcode number the registries assign (LLVM Dwarf.def; the GNU vendor block from a cited hand transcription)',
      'the parse loop (DWARFExprParser.parse_expr: opcode, offset and operand bookkeeping, whole string consumed) is K1-proved for every byte string over ABSTRACT operand parsers (end/args functions of bytes, position, opcode); what each real table entry reads is the K2 conformance obligation per opcode; nested entry-value expressions and the composition of the two are covered by the bounded sample')

claim('C19', 'proof', K1 + '; bounded fault injection (labelled bounded, never counted as proved)',
      'K1 (all byte strings): ELFFile.__init__ either returns -- with the header decoded at offset 0 in the class and byte order e_ident announces and the invariants the other contracts assume -- or raises ELFError (ELFParseError is a subclass): every path of the real constructor, _identify_file, header fetch, extended string-table index and the compressed string-table header is explored; termination with an iteration bound linear in the file size is proved by loop variants for the dynamic tag walk, note walk, version-record chains (after the repair recorded in known_findings.json: a zero displacement ends the chain whatever the counts say), GNU/SysV hash symbol counts, RELR expansion and the section/segment/symbol enumerations under contract',
      'ELFStructs.create_basic_structs/create_advanced_structs are assumed not to raise (K2 runs them in every configuration); memory bounds are not expressible as contracts and are covered only indirectly (iteration bounds); the enumeration battery as a whole is exercised by the bounded fault injection (truncations, header byte substitutions, byte substitutions in the section-header, program-header, dynamic, note, hash and version records, random corruptions of 8 seed files, 30 s CPU-time limit per case); two constructor defects and one unbounded record walk were found and fixed (known_findings.json)')

NOT_YET = 'not yet built in this round (DESIGN.md section 9 gives the order of work)'
NA = {
    'C18': 'oracle is the text output of GNU readelf, a third-party binary; no contract over the real code expresses it (DESIGN.md section 5)',
}


def main():
    props = [json.loads(l) for l in open(os.path.join(ROOT, 'properties.jsonl'))]
    checks, na = [], []
    for p in props:
        pid = p['id']
        if pid in CLAIMS:
            cat, tech, text, note = CLAIMS[pid]
            checks.append(dict(
                property_id=pid,
                quick_cmd='./check %s --tier quick' % pid,
                thorough_cmd='./check %s --tier thorough' % pid,
                evidence_file='evidence/%s.json' % pid,
                replay_cmd_template='./check %s --replay {path}' % pid,
                engine='pyvc',
                level_claimed=dict(category=cat, text=text, design_ref='DESIGN.md section 4 (%s) and section 11' % pid),
                level_note=note,
                technique=tech))
        else:
            na.append(dict(property_id=pid, reason=NA.get(pid, NOT_YET)))
    m = dict(
        version=1,
        setup_cmd='python3-vt -c "import z3, sys; sys.path.insert(0, \'.\'); import pyvc" && mkdir -p evidence replays',
        hooks=dict(guard='ELIBEN_PYELFTOOLS_VERIF',
                   enable='no source hooks: contracts are sidecar files under /verif/contracts; the verifier reads /repo\'s working tree (VERIF_REPO overrides the path)',
                   baseline_off_cmd='cd /repo && /venv/bin/python -m pytest -ra -q -p no:cacheprovider --timeout=900 --continue-on-collection-errors',
                   source_commits=[], add_only=True),
        engines=[dict(name='pyvc', path='/verif/pyvc', serves_properties=sorted(CLAIMS),
                      kind_free_text='verification-condition generator over the real Python ASTs of /repo with sidecar contracts (z3; cvc5 second opinion), K2 structure obligations on the real construct trees over complete configuration spaces, ground obligations by evaluation, native replay of counterexamples')],
        checks=checks,
        notes='fix: commits in /repo (genuine defects found by the obligations) are listed in known_findings.json with status fixed; they suppress nothing',
        not_applicable=na)
    json.dump(m, open(os.path.join(ROOT, 'MANIFEST.json'), 'w'), indent=1)
    try:
        import jsonschema
        jsonschema.validate(m, json.load(open('/root/.vp/MANIFEST.schema.json')))
        print('MANIFEST valid: %d checks, %d not_applicable' % (len(checks), len(na)))
    except ImportError:
        print('written (jsonschema not available)')


if __name__ == '__main__':
    main()
