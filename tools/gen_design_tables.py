#!/usr/bin/env python3
"""Emits the generated parts of DESIGN.md section 11 (what is under contract per property, assumed
contracts, bounded stand-ins, catch matrix) from the contract registry, evidence/*.json and
seeded/MATRIX.json, and splices them between the AUTO markers of DESIGN.md."""
import json
import os
import re
import sys

ROOT = os.path.dirname(os.path.dirname(os.path.abspath(__file__)))
sys.path.insert(0, ROOT)


def as_built():
    from pyvc import contracts
    contracts.load_all()
    props = [json.loads(l)['id'] for l in open(os.path.join(ROOT, 'properties.jsonl'))]
    out = []
    for p in props:
        evp = os.path.join(ROOT, 'evidence', p + '.json')
        if not os.path.exists(evp):
            continue
        ev = json.load(open(evp))
        cov = ev['coverage']
        cs = contracts.BY_PROP.get(p, [])
        checked = sorted('%s' % c.qualname for c in cs if c.mode == 'check' and not c.inline)
        assumed = sorted('%s' % c.qualname for c in cs if c.mode == 'assume')
        inline = sorted('%s' % c.qualname for c in cs if c.inline)
        fns = cov.get('functions_under_contract', [])
        bounded = sorted({f['function'] for f in fns if f.get('bounded')})
        kinds = {}
        for s in cov.get('samples', []):
            pass
        out.append('**%s** — %d obligations discharged (%s), %d bounded stand-in obligations, solver time %.0f s.' % (
            p, cov['discharged'], ', '.join('%s: %d' % kv for kv in sorted(cov.get('discharged_by_backend', {}).items())),
            cov.get('bounded_obligations', 0), cov.get('solver_time_s', 0)))
        if checked:
            out.append('  - K1 contracts checked on the real source (%d): %s' % (len(checked), ', '.join('`%s`' % x for x in checked)))
        if inline:
            out.append('  - executed from their real body at call sites (inline, %d): %s' % (len(inline), ', '.join('`%s`' % x for x in inline)))
        if assumed:
            out.append('  - ASSUMED contracts (used at call sites, not verified; %d): %s' % (len(assumed), ', '.join('`%s`' % x for x in assumed)))
        if bounded:
            out.append('  - bounded stand-ins: %s' % '; '.join(bounded))
        out.append('')
    return '\n'.join(out)


def matrix():
    mp = os.path.join(ROOT, 'seeded', 'MATRIX.json')
    if not os.path.exists(mp):
        return '(no seeded changes confirmed yet)'
    m = json.load(open(mp))
    rows = ['| id | what was changed (sub-agent summary, shortened) | kept | check: exit | obligations that fired |', '|---|---|---|---|---|']
    for k in sorted(m):
        r = m[k]
        summ = (r.get('summary') or '').replace('|', '/').replace('\n', ' ')
        summ = summ[:170] + ('…' if len(summ) > 170 else '')
        if not r.get('applies'):
            rows.append('| %s | %s | no | — | %s |' % (k, summ, (r.get('note') or '')[:120].replace('|', '/')))
            continue
        ch = r.get('checks') or {}
        exits = ', '.join('%s: %d' % (c, v['exit']) for c, v in sorted(ch.items()))
        fired = '; '.join(v['violations'][0] for c, v in sorted(ch.items()) if v['violations'])[:170].replace('|', '/')
        rows.append('| %s%s | %s | %s | %s | %s |' % (k, ' (adapted)' if r.get('adapted') else '', summ, 'yes' if r.get('kept') else 'no (demo/suite not confirmed)',
                                                  exits, fired or '—'))
    n = sum(1 for r in m.values() if r.get('kept'))
    c = sum(1 for r in m.values() if r.get('kept') and r.get('caught'))
    rows.append('')
    rows.append('%d changes confirmed and kept under /verif/seeded/, %d of them make their check exit 1 with a VIOLATION line; '
                'the others are discussed below the table.' % (n, c))
    return '\n'.join(rows)


def splice(text, name, body):
    a, b = '<!-- BEGIN AUTO:%s -->' % name, '<!-- END AUTO:%s -->' % name
    if a not in text:
        return text
    i, j = text.index(a) + len(a), text.index(b)
    return text[:i] + '\n' + body + '\n' + text[j:]


def main():
    p = os.path.join(ROOT, 'DESIGN.md')
    t = open(p).read()
    t = splice(t, 'as-built', as_built())
    t = splice(t, 'matrix', matrix())
    open(p, 'w').write(t)
    print('DESIGN.md tables regenerated')


if __name__ == '__main__':
    main()
