#!/bin/sh
# usage: tools/try_mutant.sh <patch.diff> <PROP> [extra check args]
# applies the patch to a scratch copy of /repo (outside /repo and /verif), runs the check against it, removes the copy
set -e
PATCH=$(readlink -f "$1"); PROP=$2; shift 2
D=$(mktemp -d /tmp/vmut.XXXXXX)
cp -r /repo/elftools "$D/"
( cd "$D" && patch -s -p1 < "$PATCH" )
cd /verif
set +e
VERIF_REPO="$D" VERIF_OUT="$D/out" ./check "$PROP" "$@"
RC=$?
rm -rf "$D"
echo "mutant-exit=$RC"
exit 0
