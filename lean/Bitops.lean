import Mathlib.Data.Nat.Bitwise

/-!
Lemma behind the rewrite rule `mask-test-two-bits` of pyvc (pyvc/verify.py, ground_facts): a word contains the mask
`2^a ||| 2^b` exactly when bit a and bit b of the word are set.  Used for the GNU hash bloom filter test
(`(word & BITMASK) == BITMASK` with `BITMASK = (1 << a) | (1 << b)`), for ALL natural numbers: no width bound.
Checked by `lean` on every run of C03 (tasks/lemmas.py); no sorry, no axioms.
-/

theorem mask_test_two_bits (x a b : Nat) :
    (x &&& (2 ^ a ||| 2 ^ b) = (2 ^ a ||| 2 ^ b)) ↔ ((x / 2 ^ a) % 2 = 1 ∧ (x / 2 ^ b) % 2 = 1) := by
  have h1 : ∀ k, (x / 2 ^ k) % 2 = 1 ↔ x.testBit k = true := by
    intro k
    rw [Nat.testBit_eq_decide_div_mod_eq]
    simp
  rw [h1 a, h1 b]
  constructor
  · intro h
    have ha := congrArg (fun n => Nat.testBit n a) h
    have hb := congrArg (fun n => Nat.testBit n b) h
    simp [Nat.testBit_and, Nat.testBit_or, Nat.testBit_two_pow_self] at ha hb
    exact ⟨ha, hb⟩
  · intro ⟨ha, hb⟩
    apply Nat.eq_of_testBit_eq
    intro i
    simp only [Nat.testBit_and, Nat.testBit_or, Nat.testBit_two_pow]
    by_cases hia : a = i <;> by_cases hib : b = i <;> simp_all
