/-
Meta-lemmas that lift the per-operation / per-iteration obligations discharged by pyvc to the
whole-history (C10) and whole-program (C05, C14, C08 RELR, ...) statements.  No Mathlib.

`history_independent`: if every operation of an API preserves an invariant of the (hidden) state --
caches, stream positions -- and, from any state satisfying the invariant, returns the answer that a
specification computes from the operation alone (i.e. from the file bytes and the arguments), then
after ANY finite history of operations every operation still returns the specified answer; in
particular the same answer as on a freshly opened object (which satisfies the invariant).

`fold_refines`: if one step of the implementation, started in a state related to a specification
state, ends in a state related to the specification's step (step refinement), then running any
finite program from related states ends in related states.
-/

namespace Pyvc

/-- run a history of operations, dropping the answers -/
def run {S Op Ans : Type} (step : S → Op → S × Ans) : S → List Op → S
  | s, [] => s
  | s, o :: os => run step (step s o).1 os

theorem inv_run {S Op Ans : Type} (step : S → Op → S × Ans) (Inv : S → Prop)
    (h_pres : ∀ s o, Inv s → Inv (step s o).1) :
    ∀ (ops : List Op) (s : S), Inv s → Inv (run step s ops) := by
  intro ops
  induction ops with
  | nil => intro s h; exact h
  | cons o os ih => intro s h; exact ih _ (h_pres s o h)

theorem history_independent {S Op Ans : Type} (step : S → Op → S × Ans) (Inv : S → Prop)
    (spec : Op → Ans)
    (h_pres : ∀ s o, Inv s → Inv (step s o).1)
    (h_ans : ∀ s o, Inv s → (step s o).2 = spec o) :
    ∀ (ops : List Op) (s : S), Inv s → ∀ o, (step (run step s ops) o).2 = spec o := by
  intro ops s h o
  exact h_ans _ o (inv_run step Inv h_pres ops s h)

/-- two objects over the same bytes, one fresh and one with an arbitrary history, agree on every query -/
theorem same_as_fresh {S Op Ans : Type} (step : S → Op → S × Ans) (Inv : S → Prop)
    (spec : Op → Ans)
    (h_pres : ∀ s o, Inv s → Inv (step s o).1)
    (h_ans : ∀ s o, Inv s → (step s o).2 = spec o)
    (fresh used : S) (hf : Inv fresh) (hu : Inv used) (ops : List Op) (o : Op) :
    (step (run step used ops) o).2 = (step fresh o).2 := by
  rw [history_independent step Inv spec h_pres h_ans ops used hu o, h_ans fresh o hf]

theorem fold_refines {σ τ ι : Type} (impl : σ → ι → σ) (spec : τ → ι → τ) (R : σ → τ → Prop)
    (h : ∀ s t i, R s t → R (impl s i) (spec t i)) :
    ∀ (is : List ι) (s : σ) (t : τ), R s t → R (is.foldl impl s) (is.foldl spec t) := by
  intro is
  induction is with
  | nil => intro s t hr; exact hr
  | cons i rest ih => intro s t hr; exact ih _ _ (h s t i hr)

end Pyvc
