"""K1 driver: generate and discharge the verification conditions of one contract."""
import ast
import importlib
import time
import traceback
import z3

from . import extract, bitops
from .calls import Calls
from .methods import ValueMethods
from .contracts import REGISTRY
from .ctx import Ctx, PathEnd, Unsupported, ReturnEx, BreakEx, ContinueEx, PyExc
from .vals import to_int as to_int_
from .interp import Frame, assigned_names, exc_subclass, register_exc_classes, _MISSING
from .stmts import Exec, gsub
from .vals import (is_sym, to_int, SStream, SObj, SRec, SBytes, Code, SList, IntS)

MAX_PATHS = 4000


class Models(Calls, ValueMethods):
    pass


class Result:
    def __init__(self, contract):
        self.contract = contract
        self.obligations = []      # dicts
        self.error = None          # checker error text
        self.paths = 0
        self.pre_ok = 0
        self.normal_exits = 0
        self.exc_exits = {}
        self.assumptions = set()
        self.bounded = False
        self.src = None
        self.wall = 0.0
        self.rules = {}

    def to_json(self):
        return dict(key='%s:%s' % self.contract.key, error=self.error, paths=self.paths,
                    normal_exits=self.normal_exits, exc_exits=self.exc_exits,
                    assumptions=sorted(self.assumptions), bounded=self.bounded, src=self.src,
                    wall=round(self.wall, 3), obligations=self.obligations, rules=self.rules,
                    props=self.contract.props, mode=self.contract.mode,
                    expects_return=bool(self.contract.ensures or self.contract.returns is not None or self.contract.each_yield
                                        or self.contract.result_expr is not None),
                    contract_file=self.contract.source_file)


def local_alias(c, src):
    """{name the contract uses: name the code uses now} when the function differs from the committed baseline only by a
    consistent renaming of locals (same alpha-normalised hash, different names)"""
    import json
    import os
    try:
        base = json.load(open(os.path.join(os.path.dirname(os.path.dirname(os.path.abspath(__file__))), 'baseline_counts.json')))
    except Exception:
        return {}
    key = '%s:%s' % (c.relpath, c.qualname)
    for prop, fns in base.items():
        b = fns.get(key)
        if b and b.get('alpha') == src.get('alpha') and b.get('locals') and b['locals'] != src.get('locals') \
                and len(b['locals']) == len(src['locals']):
            return {old: new for old, new in zip(b['locals'], src['locals']) if old != new}
    return {}


def collect(c, registry=None, timeout_ms=10000):
    """symbolically execute the real function against contract c"""
    registry = registry if registry is not None else REGISTRY
    register_exc_classes()
    res = Result(c)
    t0 = time.time()
    try:
        fn = extract.find(c.relpath, c.qualname)
        res.src = dict(file=c.relpath, qualname=c.qualname, line=fn.lineno,
                       end_line=getattr(fn, 'end_lineno', None), hash=extract.body_hash(c.relpath, fn))
        alias = {}
        try:
            ah, names = extract.alpha_form(fn)
            res.src['alpha'], res.src['locals'] = ah, names
            alias = local_alias(c, res.src)
            if alias:
                res.assumptions.add('locals renamed since the committed baseline (the function is otherwise identical): the contract follows '
                                    'the renaming %r' % (alias,))
        except Exception:
            alias = {}
        module = importlib.import_module(extract.module_name(c.relpath))
        loops = extract.loops_of(fn)
        ordinals = {id(l): i for i, l in enumerate(loops)}
        for k in c.loops:
            if not (isinstance(k, int) and 0 <= k < len(loops)):
                raise Unsupported('contract names loop #%s but %s has %d loops' % (k, c.qualname, len(loops)))
        models = Models(registry)
        pending = [[]]
        seen = {}
        while pending:
            prefix = pending.pop()
            res.paths += 1
            if res.paths > MAX_PATHS:
                raise Unsupported('path limit %d exceeded' % MAX_PATHS)
            ctx = Ctx(prefix, pending)
            I = Exec(ctx, module, registry, c, models=models)
            ctx.interp = I
            I.calls = models
            I.loop_specs = dict(c.loops)
            I.loop_ordinals = ordinals
            I.comp_ordinals = {id(n): i for i, n in enumerate(extract.comps_of(fn))}
            I.comp_specs = dict(getattr(c, 'maps', {}) or {})
            I.local_defs = {n.name: n for n in ast.walk(fn) if isinstance(n, ast.FunctionDef) and n is not fn}
            I.func_lineno = fn.lineno
            I.relpath, I.qualname = c.relpath, c.qualname
            I.bounded_used = False
            I.local_alias = alias
            run_path(I, c, fn, module, res)
            res.assumptions |= I.assumptions
            res.bounded = res.bounded or I.bounded_used
            for ob in ctx.obligations:
                k = ob.key()
                if k not in seen:
                    seen[k] = ob
        if res.pre_ok == 0:
            raise Unsupported('precondition of %s is unsatisfiable on every path (vacuous contract)' % c.qualname)
        for (callee, where), (okc, dead, text) in sorted(getattr(models, 'site_stats', {}).items(), key=str):
            if dead and not okc:
                raise Unsupported('every path dies at the call of %s (line %s): its postcondition %r is false there -- the contract of the '
                                  'callee does not fit this call and everything after it would be vacuous' % (callee, where, text[:80]))
        res.rules = dict(bitops.RULES_FIRED)
        obs = list(seen.values())
        res._obs = obs
    except Unsupported as e:
        res.error = 'unsupported: %s' % e
    except extract.ExtractError as e:
        res.error = 'extract: %s' % e
    except Exception as e:
        res.error = 'crash: %s\n%s' % (e, traceback.format_exc())
    res.wall = time.time() - t0
    return res


def run_path(I, c, fn, module, res):
    ctx = I.ctx
    try:
        from .vals import SFunc
        sf = SFunc(fn, None, c.qualname, module)
        fr = Frame({}, None, func=sf)
        a = fn.args
        params = [x.arg for x in a.posonlyargs + a.args] + [x.arg for x in a.kwonlyargs]
        if a.vararg:
            params.append(a.vararg.arg)
        if a.kwarg:
            params.append(a.kwarg.arg)
        shapes = c.params or {}
        from .shapes import SameAs
        for p in params:
            if p in shapes:
                if not isinstance(shapes[p], SameAs):
                    fr.env[p] = shapes[p].make(ctx, p)
            else:
                raise Unsupported('contract for %s gives no shape for parameter %s' % (c.qualname, p))
        for p in params:
            if isinstance(shapes[p], SameAs):
                fr.env[p] = I.pure_eval(shapes[p].path, fr)
        for p, s in shapes.items():
            if p not in params and not p.startswith('$'):
                raise Unsupported('contract names parameter %s which %s does not have' % (p, c.qualname))
        fr.locals_assigned = assigned_names(fn)
        for i in range(len(extract.loops_of(fn))):
            I.ghost['_G_k%d' % i] = 0          # loop counters read 0 before their loop is reached
        for g, e in c.ghost.items():
            I.ghost[gsub(g)] = I.pure_eval(e, fr)
        for r in c.requires:
            ctx.assume(I.as_goal(I.pure_eval(r, fr)))
        for f in c.facts:
            ctx.assume(f)
        for a in getattr(c, 'axioms', []):
            ctx.assume(I.as_goal(I.pure_eval(a, fr)))
            I.assumptions.add('definitional axiom of a specification function assumed in %s: %s' % (c.qualname, a))
        if not ctx.feasible(z3.BoolVal(True)):
            raise PathEnd()
        res.pre_ok += 1
        old = I.calls.snapshot_frame(I, fr)
        # postconditions speak about the parameters' entry references (a local rebinding of a
        # parameter name inside the body is invisible to the contract)
        pf = Frame(dict(fr.env), None, func=sf)
        I.old_frame_entry = old
        I.old_frame = old
        is_gen = any(isinstance(n, (ast.Yield, ast.YieldFrom)) for n in ast.walk(fn))
        if is_gen:
            I.ghost['_G_n'] = 0

            def on_yield(v, node):
                prev = I.old_frame
                I.old_frame = old
                try:
                    # parameters: entry references; other names: the live locals at the yield
                    yf = Frame(dict(pf.env), I.live_frame(node) or fr, func=sf)
                    for i, e in enumerate(c.each_yield):
                        g = I.goal(e, yf, {'value': v})
                        ctx.oblige(I.oname('yield', node.lineno, i), g, 'yield', node.lineno)
                finally:
                    I.old_frame = prev
                I.ghost['_G_n'] = I.ghost['_G_n'] + 1
                # shared lazily-built state: must satisfy its representation invariant when control is
                # handed to the consumer, and may be in any state satisfying it when the generator resumes
                for i, e in enumerate(c.yield_invariant):
                    ctx.oblige(I.oname('yield-inv', node.lineno, i), I.as_goal(I.pure_eval(e, pf)), 'yield', node.lineno)
                for path in c.yield_havoc:
                    if path == '*rep':
                        # control goes to the consumer, who may run any query: every object invariant must
                        # hold here, and the caches may be in any state satisfying them on resumption
                        for j, (opath, obj) in enumerate(I.models.rep_objects(pf)):
                            for i, t in enumerate(getattr(obj, 'inv_texts', ())):
                                ctx.oblige(I.oname('yield-rep-inv[%s]' % opath, node.lineno, i),
                                           I.goal(gsub(t), Frame({'self': obj}, None)), 'yield', node.lineno)
                        I.models.havoc_reps(I, pf)
                        continue
                    I.havoc_path(path, pf, getattr(c, 'havoc_shapes', {}))
                for e in c.yield_invariant:
                    ctx.assume(I.as_goal(I.pure_eval(e, pf)))
                if c.interference:
                    for st in I.models.reachable_streams(fr):
                        st.pos = ctx.const(st.name + '.pos!y', IntS)
                        ctx.assume(st.pos >= 0)
            I.yield_hook = on_yield
        outcome = None
        try:
            if isinstance(fn, ast.Lambda):
                raise ReturnEx(I.ev(fn.body, fr))
            I.block(fn.body, fr)
            outcome = ('return', None, getattr(fn, 'end_lineno', fn.lineno))
        except ReturnEx as r:
            outcome = ('return', r.value, None)
        except PyExc as e:
            outcome = ('raise', e, None)
        except (BreakEx, ContinueEx):
            raise Unsupported('break/continue outside loop')
        I.old_frame = old
        if outcome[0] == 'return':
            res.normal_exits += 1
            result = outcome[1]
            # final_<name>: the value a parameter or local name holds at exit (a parameter rebound in the body, a callee's
            # result kept in a local); only meaningful in '@check' clauses, call sites cannot see it
            xtra = {'result': result}
            for p in list(fr.env):
                if isinstance(p, str) and p.isidentifier():
                    xtra['final_' + p] = fr.env[p]      # parameters as rebound and plain locals, at exit
            for i, e in enumerate(c.ensures):
                g = I.goal(e, pf, xtra)
                ctx.oblige(I.oname('post', None, i), g, 'post')
            for k, (cond, e) in c.sets_if.items():
                slf = pf.env.get('self')
                cnd = I.as_goal(I.pure_eval(cond, old))
                if k in slf.attrs:
                    g = z3.Implies(cnd, I.as_goal(I.equal(slf.attrs[k], I.pure_eval(e, old))))
                else:
                    g = z3.Not(cnd)
                ctx.oblige(I.oname('sets-if[%s]' % k, None), g, 'post')
            if c.result_expr is not None:
                want = I.pure_eval(c.result_expr, pf)
                ctx.oblige(I.oname('post-result', None), I.as_goal(I.equal(result, want)), 'post')
            for k, e in c.sets.items():
                slf = pf.env.get('self')
                if k not in slf.attrs:
                    ctx.oblige(I.oname('sets[%s]' % k, None), z3.BoolVal(False), 'post')
                    continue
                want = I.pure_eval(e, old)
                from .vals import SStream as _SS, SObj as _SO
                if isinstance(want, (_SS, _SO)):
                    # a reference: the attribute must be the very object the entry state designates
                    g = z3.BoolVal(slf.attrs[k] is I.pure_eval(e, pf))
                else:
                    g = I.as_goal(I.equal(slf.attrs[k], want))
                ctx.oblige(I.oname('sets[%s]' % k, None), g, 'post')
            for cls, cond in list(c.raises.items()) + list(c.own_raises.items()):
                g = I.as_goal(I.pure_eval(cond, old))
                ctx.oblige(I.oname('raises-iff[%s]' % cls, None), z3.Not(g), 'raises')
            if getattr(c, 'pure_fn', False):
                # declared pure: every stream reachable from the parameters is where it was
                for st_old, st_new in zip(I.models.reachable_streams(old), I.models.reachable_streams(pf)):
                    ctx.oblige(I.oname('pure[%s.pos]' % st_new.name, None), to_int_(st_new.pos) == to_int_(st_old.pos), 'post')
            # frame: state reachable from the parameters that differs from the entry state must be
            # declared (modifies / sets / yield_havoc); callers rely on everything else being unchanged
            declared = set(c.modifies) | set(c.yield_havoc) | {'self.' + k for k in list(c.sets) + list(c.sets_if) + list(c.sets_shape)}
            reps = []
            for path in changed_paths(old, pf, reps):
                if '*rep' in declared and any(path == op + '.' + k or path.startswith(op + '.' + k + '[') or path.startswith(op + '.' + k + '.')
                                              for op, ob in reps for k in getattr(ob, 'rep', ())):
                    continue           # lazily built caches may change (declared wholesale); invariants checked below
                if not any(path == d or path.startswith(d + '.') or path.startswith(d + '[') for d in declared):
                    ctx.oblige(I.oname('frame[%s]' % path, None), z3.BoolVal(False), 'post',
                               extra='the function changes %s, which its contract does not declare (modifies/sets)' % path)
            # representation fields changed (through their owners): the object invariant holds again at exit
            done = set()
            for opath, obj in reps:
                if id(obj) in done:
                    continue
                done.add(id(obj))
                for i, t in enumerate(getattr(obj, 'inv_texts', ())):
                    ctx.oblige(I.oname('rep-inv[%s]' % opath, None, i), I.goal(gsub(t), Frame({'self': obj}, None)), 'post')
        else:
            e = outcome[1]
            res.exc_exits[e.cls] = res.exc_exits.get(e.cls, 0) + 1
            matched = False
            from_callee = str(getattr(e, 'why', '') or '').startswith('from ')
            for cls, cond in c.own_raises.items():
                # raised by this function's own statements (a contracted callee's exceptions fall under may_raise)
                if exc_subclass(e.cls, cls) and not from_callee:
                    matched = True
                    g = I.as_goal(I.pure_eval(cond, old))
                    ctx.oblige(I.oname('raises-only-if[%s]' % cls, e.line), g, 'raises', e.line)
                    break
            for cls, cond in ({} if matched else c.raises).items():
                if exc_subclass(e.cls, cls):
                    matched = True
                    g = I.as_goal(I.pure_eval(cond, old))
                    ctx.oblige(I.oname('raises-only-if[%s]' % cls, e.line), g, 'raises', e.line)
                    break
            if not matched:
                for cls in c.may_raise:
                    if exc_subclass(e.cls, cls):
                        matched = True
                        break
            if not matched:
                ctx.oblige(I.oname('safety:no-%s' % e.cls, e.line), z3.BoolVal(False), 'safety', e.line,
                           extra=e.why)
    except PathEnd:
        pass


def changed_paths(old, new, reps=None):
    """attribute paths (from the parameters) whose value at exit differs syntactically from the
    entry snapshot; stream positions are not state a caller may rely on (havocked at every call)"""
    from .vals import SObj, SRec, SStream, SList, SDict, SBytes, Code, SOpt
    out, seen = [], set()

    def same_leaf(a, b):
        if a is b:
            return True
        if z3.is_expr(a) and z3.is_expr(b):
            return a.eq(b)
        if isinstance(a, Code) and isinstance(b, Code):
            return same_leaf(a.isname, b.isname) and same_leaf(a.name, b.name) and same_leaf(a.raw, b.raw)
        if isinstance(a, SBytes) and isinstance(b, SBytes):
            return same_leaf(a.arr, b.arr) and same_leaf(a.off, b.off) and same_leaf(a.n, b.n)
        if isinstance(a, (int, str, bytes, bool, type(None), float)) and isinstance(b, (int, str, bytes, bool, type(None), float)):
            return type(a) is type(b) and a == b
        return None

    def walk(a, b, path):
        if (id(a), id(b)) in seen:
            return
        seen.add((id(a), id(b)))
        if isinstance(a, SObj) and isinstance(b, SObj):
            for k in b.attrs:
                if k not in a.attrs:
                    continue          # a new attribute: no caller holds a view of it
                if k in getattr(b, 'rep', ()):
                    n0 = len(out)
                    walk(a.attrs[k], b.attrs[k], path + '.' + k)
                    if len(out) > n0 and reps is not None:
                        reps.append((path, b))    # representation field changed: the invariant is checked at exit
                    continue
                walk(a.attrs[k], b.attrs[k], path + '.' + k)
            return
        if isinstance(a, SRec) and isinstance(b, SRec):
            for k in b.fields:
                if k in a.fields:
                    walk(a.fields[k], b.fields[k], path + '.' + k)
            return
        if isinstance(a, SStream) and isinstance(b, SStream):
            if not same_leaf(a.arr, b.arr) or not same_leaf(a.length, b.length):
                out.append(path + '.B')
            return
        if isinstance(a, SList) and isinstance(b, SList):
            if a.elem is not b.elem or same_leaf(a.n, b.n) is False:
                out.append(path)
            return
        if isinstance(a, SDict) and isinstance(b, SDict):
            if a.has is not b.has or a.get is not b.get:
                out.append(path)
            return
        if isinstance(a, list) and isinstance(b, list):
            if len(a) != len(b):
                out.append(path)
                return
            for i, (x, y) in enumerate(zip(a, b)):
                walk(x, y, '%s[%d]' % (path, i))
            return
        if isinstance(a, dict) and isinstance(b, dict):
            if set(a) != set(b):
                out.append(path)
                return
            for k in a:
                walk(a[k], b[k], '%s[%r]' % (path, k))
            return
        if isinstance(a, SOpt) and isinstance(b, SOpt):
            if same_leaf(a.isnone, b.isnone) is False:
                out.append(path)
            else:
                walk(a.val, b.val, path)
            return
        r = same_leaf(a, b)
        if r is False or (r is None and type(a) is not type(b)):
            out.append(path)
    for p in new.env:
        if p in old.env:
            walk(old.env[p], new.env[p], p)
    return out


# ------------------------------------------------------------------ discharge
RECDEFS = {}       # name -> callable(app term) -> list of ground unfolding facts


FORWARD = set()    # recursive specs whose successor term (last argument + 1) is unfolded too


def register_recdef(name, unfold, forward=False):
    RECDEFS[name] = unfold
    if forward:
        FORWARD.add(name)


def _walk(fs):
    seen = set()
    stack = list(fs)
    while stack:
        t = stack.pop()
        if not z3.is_expr(t):
            continue
        i = t.get_id()
        if i in seen:
            continue
        seen.add(i)
        yield t
        if z3.is_quantifier(t):
            stack.append(t.body())
        else:
            stack.extend(t.children())


def _has_var(t):
    for x in _walk([t]):
        if z3.is_var(x):
            return True
    return False


def ground_facts(fs, byte_arrays=()):
    """ground instances of the background axioms at the terms that occur:
    pow2 (positivity, doubling between occurring exponents), byte ranges of
    registered byte arrays, one-step unfolding of recursive spec functions."""
    facts = []
    pow_args, selects, recapps = [], [], []
    ba_ids = set(a.get_id() for a in byte_arrays)
    for t in _walk(fs):
        if z3.is_app(t):
            k = t.decl().kind()
            n = t.decl().name()
            if k == z3.Z3_OP_UNINTERPRETED and n == 'pow2' and t.num_args() == 1:
                pow_args.append(t.arg(0))
            elif k == z3.Z3_OP_SELECT:
                selects.append(t)
            elif k == z3.Z3_OP_UNINTERPRETED and n in RECDEFS:
                recapps.append(t)
    succ = []
    for t in recapps:
        if not _has_var(t) and t.decl().name() in FORWARD:
            # the definition at the next index: needed when the successor only appears under a
            # quantifier (entry j's length is off(j+1) - off(j))
            a = [t.arg(i) for i in range(t.num_args())]
            succ.append(t.decl()(*(a[:-1] + [z3.simplify(a[-1] + 1)])))
    have = {t.get_id() for t in recapps}
    recapps = recapps + [t for t in succ if t.get_id() not in have]
    for t in recapps:
        if _has_var(t):
            continue
        new = RECDEFS[t.decl().name()](t)
        facts.extend(new)
        for u in _walk(new):
            if z3.is_app(u) and u.decl().kind() == z3.Z3_OP_UNINTERPRETED and u.decl().name() == 'pow2':
                pow_args.append(u.arg(0))
            elif z3.is_app(u) and u.decl().kind() == z3.Z3_OP_SELECT:
                selects.append(u)
    pa = []
    seen = set()
    for a in pow_args:
        if _has_var(a) or a.get_id() in seen:
            continue
        seen.add(a.get_id())
        pa.append(a)
    for a in pa:
        if z3.is_int_value(a):
            if a.as_long() >= 0:
                facts.append(bitops.pow2(a) == 2 ** a.as_long())
            continue
        facts.append(z3.Implies(a >= 0, bitops.pow2(a) >= 1))
        facts.append(z3.Implies(a == 0, bitops.pow2(a) == 1))
    for i, a in enumerate(pa):
        for b in pa[i + 1:]:
            d = z3.simplify(b - a)
            if z3.is_int_value(d):
                c = d.as_long()
                if 0 < c <= 128:
                    facts.append(z3.Implies(a >= 0, bitops.pow2(b) == (2 ** c) * bitops.pow2(a)))
                elif -128 <= c < 0:
                    facts.append(z3.Implies(b >= 0, bitops.pow2(a) == (2 ** (-c)) * bitops.pow2(b)))
    seen = set()
    for t in selects:
        arr = t.arg(0)
        while z3.is_app(arr) and arr.decl().kind() == z3.Z3_OP_STORE:
            arr = arr.arg(0)
        if arr.get_id() not in ba_ids or _has_var(t.arg(1)):
            continue
        g = z3.Select(arr, t.arg(1))
        if g.get_id() in seen:
            continue
        seen.add(g.get_id())
        facts.append(z3.And(g >= 0, g <= 255))
    facts.extend(_mask_test_facts(fs))
    return facts


def _pow2_arg(t):
    """k if t is pow2(k) (possibly written 1 * pow2(k))"""
    t = z3.simplify(t)
    if z3.is_app(t) and t.decl().kind() == z3.Z3_OP_UNINTERPRETED and t.decl().name() == 'pow2' and t.num_args() == 1:
        return t.arg(0)
    return None


def _mask_test_facts(fs):
    """rule mask-test-two-bits (lean/Bitops.lean, theorem mask_test_two_bits, all naturals): for the uninterpreted
    bit operators of rule 6, `x & (2^a | 2^b) == (2^a | 2^b)` holds exactly when bits a and b of x are set; instantiated
    at the occurring terms bitand(x, bitor(pow2(a), pow2(b))), under x, a, b >= 0"""
    facts, seen = [], set()
    for t in _walk(fs):
        if not (z3.is_app(t) and t.decl().kind() == z3.Z3_OP_UNINTERPRETED and t.decl().name() == 'bitand' and t.num_args() == 2):
            continue
        if t.get_id() in seen or _has_var(t):
            continue
        seen.add(t.get_id())
        for x, m in ((t.arg(0), t.arg(1)), (t.arg(1), t.arg(0))):
            if not (z3.is_app(m) and m.decl().kind() == z3.Z3_OP_UNINTERPRETED and m.decl().name() == 'bitor' and m.num_args() == 2):
                continue
            a, b = _pow2_arg(m.arg(0)), _pow2_arg(m.arg(1))
            if a is None or b is None:
                continue
            bitops._fired('mask-test-two-bits')
            facts.append(z3.Implies(z3.And(x >= 0, a >= 0, b >= 0),
                                    (t == m) == z3.And((x / bitops.pow2(a)) % 2 == 1, (x / bitops.pow2(b)) % 2 == 1)))
    return facts


def model_dict(m):
    out = {}
    decls = {d.name(): d for d in m.decls()}
    for name, d in decls.items():
        try:
            if d.arity() == 0:
                v = m[d]
                if z3.is_int_value(v):
                    out[name] = v.as_long()
                elif z3.is_true(v) or z3.is_false(v):
                    out[name] = z3.is_true(v)
                elif z3.is_string_value(v):
                    out[name] = v.as_string()
                elif z3.is_array(v) or (z3.is_const(d()) and z3.is_array(d())):
                    # byte array: evaluate the first len entries
                    base = name.rsplit('.', 1)[0]
                    ln = None
                    for cand in (base + '.len', base + '.len!h'):
                        if cand in decls and z3.is_int_value(m[decls[cand]]):
                            ln = m[decls[cand]].as_long()
                            break
                    if ln is None:
                        ln = 64
                    ln = max(0, min(ln, 4096))
                    arr = d()
                    vals = []
                    for i in range(ln):
                        e = m.eval(z3.Select(arr, i), model_completion=True)
                        vals.append(e.as_long() if z3.is_int_value(e) else 0)
                    out[name] = vals
                else:
                    out[name] = str(v)[:200]
            else:
                out[name] = str(m[d])[:300]
        except Exception:
            pass
    return out


def layout_instances(m, fs):
    """parse results mentioned by the formulas, evaluated in the model:
    [{layout, array, pos, fields{path: value}}] -- used to synthesise concrete bytes"""
    from .calls import LAYOUTS
    out = {}
    for t in _walk(fs):
        if not (z3.is_app(t) and t.decl().kind() == z3.Z3_OP_UNINTERPRETED and t.num_args() == 2):
            continue
        n = t.decl().name()
        if '.' not in n:
            continue
        lay, path = n.split('.', 1)
        if lay not in LAYOUTS or _has_var(t):
            continue
        arr = t.arg(0)
        if not (z3.is_const(arr) and arr.decl().kind() == z3.Z3_OP_UNINTERPRETED):
            continue
        try:
            pos = m.eval(t.arg(1), model_completion=True)
            val = m.eval(t, model_completion=True)
            if not z3.is_int_value(pos):
                continue
            if z3.is_int_value(val):
                v = val.as_long()
            elif z3.is_true(val) or z3.is_false(val):
                v = z3.is_true(val)
            elif z3.is_string_value(val):
                v = val.as_string()
            else:
                continue
        except Exception:
            continue
        key = (lay, arr.decl().name(), pos.as_long())
        out.setdefault(key, {})[path] = v
    return [dict(layout=k[0], array=k[1], pos=k[2], fields=v) for k, v in sorted(out.items(), key=lambda kv: kv[0][2])]


def z3cli_check(smt2, timeout_ms):
    """third back end: the z3 command-line binaries on the SMT-LIB2 text of the query, in a FRESH process.  In-process the
    quantifier heuristics of z3 depend on every term created before in the same context (which functions a worker verified
    earlier), so an obligation that needs a witness for an existential is occasionally answered `unknown` although it is
    proved in 0.6 s from a clean state; a fresh process sees the formula alone.  Only `unsat` is used."""
    import os
    import subprocess
    import tempfile
    fd, path = tempfile.mkstemp(suffix='.smt2', prefix='pyvc_')
    try:
        with os.fdopen(fd, 'w') as f:
            f.write(smt2)
        for exe in ('/usr/local/bin/z3-new', '/usr/bin/z3'):
            if not os.path.exists(exe):
                continue
            try:
                out = subprocess.run([exe, '-smt2', '-T:%d' % max(1, timeout_ms // 1000), path],
                                     capture_output=True, text=True, timeout=timeout_ms / 1000.0 + 5)
            except subprocess.TimeoutExpired:
                continue
            first = (out.stdout.strip().splitlines() or [''])[0]
            if first == 'unsat':
                return 'unsat', os.path.basename(exe)
        return 'unknown', None
    finally:
        try:
            os.unlink(path)
        except OSError:
            pass


def cvc5_check(smt2, timeout_ms):
    """second back end: /usr/bin/cvc5 on the SMT-LIB2 text of the query; only `unsat`
    is used (a proof); anything else leaves the obligation undecided"""
    import os
    import subprocess
    import tempfile
    exe = '/usr/bin/cvc5'
    if not os.path.exists(exe):
        return 'unavailable'
    fd, path = tempfile.mkstemp(suffix='.smt2', prefix='pyvc_')
    try:
        with os.fdopen(fd, 'w') as f:
            f.write('(set-logic ALL)\n' + smt2)
        try:
            out = subprocess.run([exe, '--tlimit=%d' % timeout_ms, '--strings-exp', path],
                                 capture_output=True, text=True, timeout=timeout_ms / 1000.0 + 5)
        except subprocess.TimeoutExpired:
            return 'timeout'
        first = (out.stdout.strip().splitlines() or [''])[0]
        return first if first in ('unsat', 'sat', 'unknown') else 'error'
    finally:
        try:
            os.unlink(path)
        except OSError:
            pass


def _solve(pc, goal, timeout_ms, axioms):
    """portfolio inside z3: default arithmetic with a short budget first, then the simplex-based
    arithmetic solver (smt.arith.solver=2), which decides the div/mod-heavy step lemmas much faster"""
    if timeout_ms > 4000:
        s, r = _solve1(pc, goal, 3000, axioms, None)
        if r != z3.unknown:
            return s, r
        s2, r2 = _solve1(pc, goal, timeout_ms, axioms, 2)
        if r2 != z3.unknown:
            return s2, r2
        return s, r
    return _solve1(pc, goal, timeout_ms, axioms, None)


def _solve1(pc, goal, timeout_ms, axioms, arith):
    s = z3.Solver()
    s.set('timeout', timeout_ms)
    if arith is not None:
        s.set('smt.arith.solver', arith)
    for ax in axioms:
        s.add(ax)
    for p in pc:
        s.add(p)
    s.add(z3.Not(goal))
    return s, s.check()


def discharge(res, timeout_ms=10000, want_models=True, second_opinion=False):
    out = []
    for ob in getattr(res, '_obs', []):
        t0 = time.time()
        if z3.is_true(ob.goal):
            # a clause whose guard cannot hold on this path (evaluated to the constant true): nothing to discharge
            rec = dict(name=ob.name, kind=ob.kind, verdict='proved', backend='trivial (the goal is the constant true on this path)',
                       time=0.0, line=ob.line)
            if ob.extra:
                rec['extra'] = ob.extra
            out.append(rec)
            continue
        axioms = ground_facts(list(ob.pc) + [ob.goal], getattr(ob, 'byte_arrays', ()))
        sopt = getattr(res.contract, 'solver', {}) or {}
        tmo = max(timeout_ms, sopt.get('timeout_ms', 0))
        pre = None
        if sopt.get('first') == 'cvc5':
            s0, _ = _solve(ob.pc, ob.goal, 1, axioms)
            if cvc5_check(s0.to_smt2(), tmo) == 'unsat':
                pre = 'cvc5-1.0.3'
        if pre:
            s, r = None, z3.unsat
        else:
            s, r = _solve(ob.pc, ob.goal, tmo if not sopt.get('first') else timeout_ms, axioms)
        verdict = 'proved' if r == z3.unsat else ('refuted' if r == z3.sat else 'undecided')
        rec = dict(name=ob.name, kind=ob.kind, verdict=verdict, backend=pre or 'z3-%s' % z3.get_version_string(),
                   time=0.0, line=ob.line)
        if verdict == 'proved' and second_opinion and s is not None:
            # thorough tier: the proof is submitted to a second solver (cvc5 1.0.3 on the SMT-LIB text z3 prints);
            # only a definite answer counts: unsat = confirmed, sat = the two solvers disagree (undecided, exit 2)
            try:
                r2 = cvc5_check(s.to_smt2(), 15000)
            except Exception as e:
                r2 = 'error: %r' % (e,)
            rec['second_opinion'] = r2
            if r2 == 'unsat':
                rec['backend'] += '+cvc5-1.0.3'
            elif r2 == 'sat':
                verdict = rec['verdict'] = 'undecided'
                rec['reason'] = 'solver disagreement: z3 unsat, cvc5 sat'
        if verdict == 'refuted' and want_models:
            try:
                rec['model'] = model_dict(s.model())
                rec['model']['__synth__'] = layout_instances(s.model(), list(ob.pc) + [ob.goal])
            except Exception as e:
                rec['model'] = {'error': str(e)}
        if verdict == 'undecided':
            rec['reason'] = s.reason_unknown()
            rec['smt2'] = s.to_smt2()
            r2 = cvc5_check(rec['smt2'], max(tmo, 20000)) if not sopt.get('first') else 'skipped'
            if r2 == 'unsat':
                verdict = rec['verdict'] = 'proved'
                rec['backend'] = 'cvc5-1.0.3 (z3: %s)' % rec['reason']
                rec.pop('smt2', None)
        if verdict == 'undecided' and rec.get('smt2'):
            r4, exe = z3cli_check(rec['smt2'], max(tmo, 20000))
            if r4 == 'unsat':
                verdict = rec['verdict'] = 'proved'
                rec['backend'] = '%s command line, fresh process (in-process z3: %s)' % (exe, rec.get('reason'))
                rec.pop('smt2', None)
        if verdict == 'undecided':
            # a verdict must not flip with the load of the machine (solver budgets are wall-clock): one more attempt with
            # four times the budget before the obligation is reported undecided
            s3, r3 = _solve1(ob.pc, ob.goal, 4 * tmo, axioms, 2)
            if r3 == z3.unsat:
                verdict = rec['verdict'] = 'proved'
                rec['backend'] = 'z3-%s (second attempt, budget x4)' % z3.get_version_string()
                rec.pop('smt2', None)
            elif r3 == z3.sat:
                s, verdict = s3, 'refuted'
                rec['verdict'] = 'refuted'
                rec.pop('smt2', None)
                try:
                    rec['model'] = model_dict(s.model())
                    rec['model']['__synth__'] = layout_instances(s.model(), list(ob.pc) + [ob.goal])
                except Exception as e:
                    rec['model'] = {'error': str(e)}
        if verdict == 'refuted':
            # rule 6 of the bit-operator encoding (DESIGN 2.4): a counter-model that interprets an UNINTERPRETED bit operator
            # is not a counterexample of the code; unless it replays natively the obligation is undecided, never violated
            try:
                names = {t.decl().name() for t in _walk(list(ob.pc) + [ob.goal])
                         if z3.is_app(t) and t.decl().kind() == z3.Z3_OP_UNINTERPRETED}
                if names & {'bitand', 'bitor', 'bitxor'}:
                    rec['rule6'] = sorted(names & {'bitand', 'bitor', 'bitxor'})
            except Exception:
                pass
        if verdict == 'undecided':
            try:
                m = s.model()
                rec['candidate_model'] = model_dict(m)
                rec['candidate_model']['__synth__'] = layout_instances(m, list(ob.pc) + [ob.goal])
            except Exception:
                pass
        rec['time'] = round(time.time() - t0, 4)
        if ob.extra:
            rec['extra'] = ob.extra
        out.append(rec)
    res.obligations = out
    return res


def check(c, registry=None, timeout_ms=10000, second_opinion=False):
    res = collect(c, registry, timeout_ms)
    if res.error is None:
        discharge(res, timeout_ms, second_opinion=second_opinion)
    return res
