import sys
from pyvc.run import main
sys.exit(main())
