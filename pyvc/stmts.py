"""Statement execution, loops cut by invariants, function inlining."""
import ast
import z3

from . import extract
from .ctx import (PathEnd, Unsupported, ReturnEx, BreakEx, ContinueEx, PyExc)
from .interp import Interp, Frame, assigned_names, exc_subclass, _MISSING
from .vals import (is_sym, is_intlike, is_boollike, is_strlike, to_int, to_bool, zand, znot,
                   Code, SBytes, SStream, SRec, SObj, SList, SDict, SFunc, Opaque, SGen,
                   IntS, BoolS, StrS, ArrS)

MAX_CONCRETE_ITERS = 4096


def gsub(s):
    """contract strings use $name for ghost/loop variables"""
    return s.replace('$', '_G_')


class Exec(Interp):

    # ------------------------------------------------------------- blocks
    def block(self, stmts, fr):
        for s in stmts:
            self.stmt(s, fr)

    def stmt(self, s, fr):
        m = getattr(self, 'st_' + type(s).__name__, None)
        if m is None:
            raise Unsupported('statement %s at line %s' % (type(s).__name__, s.lineno))
        m(s, fr)

    def st_Expr(self, s, fr):
        if isinstance(s.value, ast.Constant):
            return
        self.ev(s.value, fr)

    def st_Pass(self, s, fr):
        pass

    def st_Assign(self, s, fr):
        v = self.ev(s.value, fr)
        for t in s.targets:
            self.assign(t, v, fr)

    def st_AnnAssign(self, s, fr):
        if s.value is not None:
            self.assign(s.target, self.ev(s.value, fr), fr)

    def st_AugAssign(self, s, fr):
        t = s.target
        if isinstance(t, ast.Name):
            cur = self.ev(ast.Name(id=t.id, ctx=ast.Load(), lineno=t.lineno, col_offset=t.col_offset), fr)
            if isinstance(cur, list) and isinstance(s.op, ast.Add):
                v = self.ev(s.value, fr)
                seq = self.models.concrete_iter(self, v, s)
                if seq is None:
                    raise Unsupported('list += symbolic')
                cur.extend(seq)
                return
            self.store_name(t.id, self.binop(s.op, cur, self.ev(s.value, fr), s), fr)
        elif isinstance(t, ast.Attribute):
            b = self.ev(t.value, fr)
            cur = self.models.getattr(self, b, t.attr, t)
            self.models.setattr(self, b, t.attr, self.binop(s.op, cur, self.ev(s.value, fr), s), t)
        elif isinstance(t, ast.Subscript):
            b = self.ev(t.value, fr)
            k = self.ev(t.slice, fr)
            cur = self.models.getitem(self, b, k, t)
            self.models.setitem(self, b, k, self.binop(s.op, cur, self.ev(s.value, fr), s), t)
        else:
            raise Unsupported('augmented assignment target')

    def st_Return(self, s, fr):
        raise ReturnEx(self.ev(s.value, fr) if s.value is not None else None)

    def st_Break(self, s, fr):
        raise BreakEx()

    def st_Continue(self, s, fr):
        raise ContinueEx()

    def st_Global(self, s, fr):
        raise Unsupported('global statement')

    def st_Nonlocal(self, s, fr):
        if not hasattr(fr, 'nonlocals') or fr.nonlocals is None:
            fr.nonlocals = set()
        fr.nonlocals.update(s.names)

    def st_Delete(self, s, fr):
        for t in s.targets:
            if isinstance(t, ast.Name):
                fr.env.pop(t.id, None)
            elif isinstance(t, ast.Subscript):
                b = self.ev(t.value, fr)
                k = self.ev(t.slice, fr)
                self.models.delitem(self, b, k, t)
            else:
                raise Unsupported('del target')

    def st_Import(self, s, fr):
        import importlib
        for a in s.names:
            m = importlib.import_module(a.name)
            fr.env[a.asname or a.name.split('.')[0]] = m if a.asname else importlib.import_module(a.name.split('.')[0])

    def st_ImportFrom(self, s, fr):
        raise Unsupported('local from-import')

    def st_Assert(self, s, fr):
        t = self.truth(self.ev(s.test, fr))
        if not self.ctx.branch(t):
            raise PyExc('AssertionError', s.lineno)

    def st_Raise(self, s, fr):
        if s.exc is None:
            cur = getattr(fr, 'current_exc', None)
            f = fr
            while cur is None and f is not None:
                cur = getattr(f, 'current_exc', None)
                f = f.parent
            if cur is None:
                raise Unsupported('bare raise outside handler')
            raise cur
        e = s.exc
        if isinstance(e, ast.Call):
            cls = self.ev(e.func, fr)
            # arguments are message expressions: evaluated for their safety only when
            # they are not plain formatting; values dropped (DESIGN.md 2.2)
        else:
            cls = self.ev(e, fr)
        name = cls.__name__ if isinstance(cls, type) else (cls.cls if isinstance(cls, SObj) else None)
        if name is None:
            raise Unsupported('raise of non-class at line %s' % s.lineno)
        raise PyExc(name, s.lineno)

    def st_If(self, s, fr):
        t = self.truth(self.ev(s.test, fr))
        if self.ctx.branch(t):
            self.block(s.body, fr)
        else:
            self.block(s.orelse, fr)

    def st_With(self, s, fr):
        if len(s.items) != 1:
            raise Unsupported('multi-item with')
        item = s.items[0]
        ce = item.context_expr
        if isinstance(ce, ast.Call) and isinstance(ce.func, ast.Name) and ce.func.id == 'preserve_stream_pos':
            # the real helper has no try/finally: position is NOT restored on an exception
            stream = self.ev(ce.args[0], fr)
            if not isinstance(stream, SStream):
                raise Unsupported('preserve_stream_pos on non-stream')
            saved = stream.pos
            try:
                self.block(s.body, fr)
            except (ReturnEx, BreakEx, ContinueEx):
                stream.pos = saved       # a normal (non-exceptional) exit of the with body runs the code after `yield`
                raise
            stream.pos = saved
            return
        v = self.ev(ce, fr)
        if isinstance(v, (SStream, SObj, Opaque)):
            if item.optional_vars is not None:
                self.assign(item.optional_vars, v, fr)
            self.block(s.body, fr)
            return
        raise Unsupported('with statement over %r' % (v,))

    def st_Try(self, s, fr):
        try:
            try:
                self.block(s.body, fr)
            except PyExc as ex:
                handled = False
                for h in s.handlers:
                    if self.handler_matches(h, ex, fr):
                        handled = True
                        if h.name:
                            fr.env[h.name] = SObj(ex.cls, {})
                        prev = getattr(fr, 'current_exc', None)
                        fr.current_exc = ex
                        try:
                            self.block(h.body, fr)
                        finally:
                            fr.current_exc = prev
                        break
                if not handled:
                    raise
            else:
                self.block(s.orelse, fr)
        except (PyExc, ReturnEx, BreakEx, ContinueEx):
            if s.finalbody:
                self.block(s.finalbody, fr)
            raise
        else:
            if s.finalbody:
                self.block(s.finalbody, fr)

    def handler_matches(self, h, ex, fr):
        if h.type is None:
            return True
        t = self.ev(h.type, fr)
        ts = t if isinstance(t, tuple) else (t,)
        for c in ts:
            if isinstance(c, type) and exc_subclass(ex.cls, c.__name__):
                return True
        return False

    def st_FunctionDef(self, s, fr):
        fr.env[s.name] = SFunc(s, fr, s.name, self._frame_module(fr))

    # --------------------------------------------------------------- loops
    def loop_spec(self, node):
        o = self.loop_ordinals.get(id(node))
        if o is None:
            return None, None
        return o, self.loop_specs.get(o)

    def st_While(self, s, fr):
        o, spec = self.loop_spec(s)
        if spec is None or 'invariant' not in spec:
            n = 0
            bound = (spec or {}).get('unroll')
            while True:
                t = self.truth(self.ev(s.test, fr))
                if not isinstance(t, bool):
                    if bound is None:
                        raise Unsupported('while loop #%s at line %s has a symbolic guard and no invariant'
                                          % (o, s.lineno))
                    if n >= bound:
                        # bounded mode: paths needing more iterations are cut (recorded)
                        self.note_bounded(o, bound)
                        self.ctx.assume(znot(t))
                        break
                    if not self.ctx.branch(t):
                        break
                elif not t:
                    break
                else:
                    if bound is not None and n >= bound:
                        self.note_bounded(o, bound)
                        raise PathEnd()
                    if bound is None and n >= MAX_CONCRETE_ITERS:
                        raise Unsupported('concrete while loop exceeds %d iterations' % MAX_CONCRETE_ITERS)
                n += 1
                try:
                    self.block(s.body, fr)
                except BreakEx:
                    return
                except ContinueEx:
                    continue
            self.block(s.orelse, fr)
            return
        self.cut_loop(s, fr, o, spec, seq=None)

    def note_bounded(self, o, bound):
        self.assumptions.add('BOUNDED: loop #%s unrolled to %d iterations' % (o, bound))
        self.bounded_used = True

    def st_For(self, s, fr):
        o, spec = self.loop_spec(s)
        it = self.ev(s.iter, fr)
        if spec is None or 'invariant' not in spec:
            seq = self.models.concrete_iter(self, it, s.iter)
            if seq is None and isinstance(s.body[-1], ast.Break) and not any(
                    isinstance(n, ast.Continue) for b in s.body for n in ast.walk(b)):
                # `for x in seq: ...; break` executes its body at most once: exact, no invariant needed
                sl = self.models.as_seq(self, it, s.iter)
                from .models import InfLen
                if sl.n is InfLen or self.ctx.branch(to_int(sl.n) > 0):
                    self.assign(s.target, sl.elem(z3.IntVal(0)), fr)
                    try:
                        self.block(s.body, fr)
                    except BreakEx:
                        pass
                else:
                    self.block(s.orelse, fr)
                return
            if seq is None:
                bound = (spec or {}).get('unroll')
                if bound is None:
                    raise Unsupported('for loop #%s at line %s iterates a symbolic-length sequence and has no invariant'
                                      % (o, s.lineno))
                sl = self.models.as_seq(self, it, s.iter)
                k = 0
                while True:
                    if k >= bound:
                        self.note_bounded(o, bound)
                        self.ctx.assume(to_int(sl.n) <= k)
                        break
                    if not self.ctx.branch(to_int(sl.n) > k):
                        break
                    self.assign(s.target, sl.elem(k), fr)
                    k += 1
                    try:
                        self.block(s.body, fr)
                    except BreakEx:
                        return
                    except ContinueEx:
                        continue
                self.block(s.orelse, fr)
                return
            n = 0
            for x in seq:
                n += 1
                if n > MAX_CONCRETE_ITERS:
                    raise Unsupported('concrete for loop too long')
                self.assign(s.target, x, fr)
                try:
                    self.block(s.body, fr)
                except BreakEx:
                    return
                except ContinueEx:
                    continue
            self.block(s.orelse, fr)
            return
        sl = self.models.as_seq(self, it, s.iter)
        self.cut_loop(s, fr, o, spec, seq=sl)

    def cut_loop(self, s, fr, o, spec, seq):
        """inductive treatment: initiation, havoc, assume invariant, one body
        iteration (preservation + variant) or exit."""
        kname = '_G_k%d' % o
        line = s.lineno
        invs = [gsub(x) for x in spec.get('invariant', [])]
        gi = {gsub(k): gsub(v) for k, v in spec.get('ghost_init', {}).items()}
        gu = {gsub(k): gsub(v) for k, v in spec.get('ghost_update', {}).items()}

        def set_k(v):
            self.ghost[kname] = v
            self.ghost['_G_k'] = v

        from .models import InfLen
        infinite = seq is not None and seq.n is InfLen

        def eval_invs(frame, goal=False):
            out = []
            if seq is not None and not infinite:
                out.append(('range', zand(to_int(self.ghost[kname]) >= 0,
                                          to_int(self.ghost[kname]) <= to_int(seq.n))))
            for i, x in enumerate(invs):
                out.append((i, self.goal(x, frame) if goal else self.pure_eval(x, frame)))
            return out
        set_k(0)
        if seq is not None:
            self.ghost['_G_seq%s' % o] = seq          # the sequence a for-loop runs over: $seq<ordinal> in its invariants
        for g, e0 in spec.get('ghost_entry', {}).items():
            self.ghost[gsub(g)] = self.pure_eval(gsub(e0), fr)      # constants captured at loop entry
        for g, e0 in gi.items():
            self.ghost[g] = self.pure_eval(e0, fr)
        for i, g in eval_invs(fr, True):
            self.ctx.oblige(self.oname('inv-init', line, i), self.as_goal(g), 'inv-init', line)
        # havoc
        self.havoc_loop(s, fr, spec)
        kv = self.ctx.const('k%d' % o, IntS)
        self.ctx.assume(kv >= 0)
        set_k(kv)
        for g in gi:
            self.ghost[g] = self.models.havoc_value(self, self.ghost[g], g, None)
        for i, g in eval_invs(fr):
            self.ctx.assume(self.as_goal(g))
        # guard
        if infinite:
            enter = True
        elif seq is not None:
            enter = self.ctx.branch(to_int(kv) < to_int(seq.n))
        else:
            t = self.truth(self.ev(s.test, fr))
            enter = self.ctx.branch(t)
        if enter:
            for g, e0 in spec.get('ghost_step', {}).items():
                self.ghost[gsub(g)] = self.pure_eval(gsub(e0), fr)      # values at the start of this iteration
            var0 = None
            if 'variant' in spec:
                var0 = to_int(self.pure_eval(gsub(spec['variant']), fr))
            if seq is not None:
                self.assign(s.target, seq.elem(kv), fr)
            exited = False
            try:
                self.block(s.body, fr)
            except ContinueEx:
                pass
            except BreakEx:
                exited = True
            if exited:
                for i, x in enumerate(spec.get('on_break', [])):
                    # assertions the contract attaches to leaving this loop through `break`
                    self.ctx.oblige(self.oname('loop-break', line, i), self.goal(gsub(x), fr), 'post', line)
                return          # continue after the loop with the break state
            set_k(kv + 1)
            for g, e1 in gu.items():
                self.ghost[g] = self.pure_eval(e1, fr)
            for i, g in eval_invs(fr, True):
                self.ctx.oblige(self.oname('inv-pres', line, i), self.as_goal(g), 'inv-pres', line)
            for i, x in enumerate(spec.get('step', [])):
                # step refinement: the iteration just executed implements the specification's step
                self.ctx.oblige(self.oname('step', line, i), self.goal(gsub(x), fr), 'inv-pres', line)
            if var0 is not None:
                var1 = to_int(self.pure_eval(gsub(spec['variant']), fr))
                self.ctx.oblige(self.oname('variant', line), z3.And(var0 >= 0, var1 < var0), 'variant', line)
            elif seq is None or infinite:
                self.assumptions.add('termination of loop #%d of %s not proved (no variant)' % (o, self.qualname))
            raise PathEnd()
        # loop exit: assertions the contract attaches to the normal exit of this loop
        for i, x in enumerate(spec.get('exit', [])):
            self.ctx.oblige(self.oname('loop-exit', line, i), self.goal(gsub(x), fr), 'post', line)
        self.block(s.orelse, fr)

    def havoc_loop(self, s, fr, spec):
        names, attr_paths, containers, has_call = loop_effects(s, getattr(self, 'local_defs', None))
        al = getattr(self, 'local_alias', None) or {}
        shapes = {al.get(k, k): v for k, v in spec.get('shapes', {}).items()}
        for n in sorted(names | {al.get(k, k) for k in spec.get('modifies_names', [])}):
            if n in shapes:
                fr_t = self.frame_of(n, fr)
                sh = shapes[n]
                if hasattr(sh, 'stream_expr'):
                    arr = self.pure_eval(gsub(sh.stream_expr), fr).arr
                    sh.resolve_arr = lambda mk, arr=arr: arr
                fr_t.env[n] = sh.make(self.ctx, n + '!h')
                continue
            cur = fr.lookup(n)
            if cur is _MISSING:
                continue        # first assigned inside the loop: unbound at the head
            fr_t = self.frame_of(n, fr)
            fr_t.env[n] = self.models.havoc_value(self, cur, n, None)
        for path in sorted(attr_paths | set(spec.get('modifies', []))):
            self.havoc_path(path, fr, shapes)
        for n in sorted(containers):
            if n in names:
                continue
            cur = fr.lookup(n)
            if cur is _MISSING:
                continue
            if n in shapes:
                sh = shapes[n]
                if hasattr(sh, 'stream_expr'):
                    arr = self.pure_eval(gsub(sh.stream_expr), fr).arr
                    sh.resolve_arr = lambda mk, arr=arr: arr
                self.frame_of(n, fr).env[n] = sh.make(self.ctx, n + '!h')
            else:
                self.frame_of(n, fr).env[n] = self.models.havoc_value(self, cur, n, None, container=True)
        if has_call:
            for st in self.models.reachable_streams(fr):
                st.pos = self.ctx.const(st.name + '.pos!h', IntS)
                self.ctx.assume(st.pos >= 0)

    def frame_of(self, n, fr):
        f = fr
        while f is not None:
            if n in f.env:
                return f
            f = f.parent
        return fr

    def havoc_path(self, path, fr, shapes):
        parts = path.split('.')
        base = fr.lookup(parts[0])
        if base is _MISSING:
            return
        obj = base
        from .vals import SOpt as _SOpt
        for p in parts[1:-1]:
            if isinstance(obj, _SOpt):
                obj = obj.val            # an optional component kept symbolic: the havoc applies to the value it may hold
            if obj is None:
                return
            obj = obj.attrs[p] if isinstance(obj, SObj) else obj.fields[p]
        if isinstance(obj, _SOpt):
            obj = obj.val
        if obj is None:
            return
        last = parts[-1]
        if len(parts) == 1:
            return
        if isinstance(obj, SStream) and last == 'pos':
            obj.pos = self.ctx.const(obj.name + '.pos!h', IntS)
            self.ctx.assume(obj.pos >= 0)
            return
        store = obj.attrs if isinstance(obj, SObj) else obj.fields
        if path in shapes:
            store[last] = shapes[path].make(self.ctx, path + '!h')
        elif last in store:
            store[last] = self.models.havoc_value(self, store[last], path, None)

    # ----------------------------------------------------- contract expressions
    def pure_eval(self, text, fr, extra=None):
        if text.startswith('@check '):
            text = text[len('@check '):]
        if text.startswith('@when '):
            # '@when COND :: CLAUSE': CLAUSE is only evaluated on paths on which COND can hold (it may name locals that
            # exist on those paths only); the clause means COND implies CLAUSE
            cond, body = text[len('@when '):].split(' :: ', 1)
            c = self.as_goal(self.pure_eval(cond, fr, extra))
            if not self.ctx.feasible(c):
                return True
            return z3.Implies(c, self.as_goal(self.pure_eval(body, fr, extra)))
        node = _parse_expr(text)
        sub = Frame(extra or {}, fr)
        was = self.pure
        self.pure = True
        try:
            return self.ev(node, sub)
        except PyExc as ex:
            if was:
                raise
            raise Unsupported('contract expression %r may raise %s on this path' % (text[:80], ex.cls))
        finally:
            self.pure = was

    def assume_invariant(self, obj):
        """object invariant of a shape (is_valid of the type): assumed"""
        from .stmts import gsub as _g
        for t in getattr(obj, 'inv_texts', ()):
            self.ctx.assume(self.as_goal(self.pure_eval(_g(t), Frame({'self': obj}, None))))

    def owns(self, attr):
        """the function under verification owns a representation field: its contract declares it modified"""
        c = self.contract
        if c is None or getattr(c, 'rep_reader', False):
            return True
        paths = list(getattr(c, 'modifies', [])) + list(getattr(c, 'yield_havoc', [])) + \
            ['self.' + k for k in list(getattr(c, 'sets', {})) + list(getattr(c, 'sets_shape', {}))]
        return any(p.split('.')[-1] == attr for p in paths if p != '*rep')

    def goal(self, text, fr, extra=None):
        """proof goal of a contract clause; a clause that cannot be evaluated on this path because the
        value it inspects has the wrong kind (len() of a bool, attribute of None) is a failed
        obligation, not a checker error: the state does not have the form the contract describes"""
        try:
            return self.as_goal(self.pure_eval(text, fr, extra))
        except Unsupported as ex:
            # (a clause that names a local the path never assigned -- 'unknown name' -- stays a checker error, exit 3: the
            # same outcome as a renamed local, which is a harmless edit and must not be reported as a violation)
            if 'may raise' not in str(ex):
                raise
            self.not_evaluable.append(str(ex))
            return z3.BoolVal(False)

    def as_goal(self, v):
        t = self.truth(v)
        if isinstance(t, bool):
            return z3.BoolVal(t)
        return t

    # ---------------------------------------------------------- inline calls
    def call_sfunc(self, f, args, kw, node=None):
        """execute a closure / lambda / inlined repository function in place"""
        fn = f.node
        if self.inline_depth > 12:
            raise Unsupported('inline depth exceeded (recursion?) at %s' % f.qualname)
        nf = Frame({}, f.frame, func=f)
        self.bind_args(fn, nf, args, kw, f)
        if isinstance(fn, ast.Lambda):
            return self.ev(fn.body, nf)
        nf.locals_assigned = assigned_names(fn)
        self.inline_depth += 1
        try:
            self.block(fn.body, nf)
        except ReturnEx as r:
            return r.value
        finally:
            self.inline_depth -= 1
        return None

    def bind_args(self, fn, nf, args, kw, f=None):
        a = fn.args
        params = [x.arg for x in a.posonlyargs + a.args]
        defaults = a.defaults
        ndef = len(defaults)
        env = nf.env
        args = list(args)
        for i, p in enumerate(params):
            if i < len(args):
                env[p] = args[i]
            elif p in kw:
                env[p] = kw.pop(p)
            else:
                j = i - (len(params) - ndef)
                if j < 0:
                    raise PyExc('TypeError', getattr(fn, 'lineno', None), 'missing argument %s' % p)
                env[p] = self.ev(defaults[j], Frame({}, f.frame if f else None, func=f))
        extra = args[len(params):]
        if a.vararg:
            env[a.vararg.arg] = tuple(extra)
        elif extra:
            raise PyExc('TypeError', getattr(fn, 'lineno', None), 'too many arguments')
        for p, d in zip(a.kwonlyargs, a.kw_defaults):
            if p.arg in kw:
                env[p.arg] = kw.pop(p.arg)
            elif d is not None:
                env[p.arg] = self.ev(d, Frame({}, f.frame if f else None, func=f))
        if a.kwarg:
            env[a.kwarg.arg] = dict(kw)
        elif kw:
            kw = dict(kw)
            raise PyExc('TypeError', getattr(fn, 'lineno', None), 'unexpected keyword %s' % sorted(kw))


_expr_cache = {}


def _parse_expr(text):
    if text not in _expr_cache:
        try:
            _expr_cache[text] = ast.parse(gsub(text).strip(), mode='eval').body
        except SyntaxError as e:
            raise Unsupported('contract expression does not parse: %r (%s)' % (text, e))
    return _expr_cache[text]


_PURE_BUILTINS = {'len', 'int', 'min', 'max', 'isinstance', 'range', 'ord', 'chr', 'bool', 'abs',
                  'str', 'repr', 'tuple', 'list', 'enumerate', 'zip', 'hasattr', 'getattr', 'sorted',
                  'dict', 'set', 'bytes', 'any', 'all', 'sum', 'divmod', 'type', 'id', 'iter', 'next',
                  'reversed', 'map', 'filter', 'format', 'hex', 'print', 'super'}

_STREAM_METHODS = {'read', 'seek', 'write', 'tell'}
_CONTAINER_MUTATORS = {'append', 'extend', 'insert', 'pop', 'update', 'add', 'sort', 'remove', 'clear',
                       'setdefault', 'discard', 'popitem', 'reverse'}


def loop_effects(loop, local_defs=None):
    """static scan of a loop body: (assigned names, assigned attribute paths,
    mutated container names, has a call that may move a stream).  Calls to nested functions of
    the enclosing function are followed (their attribute stores, container mutations and nonlocal
    assignments are effects of the loop)."""
    names, attr_paths, containers = set(), set(), set()
    has_call = [False]
    local_defs = local_defs or {}
    followed = set()

    def path_of(e):
        parts = []
        while isinstance(e, ast.Attribute):
            parts.append(e.attr)
            e = e.value
        if isinstance(e, ast.Name):
            parts.append(e.id)
            return '.'.join(reversed(parts))
        return None

    def visit(n, top=False):
        if isinstance(n, (ast.FunctionDef, ast.Lambda)) and not top:
            if isinstance(n, ast.FunctionDef):
                names.add(n.name)
            return
        if isinstance(n, ast.Name) and isinstance(n.ctx, ast.Store):
            names.add(n.id)
        elif isinstance(n, ast.Attribute) and isinstance(n.ctx, ast.Store):
            p = path_of(n)
            if p:
                attr_paths.add(p)
        elif isinstance(n, ast.Subscript) and isinstance(n.ctx, ast.Store):
            p = path_of(n.value)
            if p:
                (containers if '.' not in p else attr_paths).add(p)
        elif isinstance(n, ast.AugAssign):
            pass
        elif isinstance(n, ast.Call):
            f = n.func
            if isinstance(f, ast.Attribute):
                p = path_of(f.value)
                if f.attr in _CONTAINER_MUTATORS and p:
                    (containers if '.' not in p else attr_paths).add(p)
                elif f.attr in _STREAM_METHODS:
                    has_call[0] = True
                else:
                    has_call[0] = True
            elif isinstance(f, ast.Name):
                if f.id in local_defs and f.id not in followed:
                    followed.add(f.id)
                    d = local_defs[f.id]
                    nl = set()
                    for st2 in ast.walk(d):
                        if isinstance(st2, ast.Nonlocal):
                            nl.update(st2.names)
                    before = set(names)
                    for st2 in d.body:
                        visit(st2)
                    # plain assignments inside the nested function bind its own locals
                    for nm in set(names) - before:
                        if nm not in nl:
                            names.discard(nm)
                if f.id not in _PURE_BUILTINS:
                    has_call[0] = True
            else:
                has_call[0] = True
        elif isinstance(n, (ast.Yield, ast.YieldFrom)):
            has_call[0] = True
        for c in ast.iter_child_nodes(n):
            visit(c)
    for st in loop.body + loop.orelse:
        visit(st)
    if isinstance(loop, ast.For):
        for n in ast.walk(loop.target):
            if isinstance(n, ast.Name):
                names.add(n.id)
    else:
        visit(loop.test)
    return names, attr_paths, containers, has_call[0]
