"""pyvc: verification-condition generator for the Python subset pyelftools is written in."""
import os
import sys

REPO = os.environ.get('VERIF_REPO', '/repo')
ROOT = os.path.dirname(os.path.dirname(os.path.abspath(__file__)))
for p in (ROOT, REPO):
    if p in sys.path:
        sys.path.remove(p)
sys.path.insert(0, ROOT)
sys.path.insert(0, REPO)
sys.dont_write_bytecode = True
