"""Path context: decisions, path condition, obligations.  Exploration is by
re-execution with a decision prefix (each run of the function follows one
path; alternatives are queued), so the interpreter is a plain recursive
evaluator."""
import z3
from .vals import ArrS, IntS, BoolS


class PathEnd(Exception):
    """this path is finished (infeasible, or cut after an inductive step)"""


class Unsupported(Exception):
    """construct outside the supported subset -> checker error (exit 3)"""


class ReturnEx(Exception):
    def __init__(self, value):
        self.value = value


class BreakEx(Exception):
    pass


class ContinueEx(Exception):
    pass


class PyExc(Exception):
    """a Python exception raised by the code under verification"""

    def __init__(self, cls, line=None, why=''):
        self.cls, self.line, self.why = cls, line, why

    def __str__(self):
        return 'PyExc(%s@%s %s)' % (self.cls, self.line, self.why)


class Obligation:
    __slots__ = ('name', 'pc', 'goal', 'kind', 'line', 'extra', 'byte_arrays')

    def __init__(self, name, pc, goal, kind, line=None, extra=None):
        self.name, self.pc, self.goal, self.kind, self.line, self.extra = name, pc, goal, kind, line, extra

    def key(self):
        g = self.goal.get_id() if isinstance(self.goal, z3.ExprRef) else ('c', bool(self.goal))
        return (self.name, tuple(p.get_id() for p in self.pc), g)


def has_quantifier(e):
    seen = set()
    stack = [e]
    while stack:
        t = stack.pop()
        if not z3.is_expr(t):
            continue
        i = t.get_id()
        if i in seen:
            continue
        seen.add(i)
        if z3.is_quantifier(t):
            return True
        stack.extend(t.children())
    return False


class Ctx:
    def __init__(self, prefix, pending, facts=None, feas_timeout=1500):
        self.prefix = list(prefix)
        self.di = 0
        self.pending = pending
        self.pc = []
        self.obligations = []
        self.facts = list(facts or [])
        self.counter = {}
        self.solver = z3.Solver()
        self.solver.set('timeout', feas_timeout)
        self.notes = []
        self.byte_arrays = []
        self.covers = []

    # ---- fresh symbols (deterministic per path) ----
    def fname(self, name):
        k = self.counter.get(name, 0)
        self.counter[name] = k + 1
        return name if k == 0 else '%s!%d' % (name, k)

    def const(self, name, sort):
        return z3.Const(self.fname(name), sort)

    def current(self):
        return self

    def byte_array(self, arr):
        """every element of a byte array is in 0..255"""
        # range facts are instantiated at the Select terms of each obligation
        # (verify.ground_facts); no quantifier is introduced
        self.byte_arrays.append(arr)

    # ---- path condition ----
    def assume(self, c):
        if c is True:
            return
        if c is False:
            raise PathEnd()
        if z3.is_expr(c):
            ids = self.__dict__.setdefault('_pc_ids', set())
            if c.get_id() in ids:
                return            # the same fact again (range facts are restated at every element access)
            ids.add(c.get_id())
        self.pc.append(c)
        if not has_quantifier(c):
            # the feasibility solver sees only the quantifier-free part of the path condition
            # (a weaker condition: more paths are explored, none is lost)
            self.solver.add(c)

    def feasible(self, c):
        self.solver.push()
        self.solver.add(c)
        r = self.solver.check()
        self.solver.pop()
        return r != z3.unsat

    def branch(self, cond):
        """decide a symbolic condition; returns a python bool"""
        if isinstance(cond, bool):
            return cond
        cond = z3.simplify(cond)
        if z3.is_true(cond):
            return True
        if z3.is_false(cond):
            return False
        if self.di < len(self.prefix):
            d = self.prefix[self.di]
        else:
            t_ok = self.feasible(cond)
            f_ok = self.feasible(z3.Not(cond))
            if t_ok and f_ok:
                self.pending.append(self.prefix[:self.di] + [False])
                d = True
            elif t_ok:
                d = True
            elif f_ok:
                d = False
            else:
                raise PathEnd()
            self.prefix.append(d)
        self.di += 1
        self.assume(cond if d else z3.Not(cond))
        return d

    def choose(self, n, label='choice'):
        """nondeterministic choice among n alternatives (forks)"""
        sel = self.const('sel!' + label, IntS)
        for i in range(n - 1):
            if self.branch(sel == i):
                return i
        return n - 1

    # ---- obligations ----
    def oblige(self, name, goal, kind, line=None, extra=None):
        if goal is True:
            goal = z3.BoolVal(True)
        elif goal is False:
            goal = z3.BoolVal(False)
        ob = Obligation(name, list(self.pc), goal, kind, line, extra)
        ob.byte_arrays = list(self.byte_arrays)
        self.obligations.append(ob)

    def provable(self, goal, timeout=2000):
        """inline side-condition check (used by the bit-operator rules)"""
        if isinstance(goal, bool):
            return goal
        from .verify import ground_facts
        s = z3.Solver()
        s.set('timeout', timeout)
        for f in self.facts:
            s.add(f)
        for p in self.pc:
            s.add(p)
        s.add(z3.Not(goal))
        for f in ground_facts(self.pc + [goal], self.byte_arrays):
            s.add(f)
        return s.check() == z3.unsat
