"""Shape (type-invariant) DSL for contract parameters and results.
A shape builds a symbolic value and the range facts that hold for it; those
facts are *preconditions* justified by the K2 layout obligations (a U32 field
yields 0..2^32-1)."""
import z3
from .vals import (Code, SBytes, SStream, SRec, SObj, SList, Opaque, StructRef,
                   IntS, BoolS, StrS, ArrS, zand)


class Shape:
    def make(self, mk, name, idx=None):
        raise NotImplementedError


class _Leaf(Shape):
    sort = None

    def leaf(self, mk, name, idx):
        if idx is None:
            return mk.const(name, self.sort)
        if isinstance(idx, tuple):      # element of a sequence nested in a sequence element
            f = z3.Function(mk.fname(name), *([IntS] * len(idx) + [self.sort]))
            return f(*idx)
        ua = getattr(mk, 'uf_args', None)
        if ua is not None:      # element of a sequence inside a parse result: function of (array, position, index)
            f = z3.Function(name, ArrS, IntS, IntS, self.sort)
            return f(ua[0], ua[1], idx)
        f = z3.Function(mk.fname(name), IntS, self.sort)
        return f(idx)


class IntT(_Leaf):
    sort = IntS

    def __init__(self, lo=None, hi=None):
        self.lo, self.hi = lo, hi

    def make(self, mk, name, idx=None):
        v = self.leaf(mk, name, idx)
        if idx is not None and z3.is_app(v) and v.num_args() >= 1 and (self.lo is not None or self.hi is not None):
            # element of a sequence: the range holds for every index (stated once per element function)
            done = getattr(mk, '_ranged', None)
            if done is None:
                done = set()
                try:
                    mk._ranged = done
                except Exception:
                    pass
            key = v.decl().name()
            if key not in done:
                done.add(key)
                n = v.num_args()
                keep = [v.arg(i) for i in range(n - 1)] if getattr(mk, 'uf_args', None) is not None and not isinstance(idx, tuple) else []
                nb = n - len(keep)
                bs = [z3.Int('x!rng%d' % i) for i in range(nb)]
                app = v.decl()(*(keep + bs))
                cs = []
                if self.lo is not None:
                    cs.append(app >= self.lo)
                if self.hi is not None:
                    cs.append(app < self.hi)
                mk.assume(z3.ForAll(bs, z3.And(*cs), patterns=[app]))
            return v
        if self.lo is not None:
            mk.assume(v >= self.lo)
        if self.hi is not None:
            mk.assume(v < self.hi)
        return v


Int = IntT()
Nat = IntT(0, None)


def U(bits):
    return IntT(0, 2 ** bits)


def S(bits):
    return IntT(-(2 ** (bits - 1)), 2 ** (bits - 1))


U8, U16, U32, U64 = U(8), U(16), U(32), U(64)


class BoolT(_Leaf):
    sort = BoolS

    def make(self, mk, name, idx=None):
        return self.leaf(mk, name, idx)


Bool = BoolT()


class StrT(_Leaf):
    sort = StrS

    def make(self, mk, name, idx=None):
        return self.leaf(mk, name, idx)


Str = StrT()


class CodeT(Shape):
    """enum-coded value; raw integer range given by bits"""

    def __init__(self, bits=32):
        self.bits = bits

    def make(self, mk, name, idx=None):
        isn = BoolT().make(mk, name + '.isname', idx)
        nm = StrT().make(mk, name + '.name', idx)
        raw = U(self.bits).make(mk, name + '.raw', idx)
        return Code(isn, nm, raw)


CodeV = CodeT(32)


class Const(Shape):
    def __init__(self, value):
        self.value = value

    def make(self, mk, name, idx=None):
        return self.value


NoneT = Const(None)


class BytesT(Shape):
    """an independent bytes object (own array)"""

    def make(self, mk, name, idx=None):
        if idx is not None:
            raise NotImplementedError('indexed bytes')
        arr = mk.const(name + '.arr', ArrS)
        n = mk.const(name + '.len', IntS)
        mk.assume(n >= 0)
        mk.byte_array(arr)
        return SBytes(arr, 0, n)


Bytes = BytesT()


class StreamT(Shape):
    def __init__(self, pos='any'):
        self.pos = pos

    def make(self, mk, name, idx=None):
        arr = mk.const(name + '.B', ArrS)
        n = mk.const(name + '.len', IntS)
        mk.assume(n >= 0)
        mk.assume(n < 2 ** 62)       # a real stream is smaller than the address space
        mk.byte_array(arr)
        pos = mk.const(name + '.pos', IntS)
        mk.assume(pos >= 0)
        return SStream(arr, n, pos, name)


Stream = StreamT()


class Rec(Shape):
    def __init__(self, kind='Container', **fields):
        self.kind = kind
        self.fields = fields

    def make(self, mk, name, idx=None):
        return SRec({k: s.make(mk, name + '.' + k, idx) for k, s in self.fields.items()}, self.kind)

    def extend(self, **more):
        f = dict(self.fields)
        f.update(more)
        return Rec(self.kind, **f)


class Obj(Shape):
    """instance of a repository class.  _inv: object invariant (expression strings over `self`),
    assumed whenever an object of this shape is created (is_valid() of the type) and re-established by
    the functions that own the representation fields _rep (lazily built caches): only functions whose
    contract declares a _rep path in `modifies` may access those fields directly."""

    def __init__(self, cls, _inv=(), _rep=(), **attrs):
        self.cls = cls
        self.attrs = attrs
        self.inv = list(_inv)
        self.rep = tuple(_rep)

    def make(self, mk, name, idx=None):
        # attributes may alias each other: 'same:<attr path>' handled by Alias
        o = SObj(self.cls, {})
        o.from_shape = True          # describes only the attributes the contract talks about
        for k, s in self.attrs.items():
            if isinstance(s, Alias):
                continue
            o.attrs[k] = s.make(mk, name + '.' + k, idx)
        for k, s in self.attrs.items():
            if isinstance(s, Alias):
                o.attrs[k] = s.resolve(o)
        for k, v in o.attrs.items():
            if isinstance(v, StructRef) and getattr(v, 'pending_owner', None):
                v.owner = Alias(v.pending_owner).resolve(o)
                v.pending_owner = None
        if self.inv or self.rep:
            o.inv_texts, o.rep = self.inv, self.rep
            o.rep_shapes = {k: self.attrs[k] for k in self.rep if k in self.attrs}
            cur = mk.current() if hasattr(mk, 'current') else None
            it = getattr(cur, 'interp', None)
            if idx is None and it is not None:
                it.assume_invariant(o)
        return o

    def extend(self, **more):
        a = dict(self.attrs)
        inv = more.pop('_inv', self.inv)
        rep = more.pop('_rep', self.rep)
        a.update(more)
        return Obj(self.cls, _inv=inv, _rep=rep, **a)


class Alias(Shape):
    """attribute that aliases another attribute path of the same object
    (Section.stream is elffile.stream)"""

    def __init__(self, path):
        self.path = path

    def resolve(self, obj):
        v = obj
        for p in self.path.split('.'):
            v = v.attrs[p] if isinstance(v, SObj) else v.fields[p]
        return v


class Opt(Shape):
    """None or a value of the inner shape: decided by a path fork"""

    def __init__(self, inner):
        self.inner = inner

    def make(self, mk, name, idx=None):
        if idx is not None:
            from .vals import SOpt
            return SOpt(BoolT().make(mk, name + '.isnone', idx), self.inner.make(mk, name, idx))
        b = mk.const(name + '.isnone', BoolS)
        if mk.branch(b):
            return None
        return self.inner.make(mk, name, idx)


class OneOf(Shape):
    """one of several concrete python values: decided by path forks"""

    def __init__(self, *values):
        self.values = values

    def make(self, mk, name, idx=None):
        sel = mk.const(name + '.sel', IntS)
        for i, v in enumerate(self.values[:-1]):
            if mk.branch(sel == i):
                return v
        return self.values[-1]


def _bvars(n):
    return tuple(z3.Int('x!len%d' % i) for i in range(n))


class ListOf(Shape):
    def __init__(self, inner):
        self.inner = inner

    def make(self, mk, name, idx=None):
        if idx is not None:
            # a list inside an element of a sequence: length and elements are functions of the outer index
            from .vals import to_int
            if getattr(mk, 'uf_args', None) is not None and not isinstance(idx, tuple):
                raise NotImplementedError('list nested in a parse-result sequence')
            outer = idx if isinstance(idx, tuple) else (to_int(idx),)
            lf = z3.Function(mk.fname(name + '.len'), *([IntS] * (len(outer) + 1)))
            bs = _bvars(len(outer))
            mk.assume(z3.ForAll(list(bs), lf(*bs) >= 0))
            inner = self.inner
            base = mk.fname(name + '[]')
            cur = mk.current() if hasattr(mk, 'current') else mk

            def elem_n(i, _base=base):
                return inner.make(_StableNames(cur), _base, outer + (to_int(i),))
            return SList(elem_n, lf(*outer), name)
        n = mk.const(name + '.len', IntS)
        mk.assume(n >= 0)
        inner = self.inner
        base = mk.fname(name + '[]')      # element functions are fixed when the list is created

        def elem(i, _base=base):
            from .vals import to_int
            return inner.make(_StableNames(mk.current()), _base, to_int(i))
        return SList(elem, n, name)


class _StableNames:
    """maker view that does not rename: the same element function for every access"""

    def __init__(self, mk):
        self._mk = mk
        ua = getattr(mk, 'uf_args', None)
        if ua is not None:
            self.uf_args = ua

    def fname(self, name):
        return name

    def __getattr__(self, n):
        return getattr(self._mk, n)


class StructsT(Shape):
    """the ELFStructs / DWARFStructs object: attribute access yields StructRef"""

    def __init__(self, cls='ELFStructs', **attrs):
        self.cls, self.attrs = cls, attrs

    def make(self, mk, name, idx=None):
        o = SObj(self.cls, {})
        for k, s in self.attrs.items():
            o.attrs[k] = s.make(mk, name + '.' + k, idx)
        o.is_structs = True
        return o


class OpaqueT(Shape):
    def __init__(self, what='opaque'):
        self.what = what

    def make(self, mk, name, idx=None):
        return Opaque(self.what + ':' + name)


Any = OpaqueT()


class ChunksOf(Shape):
    """a list of byte chunks that concatenate to a contiguous view of the array of
    the stream bound to the given ghost/variable name (resolved by the loop havoc)"""

    def __init__(self, stream_expr):
        self.stream_expr = stream_expr

    def make(self, mk, name, idx=None):
        from .methods import ChunkList
        lo = mk.const(name + '.lo', IntS)
        n = mk.const(name + '.n', IntS)
        mk.assume(n >= 0)
        arr = self.resolve_arr(mk)
        return ChunkList(SBytes(arr, lo, n))


class Choice(Shape):
    """an integer that is one of a few constants, kept symbolic (no path fork)"""

    def __init__(self, *values):
        self.values = values

    def make(self, mk, name, idx=None):
        v = IntT().make(mk, name, idx)
        mk.assume(z3.Or(*[v == x for x in self.values]))
        return v


class TupleT(Shape):
    def __init__(self, *items):
        self.items = items

    def make(self, mk, name, idx=None):
        return tuple(s.make(mk, '%s.%d' % (name, i), idx) for i, s in enumerate(self.items))


class StructOf(Shape):
    """a reference to the named struct of the file's ELFStructs (self.structs.X)"""

    def __init__(self, name, owner=None):
        self.name = name
        self.owner = owner          # attribute path (from the enclosing object) of the structs object

    def make(self, mk, name, idx=None):
        r = StructRef(self.name, None)
        r.pending_owner = self.owner
        return r


class GenOf(Shape):
    """a suspended generator whose elements have the given shape"""

    def __init__(self, inner):
        self.inner = inner

    def make(self, mk, name, idx=None):
        from .vals import SGen, to_int
        if isinstance(idx, tuple):
            n = z3.Function(name + '.len', *([IntS] * (len(idx) + 1)))(*idx)
        elif idx is not None:
            n = z3.Function(name + '.len', IntS, IntS)(idx)
        else:
            n = mk.const(name + '.len', IntS)
        mk.assume(n >= 0)
        inner = self.inner
        base = name + '[]' if idx is not None else mk.fname(name + '[]')
        outer = () if idx is None else (idx if isinstance(idx, tuple) else (idx,))

        def elem(i, _base=base):
            ii = to_int(i) if not outer else outer + (to_int(i),)
            return inner.make(_StableNames(mk.current()), _base, ii)
        return SGen(SList(elem, n, name))


class UnionT(Shape):
    """a value of one of several shapes: decided by path forks"""

    def __init__(self, *alts):
        self.alts = alts

    def make(self, mk, name, idx=None):
        sel = mk.const(name + '.kind', IntS)
        for i, a in enumerate(self.alts[:-1]):
            if mk.branch(sel == i):
                return a.make(mk, name, idx)
        return self.alts[-1].make(mk, name, idx)


class DictOf(Shape):
    """mapping looked up with concrete keys only (attribute tables keyed by DW_AT names): each key
    has an unconstrained membership bit and a value of the inner shape, fixed when first asked for"""

    def __init__(self, inner):
        self.inner = inner

    def make(self, mk, name, idx=None):
        from .vals import SDict, is_sym
        inner = self.inner
        base = mk.fname(name)
        smk = _StableNames(mk.current()) if hasattr(mk, 'current') else mk
        cache = {}

        hasf = z3.Function(base + '.has', IntS, BoolS)

        def ikey(k):
            from .vals import to_int
            return hasf(to_int(k)), inner.make(smk, base + '[]', to_int(k))

        def key(k):
            from .vals import is_intlike
            if is_intlike(k) and idx is None:
                return ikey(k)       # integer keys: membership and value are functions of the key
            if is_sym(k) or not isinstance(k, (str, int)):
                from .ctx import Unsupported
                raise Unsupported('lookup in %s with a non-constant key' % name)
            if k not in cache:
                if idx is not None:
                    # inside a sequence element: membership and value are functions of the element index
                    cache[k] = (BoolT().make(smk, '%s.has[%s]' % (base, k), idx), inner.make(smk, '%s[%s]' % (base, k), idx))
                else:
                    cache[k] = (smk.const('%s.has[%s]' % (base, k), BoolS), inner.make(smk, '%s[%s]' % (base, k), idx))
            return cache[k]
        return SDict(lambda k: key(k)[0], lambda k: key(k)[1], name)


class Tagged(Shape):
    """a record of one of several record classes, kept symbolic: integer class tag plus the union
    of the fields, each present under its classes' tags"""

    def __init__(self, *recs):
        self.recs = recs

    def make(self, mk, name, idx=None):
        from .vals import kind_id
        tag = IntT().make(mk, name + '.tag', idx)
        mk.assume(z3.Or(*[tag == kind_id(r.kind) for r in self.recs]))
        fields, where = {}, {}
        for r in self.recs:
            for k, sh in r.fields.items():
                if k not in fields:
                    fields[k] = sh.make(mk, name + '.' + k, idx)
                where.setdefault(k, []).append(kind_id(r.kind))
        present = {}
        for k, ids in where.items():
            if len(ids) < len(self.recs):
                present[k] = z3.Or(*[tag == i for i in ids]) if len(ids) > 1 else tag == ids[0]
        return SRec(fields, 'tagged', tag, present)


class SameAs(Shape):
    """a parameter that is the object reached from another parameter (self is cu.dwarfinfo)"""

    def __init__(self, path):
        self.path = path


class SharedStream(Shape):
    """the one stream object of a section: every occurrence of this shape on a path is the same
    stream (identity), e.g. the .debug_info stream held by the section descriptor and by every entry"""

    def __init__(self, name):
        self.name = name

    def make(self, mk, name, idx=None):
        cur = mk.current() if hasattr(mk, 'current') else mk
        shared = cur.__dict__.setdefault('_shared_streams', {})
        if self.name not in shared:
            shared[self.name] = Stream.make(cur, self.name)
        return shared[self.name]


class SymOpt(Shape):
    """None or a value of the inner shape, kept symbolic (no path fork): code that uses the value
    forks where it inspects it"""

    def __init__(self, inner):
        self.inner = inner

    def make(self, mk, name, idx=None):
        from .vals import SOpt
        return SOpt(BoolT().make(mk, name + '.isnone', idx), self.inner.make(mk, name, idx))


class ViewOf(Shape):
    """a bytes value that is a slice of a given byte sequence (e.g. a chunk read from a stream): same
    array, unknown offset and length"""

    def __init__(self, stream_expr):
        self.stream_expr = stream_expr
        self.resolve_arr = None

    def make(self, mk, name, idx=None):
        from .vals import SBytes
        arr = self.resolve_arr(mk)
        off = mk.const(name + '.off', IntS)
        n = mk.const(name + '.len', IntS)
        mk.assume(z3.And(off >= 0, n >= 0))
        return SBytes(arr, off, n)


class ParserTable(Shape):
    """a dispatch table {integer key: operand parser}: membership is an uninterpreted predicate of the key, the
    parsers are abstract (see AbstractParser); the real table is decided entry by entry elsewhere (K2)"""

    def __init__(self, name):
        self.name = name

    def make(self, mk, name, idx=None):
        from .vals import SDict, AbstractParser, to_int
        has = z3.Function(self.name + '.has', IntS, BoolS)
        return SDict(lambda k: has(to_int(k)), lambda k: AbstractParser(self.name, to_int(k)), self.name)


class EmptyDict(Shape):
    """an empty mapping that the function fills with symbolic keys"""

    def make(self, mk, name, idx=None):
        from .vals import SDict
        return SDict(lambda k: False, lambda k: None, name)


class CodeDictOf(Shape):
    """a mapping keyed by enum-coded values (attribute names: a registered name or a raw number) to records:
    membership and every record leaf are functions of the key (isname, name, raw)"""

    def __init__(self, rec):
        self.rec = rec

    def make(self, mk, name, idx=None):
        from .vals import SDict, SRec, Code, Opaque, to_int
        base = mk.fname(name)
        ksorts = [BoolS, StrS, IntS]
        hasf = z3.Function(base + '.has', *(ksorts + [BoolS]))
        rec = self.rec
        cur = mk.current() if hasattr(mk, 'current') else mk

        def kargs(k):
            if isinstance(k, Code):
                from .vals import to_bool, to_str
                return [to_bool(k.isname), to_str(k.name), to_int(k.raw)]
            from .vals import is_strlike, to_str
            if is_strlike(k):
                return [z3.BoolVal(True), to_str(k), z3.IntVal(0)]
            return [z3.BoolVal(False), z3.StringVal(''), to_int(k)]

        def get(k):
            a = kargs(k)
            fields = {}
            for f, sh in rec.fields.items():
                nm = '%s[].%s' % (base, f)
                if isinstance(sh, CodeT):
                    raw = z3.Function(nm + '.raw', *(ksorts + [IntS]))(*a)
                    fields[f] = Code(z3.Function(nm + '.isname', *(ksorts + [BoolS]))(*a), z3.Function(nm + '.name', *(ksorts + [StrS]))(*a), raw)
                elif isinstance(sh, IntT):
                    v = z3.Function(nm, *(ksorts + [IntS]))(*a)
                    if sh.lo is not None:
                        cur.assume(v >= sh.lo)
                    fields[f] = v
                elif isinstance(sh, StrT):
                    fields[f] = z3.Function(nm, *(ksorts + [StrS]))(*a)
                elif isinstance(sh, BoolT):
                    fields[f] = z3.Function(nm, *(ksorts + [BoolS]))(*a)
                else:
                    fields[f] = Opaque('%s of %s' % (f, base))
            return SRec(fields, rec.kind)
        return SDict(lambda k: hasf(*kargs(k)), get, name)
