"""Data-model operations: attribute/item access, bytes, streams, containers,
havoc.  (Call dispatch lives in calls.py.)"""
import ast
import z3

from .ctx import PathEnd, Unsupported, PyExc
from .interp import _MISSING, FloatDiv
from .vals import (is_sym, is_intlike, is_boollike, is_strlike, to_int, to_bool, to_str,
                   zand, zor, znot, zite, Code, SBytes, SStream, SRec, SObj, SList, SDict,
                   SFunc, BoundMethod, StructRef, Opaque, SGen, IntS, BoolS, StrS, ArrS)


def line_of(node):
    return getattr(node, 'lineno', None)


def zmin(a, b):
    if not is_sym(a) and not is_sym(b):
        return min(a, b)
    a, b = to_int(a), to_int(b)
    return z3.If(a <= b, a, b)


def zmax(a, b):
    if not is_sym(a) and not is_sym(b):
        return max(a, b)
    a, b = to_int(a), to_int(b)
    return z3.If(a >= b, a, b)


class DataModels:
    # ------------------------------------------------------------ attributes
    def getattr(self, I, b, attr, node=None):
        from .vals import SOpt
        if isinstance(b, SOpt):
            if not I.pure and I.ctx.branch(b.isnone):
                raise PyExc('AttributeError', line_of(node), 'None.%s' % attr)
            return self.getattr(I, b.val, attr, node)
        if b is None:
            raise PyExc('AttributeError', line_of(node), 'None.%s' % attr)
        if isinstance(b, SRec):
            if attr in b.fields:
                pr = b.present.get(attr, True)
                if pr is not True and not I.pure and not I.ctx.branch(pr):
                    raise PyExc('AttributeError', line_of(node), attr)
                return b.fields[attr]
            if attr in ('get', 'items', 'keys', 'values', 'copy', 'update', '__copy__'):
                return BoundMethod(b, attr)
            raise PyExc('AttributeError', line_of(node), attr)
        if isinstance(b, SObj):
            if attr in b.attrs:
                if attr in getattr(b, 'rep', ()) and not I.pure and not I.owns(attr):
                    raise Unsupported('representation field %s.%s accessed directly in %s, whose contract does not own it '
                                      '(declare it in modifies)' % (b.cls, attr, I.qualname))
                return b.attrs[attr]
            if getattr(b, 'is_structs', False):
                return StructRef(attr, b)
            v = self.class_attr(I, b, attr, node)
            if v is not _MISSING:
                return v
            if getattr(b, 'from_shape', False) and not I.pure and self.class_assigns(I, b.cls, attr):
                # real instances have this attribute (some method assigns it) but the contract's shape does
                # not describe it: the contract has to be extended -- not a verdict about the code
                raise Unsupported('attribute %s.%s exists in the class but is not described by the contract shape' % (b.cls, attr))
            raise PyExc('AttributeError', line_of(node), '%s.%s' % (b.cls, attr))
        if isinstance(b, SStream):
            if attr in ('read', 'seek', 'tell', 'write', 'close', 'getvalue'):
                return BoundMethod(b, attr)
            if attr == 'pos':
                return b.pos
            if attr == 'B':          # contract view: whole content as bytes
                return SBytes(b.arr, 0, b.length)
            if attr == 'length':
                return b.length
            raise Unsupported('stream attribute %s' % attr)
        from .calls import ZlibObj as _Z, ZlibTail as _ZT
        if isinstance(b, _Z) and attr == 'unconsumed_tail':
            return _ZT(b)
        if isinstance(b, tuple) and attr in getattr(b, '_fields', ()):
            return getattr(b, attr)           # a member of a concrete namedtuple (a class-level table entry)
        if isinstance(b, (SBytes, SList, SDict, Code, StructRef, SGen, list, dict, str, bytes, tuple, set)) \
                or is_sym(b):
            if isinstance(b, StructRef) and attr == 'name':
                return b.name
            return BoundMethod(b, attr)
        if isinstance(b, Opaque):
            return Opaque(b.what + '.' + attr)
        try:
            return getattr(b, attr)
        except AttributeError:
            raise PyExc('AttributeError', line_of(node), attr)

    def class_assigns(self, I, clsname, attr):
        """some method of the class (or of a repository base class) assigns self.<attr>"""
        import ast as _ast
        import inspect as _inspect
        cls = I.calls.real_class(clsname)
        if cls is None:
            return False
        cache = self.__dict__.setdefault('_assigns_cache', {})
        key = (clsname, attr)
        if key not in cache:
            found = False
            for k in cls.__mro__:
                if k is object:
                    continue
                try:
                    tree = _ast.parse(_inspect.getsource(_inspect.getmodule(k)))
                except Exception:
                    continue
                for c in _ast.walk(tree):
                    if isinstance(c, _ast.ClassDef) and c.name == k.__name__:
                        for n in _ast.walk(c):
                            if isinstance(n, _ast.Attribute) and n.attr == attr and isinstance(n.ctx, _ast.Store) \
                                    and isinstance(n.value, _ast.Name) and n.value.id == 'self':
                                found = True
            cache[key] = found
        return cache[key]

    def class_attr(self, I, obj, attr, node):
        """class-level attribute or method of a repository class"""
        cls = I.calls.real_class(obj.cls)
        if cls is None:
            return _MISSING
        for k in cls.__mro__:
            if attr in vars(k):
                v = vars(k)[attr]
                if isinstance(v, property):
                    return I.calls.call_repo_function(I, v.fget, [obj], {}, node)
                if callable(v) or isinstance(v, (staticmethod, classmethod)):
                    return BoundMethod(obj, attr)
                return v
        return _MISSING

    def setattr(self, I, b, attr, v, node=None):
        if isinstance(b, SObj):
            b.attrs[attr] = v
        elif isinstance(b, SRec):
            b.fields[attr] = v
        elif isinstance(b, SStream) and attr == 'pos':
            b.pos = v
        else:
            raise Unsupported('attribute store on %r' % (b,))

    # ------------------------------------------------------------------ items
    def getitem(self, I, b, k, node=None):
        ln = line_of(node)
        if b is None:
            raise PyExc('TypeError', ln, 'None is not subscriptable')
        from .vals import SOpt as _SOpt
        if isinstance(b, _SOpt):
            if not I.pure and I.ctx.branch(b.isnone):
                raise PyExc('TypeError', ln, 'None is not subscriptable')
            return self.getitem(I, b.val, k, node)
        if isinstance(b, SRec):
            if isinstance(k, str):
                if k in b.fields:
                    pr = b.present.get(k, True)
                    if pr is not True and not I.pure and not I.ctx.branch(pr):
                        raise PyExc('KeyError', ln, k)
                    return b.fields[k]
                raise PyExc('KeyError', ln, k)
            raise Unsupported('record subscript with non-constant key')
        if isinstance(b, SObj):
            return I.calls.call_method(I, b, '__getitem__', [k], {}, node, None)
        if isinstance(b, StructRef) and b.name == 'Dwarf_dw_form':
            from .vals import FormParser
            known = z3.Function('form.known', StrS, BoolS)
            if isinstance(k, Code):
                if not I.pure and not I.ctx.branch(zand(k.isname, known(k.name))):
                    raise PyExc('KeyError', ln, 'form not in the form table')
                return FormParser(k.name, b.owner)
            if is_strlike(k):
                if not I.pure and not I.ctx.branch(known(to_str(k))):
                    raise PyExc('KeyError', ln, 'form not in the form table')
                return FormParser(to_str(k), b.owner)
            raise PyExc('KeyError', ln, 'form table looked up with a number')
        if isinstance(b, SBytes):
            return self.bytes_index(I, b, k, ln)
        if isinstance(b, SList):
            k = self.norm_index(I, k, b.n, ln, 'IndexError')
            return b.elem(k)
        if isinstance(b, SDict):
            if I.pure or I.ctx.branch(b.has(k)):
                return b.get(k)
            raise PyExc('KeyError', ln)
        if isinstance(b, (list, tuple)):
            if is_sym(k) and I.pure:
                # specification index into a concrete sequence: total function (guards are the caller's)
                if not b:
                    return I.ctx.const('nil', IntS)
                out = b[-1]
                for i in range(len(b) - 2, -1, -1):
                    out = I.ite(to_int(k) == i, b[i], out)
                return out
            if is_sym(k):
                n = len(b)
                kk = self.norm_index(I, k, n, ln, 'IndexError')
                if n == 0:
                    raise PathEnd()
                # select by case analysis
                for i in range(n - 1):
                    if I.ctx.branch(to_int(kk) == i):
                        return b[i]
                I.ctx.assume(to_int(kk) == n - 1)
                return b[n - 1]
            try:
                return b[k]
            except IndexError:
                raise PyExc('IndexError', ln)
            except TypeError:
                raise PyExc('TypeError', ln)
        if isinstance(b, dict):
            return self.dict_get(I, b, k, ln, None, True)
        if isinstance(b, bytes):
            if is_sym(k):
                return self.getitem(I, list(b), k, node)
            try:
                return b[k]
            except IndexError:
                raise PyExc('IndexError', ln)
        if isinstance(b, str):
            if is_sym(k):
                raise Unsupported('symbolic index into str')
            try:
                return b[k]
            except IndexError:
                raise PyExc('IndexError', ln)
        if is_sym(b) and z3.is_string(b):
            if I.pure:
                raise PyExc('TypeError', ln, 'index into a text value in a contract expression')
            raise Unsupported('index into symbolic string')
        if isinstance(b, Opaque):
            return Opaque(b.what + '[]')
        try:
            return b[k]
        except Exception as e:
            raise Unsupported('subscript on %r: %s' % (type(b).__name__, e))

    def dict_get(self, I, d, k, ln, default, strict):
        """lookup in a concrete python dict with a possibly symbolic key"""
        if isinstance(k, Code) or is_sym(k):
            if not strict and not I.pure and len(d) > 24 and is_sym(k) and z3.is_int(k) and \
                    all(isinstance(v, str) for v in d.values()):
                # a large name table looked up with .get(): no fork per entry, the looked-up name is an
                # if-then-else over the entries (a string term); absent keys give the default
                out = default if isinstance(default, str) or (is_sym(default) and z3.is_string(default)) else None
                if out is None:
                    out = I.ctx.const('name!default', StrS)        # a formatted fallback name: some string
                term = to_str(out)
                for key, val in d.items():
                    if isinstance(key, int):
                        term = z3.If(k == key, z3.StringVal(val), term)
                return term
            if strict and not I.pure and len(d) > 24 and is_sym(k) and z3.is_int(k) and \
                    all(isinstance(v, str) for key, v in d.items() if isinstance(key, int)):
                # d[k] in a large number -> name table: KeyError unless k is one of the (integer) keys; the name is an
                # if-then-else term
                items = [(key, v) for key, v in d.items() if isinstance(key, int) and not isinstance(key, bool)]
                if not I.ctx.branch(z3.Or(*[k == key for key, _v in items])):
                    raise PyExc('KeyError', ln)
                term = z3.StringVal(items[-1][1])
                for key, val in items[:-1]:
                    term = z3.If(k == key, z3.StringVal(val), term)
                return term
            for key, val in d.items():
                if I.ctx.branch(I.equal(k, key)) if not I.pure else False:
                    return val
            if I.pure:
                raise Unsupported('symbolic dict lookup in a contract expression')
            if strict:
                raise PyExc('KeyError', ln)
            return default
        try:
            if k in d:
                return d[k]
        except TypeError:
            raise PyExc('TypeError', ln, 'unhashable')
        if strict:
            raise PyExc('KeyError', ln, repr(k))
        return default

    def _nonneg_term(self, I, t):
        """syntactically non-negative: a bound variable whose range starts at >= 0, plus/times
        non-negative numerals and such variables"""
        nn = getattr(I, 'nonneg_vars', None)
        if not nn:
            return False
        if z3.is_int_value(t):
            return t.as_long() >= 0
        if z3.is_const(t):
            return t.get_id() in nn
        if z3.is_add(t) or z3.is_mul(t):
            return all(self._nonneg_term(I, c) for c in t.children())
        return False

    def norm_index(self, I, k, n, ln, exc):
        """python index with negative wrap; raises exc when out of range"""
        if not is_sym(k) and not is_sym(n):
            if k < -n or k >= n:
                raise PyExc(exc, ln)
            return k + n if k < 0 else k
        kk, nn = to_int(k), to_int(n)
        if I.pure:
            if is_sym(k) and self._nonneg_term(I, kk):
                return kk         # quantifier variable ranging from a non-negative bound: no wrap term
            return z3.If(kk < 0, kk + nn, kk) if (is_sym(k) or k < 0) else kk
        if not is_sym(k) and k < 0:
            idx = nn + k
            if not I.ctx.branch(idx >= 0):
                raise PyExc(exc, ln)
            return idx
        if is_sym(k) and I.ctx.branch(kk < 0):
            idx = kk + nn
            if not I.ctx.branch(idx >= 0):
                raise PyExc(exc, ln)
            return idx
        if not I.ctx.branch(kk < nn):
            raise PyExc(exc, ln)
        return kk

    def setitem(self, I, b, k, v, node=None):
        if isinstance(b, SRec):
            if not isinstance(k, str):
                raise Unsupported('record store with non-constant key')
            b.fields[k] = v
        elif isinstance(b, dict):
            if is_sym(k) or isinstance(k, Code):
                raise Unsupported('store into concrete dict with symbolic key (line %s)' % line_of(node))
            b[k] = v
        elif isinstance(b, list):
            if is_sym(k):
                raise Unsupported('list store with symbolic index')
            try:
                b[k] = v
            except IndexError:
                raise PyExc('IndexError', line_of(node))
        elif isinstance(b, SDict):
            old_has, old_get = b.has, b.get
            b.has = lambda q, k=k, oh=old_has: zor(I.equal(q, k), oh(q))
            b.get = lambda q, k=k, og=old_get, v=v: I.ite(I.equal(q, k), v, og(q)) \
                if not isinstance(I.equal(q, k), bool) else (v if I.equal(q, k) else og(q))
        elif isinstance(b, SObj):
            I.calls.call_method(I, b, '__setitem__', [k, v], {}, node, None)
        else:
            raise Unsupported('item store on %r' % type(b).__name__)

    def delitem(self, I, b, k, node=None):
        if isinstance(b, SRec) and isinstance(k, str):
            if k not in b.fields:
                raise PyExc('KeyError', line_of(node))
            del b.fields[k]
        elif isinstance(b, dict) and not is_sym(k):
            if k not in b:
                raise PyExc('KeyError', line_of(node))
            del b[k]
        else:
            raise Unsupported('del item')

    def contains(self, I, container, x, node=None):
        from .vals import SOpt as _SOpt
        if isinstance(container, _SOpt):
            if I.pure:
                # contract clause over an optional container kept symbolic: nothing is in None
                return zand(znot(container.isnone), self.contains(I, container.val, x, node))
            if I.ctx.branch(container.isnone):
                raise PyExc('TypeError', line_of(node), 'argument of type NoneType is not iterable')
            return self.contains(I, container.val, x, node)
        if isinstance(x, Code) and isinstance(container, (tuple, list, set, frozenset)) and \
                all(isinstance(y, str) for y in container):
            x.cands = sorted(container)        # hint for later case splits (soundness: see code_str)
        if isinstance(container, (tuple, list, set, frozenset)):
            return zor(*[I.equal(x, y) for y in container])
        if isinstance(container, dict):
            if isinstance(x, Code) or is_sym(x):
                return zor(*[I.equal(x, y) for y in container])
            return x in container
        if isinstance(container, SRec):
            if isinstance(x, str):
                return x in container.fields
            raise Unsupported('symbolic key membership in record')
        if isinstance(container, SDict):
            return container.has(x)
        if isinstance(container, SObj):
            return I.calls.call_method(I, container, '__contains__', [x], {}, node, None)
        if isinstance(container, str) and isinstance(x, str):
            return x in container
        if is_strlike(container) and is_strlike(x):
            return z3.Contains(to_str(container), to_str(x))
        if isinstance(container, SList):
            if I.pure:
                i = z3.Int('i!in%d' % I.ctx.counter.setdefault('in', 0))
                I.ctx.counter['in'] += 1
                return z3.Exists([i], z3.And(i >= 0, i < to_int(container.n), to_bool(I.equal(container.elem(i), x))))
            raise Unsupported('membership in symbolic list')
        if isinstance(container, range):
            if is_sym(x):
                if container.step != 1:
                    raise Unsupported('range step')
                return z3.And(to_int(x) >= container.start, to_int(x) < container.stop)
            return x in container
        if isinstance(container, (bytes, SBytes)):
            raise Unsupported('membership in bytes')
        raise Unsupported('membership in %r' % type(container).__name__)

    # ------------------------------------------------------------------ bytes
    def to_sbytes(self, I, b):
        if isinstance(b, SBytes):
            return b
        if isinstance(b, (bytes, bytearray)):
            arr = z3.K(IntS, z3.IntVal(0))
            for i, c in enumerate(b):
                arr = z3.Store(arr, i, c)
            return SBytes(arr, 0, len(b))
        raise Unsupported('not bytes: %r' % (b,))

    def bytes_index(self, I, b, k, ln):
        if isinstance(k, slice):
            raise Unsupported('slice object')
        if I.pure:
            return b.at(k)       # specification index: total function of the array
        kk = self.norm_index(I, k, b.n, ln, 'IndexError')
        return b.at(kk)

    def bytes_eq(self, I, l, r):
        if isinstance(l, (bytes, bytearray)) and isinstance(r, (bytes, bytearray)):
            return bytes(l) == bytes(r)
        if not isinstance(l, (SBytes, bytes, bytearray)) or not isinstance(r, (SBytes, bytes, bytearray)):
            return False
        if isinstance(l, (bytes, bytearray)):
            l, r = r, l
        if isinstance(r, (bytes, bytearray)):
            cs = [to_int(l.n) == len(r)] if is_sym(l.n) else ([] if l.n == len(r) else [False])
            for i, c in enumerate(r):
                cs.append(l.at(i) == c)
            return zand(*cs)
        if l.arr is r.arr or (is_sym(l.arr) and is_sym(r.arr) and l.arr.eq(r.arr)):
            if z3.is_true(z3.simplify(to_int(l.off) == to_int(r.off))):
                return to_int(l.n) == to_int(r.n) if (is_sym(l.n) or is_sym(r.n)) else l.n == r.n
        i = z3.Int('i!beq%d' % I.ctx.counter.setdefault('beq', 0))
        I.ctx.counter['beq'] += 1
        alleq = z3.ForAll([i], z3.Implies(z3.And(i >= 0, i < to_int(l.n)), l.at(i) == r.at(i)))
        if is_sym(l.arr) and is_sym(r.arr) and l.arr.eq(r.arr):
            # same array: equal offsets (or an empty view) is a special case of element-wise
            # equality, so the disjunction is equivalent to alleq and easier to discharge
            alleq = z3.Or(to_int(l.off) == to_int(r.off), to_int(l.n) == 0, alleq)
        return z3.And(to_int(l.n) == to_int(r.n), alleq)

    def code_str(self, I, code, node):
        """a concrete python str for an enum-coded value: explicit case split over the names a
        preceding membership test mentioned; every case is decided by a real branch, and the
        no-match case is a checker error, so a stale hint cannot hide a path"""
        cands = getattr(code, 'cands', None)
        if not cands:
            raise Unsupported('string operation on an enum-coded value without a preceding membership test (line %s)' % line_of(node))
        for c in cands:
            if I.ctx.branch(code.eq(c)):
                return c
        raise Unsupported('enum-coded value matches none of the candidate names (line %s)' % line_of(node))

    def getslice(self, I, b, lo, hi, st, node=None):
        ln = line_of(node)
        if isinstance(b, Code):
            b = self.code_str(I, b, node)
        if b is None:
            raise PyExc('TypeError', ln)
        if isinstance(b, (list, tuple, str, bytes)) and not any(is_sym(x) for x in (lo, hi, st)):
            return b[lo:hi:st]
        if isinstance(b, bytes):
            b = self.to_sbytes(I, b)
        if isinstance(b, SBytes) and st == -1 and lo is None and hi is None:
            # b[::-1]: a fresh array holding the reversed bytes
            arr = I.ctx.const('rev', ArrS)
            i = z3.Int('i!rev')
            n = to_int(b.n)
            I.ctx.assume(z3.ForAll([i], z3.Implies(z3.And(i >= 0, i < n), z3.Select(arr, i) == b.at(n - 1 - i)),
                                   patterns=[z3.Select(arr, i)]))
            I.ctx.byte_arrays.append(arr)
            return SBytes(arr, 0, b.n)
        if isinstance(b, SBytes):
            if st is not None:
                raise Unsupported('bytes slice with step')
            n = b.n
            lo_ = 0 if lo is None else lo
            hi_ = n if hi is None else hi
            lo_ = self.clamp(lo_, n)
            hi_ = self.clamp(hi_, n)
            ln_ = zmax(0, to_int(hi_) - to_int(lo_)) if (is_sym(lo_) or is_sym(hi_)) else max(0, hi_ - lo_)
            off = to_int(b.off) + to_int(lo_) if (is_sym(b.off) or is_sym(lo_)) else b.off + lo_
            return SBytes(b.arr, off, z3.simplify(ln_) if is_sym(ln_) else ln_)
        if is_strlike(b):
            if st is not None:
                raise Unsupported('str slice with step')
            s = to_str(b)
            lo_ = 0 if lo is None else lo
            if hi is None:
                if not is_sym(lo_) and lo_ >= 0:
                    return z3.SubString(s, lo_, z3.Length(s))
            raise Unsupported('symbolic str slice')
        if isinstance(b, SList):
            if st is not None:
                raise Unsupported('list slice with step')
            lo_ = self.clamp(0 if lo is None else lo, b.n)
            hi_ = self.clamp(b.n if hi is None else hi, b.n)
            n2 = zmax(0, to_int(hi_) - to_int(lo_))
            el = b.elem
            return SList(lambda i, lo_=lo_, el=el: el(to_int(lo_) + to_int(i)), n2, b.name + '[:]')
        if isinstance(b, (list, tuple)):
            raise Unsupported('symbolic slice of concrete sequence')
        raise Unsupported('slice of %r' % type(b).__name__)

    def clamp(self, k, n):
        """slice index normalisation: negative wraps, then clamp to [0, n]"""
        if not is_sym(k) and not is_sym(n):
            if k < 0:
                k += n
            return max(0, min(k, n))
        kk, nn = to_int(k), to_int(n)
        if not is_sym(k):
            if k >= 0:
                return z3.If(kk <= nn, kk, nn)
            w = kk + nn
            return z3.If(w < 0, z3.IntVal(0), w)
        w = z3.If(kk < 0, kk + nn, kk)
        return z3.If(w < 0, z3.IntVal(0), z3.If(w > nn, nn, w))

    def bytes_concat(self, I, l, r):
        l = self.to_sbytes(I, l) if not isinstance(l, SBytes) else l
        r = self.to_sbytes(I, r) if not isinstance(r, SBytes) else r
        # adjacent views of one array concatenate to a view
        if (is_sym(l.arr) and is_sym(r.arr) and l.arr.eq(r.arr)) and \
                z3.is_true(z3.simplify(to_int(l.off) + to_int(l.n) == to_int(r.off))):
            return SBytes(l.arr, l.off, z3.simplify(to_int(l.n) + to_int(r.n)))
        if not is_sym(l.n) and l.n == 0:
            return r
        if not is_sym(r.n) and r.n == 0:
            return l
        arr = I.ctx.const('cat', ArrS)
        i = z3.Int('i!cat')
        n = to_int(l.n) + to_int(r.n)
        I.ctx.assume(z3.ForAll([i], z3.Implies(z3.And(i >= 0, i < to_int(l.n)), z3.Select(arr, i) == l.at(i)),
                               patterns=[z3.Select(arr, i)]))
        I.ctx.assume(z3.ForAll([i], z3.Implies(z3.And(i >= to_int(l.n), i < n),
                                               z3.Select(arr, i) == r.at(i - to_int(l.n))),
                               patterns=[z3.Select(arr, i)]))
        return SBytes(arr, 0, n)

    def bytes_repeat(self, I, b, k):
        if isinstance(b, bytes) and len(b) == 1:
            arr = z3.K(IntS, z3.IntVal(b[0]))
            n = zmax(0, k)
            return SBytes(arr, 0, n)
        raise Unsupported('bytes repetition')

    # ---------------------------------------------------------------- streams
    def stream_read(self, I, s, n=None, ln=None):
        if s.closed:
            raise PyExc('ValueError', ln, 'closed stream')
        avail = zmax(0, to_int(s.length) - to_int(s.pos))
        if n is None:
            k = avail
        elif not is_sym(n) and n < 0:
            k = avail
        else:
            if is_sym(n) and not I.pure:
                if I.ctx.branch(to_int(n) < 0):
                    k = avail
                else:
                    k = zmin(n, avail)
            else:
                k = zmin(n, avail)
        # CPython: a read size beyond ssize_t raises OverflowError
        if n is not None and not I.pure:
            if is_sym(n):
                if I.ctx.branch(to_int(n) >= 2 ** 63):
                    raise PyExc('OverflowError', ln, 'read size does not fit in ssize_t')
            elif n >= 2 ** 63:
                raise PyExc('OverflowError', ln, 'read size does not fit in ssize_t')
        k = z3.simplify(to_int(k))
        out = SBytes(s.arr, s.pos, k)
        s.pos = z3.simplify(to_int(s.pos) + k)
        return out

    def stream_seek(self, I, s, off, whence=0, ln=None):
        if isinstance(whence, Opaque) or is_sym(whence):
            raise Unsupported('symbolic whence')
        if off is None:
            raise PyExc('TypeError', ln, 'seek(None)')
        if isinstance(off, (Code, SBytes, SRec, SObj, str)):
            raise PyExc('TypeError', ln, 'seek of non-integer')
        if whence == 0:
            new = off
        elif whence == 1:
            new = to_int(s.pos) + to_int(off)
        elif whence == 2:
            new = to_int(s.length) + to_int(off)
        else:
            raise Unsupported('whence')
        if is_sym(new):
            if not I.pure and I.ctx.branch(to_int(new) < 0):
                # io.BytesIO.seek: negative absolute position -> ValueError;
                # relative seeks clamp at 0
                if whence == 0:
                    raise PyExc('ValueError', ln, 'negative seek position')
                new = 0
        elif new < 0:
            if whence == 0:
                raise PyExc('ValueError', ln, 'negative seek position')
            new = 0
        # CPython: a position beyond the platform ssize_t raises OverflowError
        if is_sym(new):
            if not I.pure and I.ctx.branch(to_int(new) >= 2 ** 63):
                raise PyExc('OverflowError', ln, 'seek position does not fit in ssize_t')
        elif new >= 2 ** 63:
            raise PyExc('OverflowError', ln, 'seek position does not fit in ssize_t')
        s.pos = new
        return new

    def stream_write(self, I, s, data, ln=None):
        data = self.to_sbytes(I, data) if not isinstance(data, SBytes) else data
        if is_sym(data.n):
            # bulk write: new array equal to old outside [pos, pos+n) and to data inside
            arr = I.ctx.const(s.name + '.B!w', ArrS)
            i = z3.Int('i!w')
            p, n = to_int(s.pos), to_int(data.n)
            I.ctx.assume(z3.ForAll([i], z3.Select(arr, i) == z3.If(z3.And(i >= p, i < p + n), data.at(i - p),
                                                                   z3.Select(s.arr, i)),
                                   patterns=[z3.Select(arr, i)]))
            s.arr = arr
        else:
            arr = s.arr
            for j in range(data.n):
                arr = z3.Store(arr, to_int(s.pos) + j, data.at(j))
            s.arr = arr
        newpos = z3.simplify(to_int(s.pos) + to_int(data.n))
        s.length = z3.simplify(zmax(s.length, newpos)) if is_sym(zmax(s.length, newpos)) else zmax(s.length, newpos)
        s.pos = newpos
        return data.n

    def reachable_streams(self, fr):
        seen, out = set(), []

        def walk(v, depth=0):
            if id(v) in seen or depth > 6:
                return
            seen.add(id(v))
            if isinstance(v, SStream):
                out.append(v)
            elif isinstance(v, SObj):
                for x in v.attrs.values():
                    walk(x, depth + 1)
            elif isinstance(v, SRec):
                for x in v.fields.values():
                    walk(x, depth + 1)
            elif isinstance(v, (list, tuple)):
                for x in v:
                    walk(x, depth + 1)
            elif isinstance(v, dict):
                for x in v.values():
                    walk(x, depth + 1)
        f = fr
        while f is not None:
            for v in f.env.values():
                walk(v)
            f = f.parent
        return out

    # ------------------------------------------------------------------ havoc
    def havoc_value(self, I, cur, name, shape, container=False):
        c = I.ctx
        if shape is not None:
            return shape.make(c, name + '!h')
        if isinstance(cur, bool) or (is_sym(cur) and z3.is_bool(cur)):
            return c.const(name + '!h', BoolS)
        if isinstance(cur, int) or (is_sym(cur) and z3.is_int(cur)):
            return c.const(name + '!h', IntS)
        if is_strlike(cur):
            return c.const(name + '!h', StrS)
        if cur is None:
            return None
        from .vals import SOpt
        if isinstance(cur, SOpt):
            return SOpt(c.const(name + '.isnone!h', BoolS), self.havoc_value(I, cur.val, name, None))
        if isinstance(cur, Code):
            raw = c.const(name + '.raw!h', IntS)
            c.assume(raw >= 0)
            return Code(c.const(name + '.isname!h', BoolS), c.const(name + '.name!h', StrS), raw)
        if isinstance(cur, (SBytes, bytes)):
            arr = c.const(name + '.arr!h', ArrS)
            n = c.const(name + '.len!h', IntS)
            c.assume(n >= 0)
            c.byte_array(arr)
            return SBytes(arr, 0, n)
        if isinstance(cur, SRec):
            return SRec({k: self.havoc_value(I, v, name + '.' + k, None) for k, v in cur.fields.items()}, cur.kind)
        if isinstance(cur, SStream):
            cur.pos = c.const(cur.name + '.pos!h', IntS)
            c.assume(cur.pos >= 0)
            return cur
        if isinstance(cur, SObj):
            o = SObj(cur.cls, {k: self.havoc_value(I, v, name + '.' + k, None) if not isinstance(v, (SObj, SStream)) else v
                               for k, v in cur.attrs.items()})
            if getattr(cur, 'is_structs', False):
                o.is_structs = True
            return o
        if isinstance(cur, tuple):
            return tuple(self.havoc_value(I, v, '%s.%d' % (name, i), None) for i, v in enumerate(cur))
        if isinstance(cur, list):
            n = c.const(name + '.len!h', IntS)
            c.assume(n >= 0)
            proto = cur[0] if cur else 0
            cache = {}

            def elem(i, proto=proto, name=name):
                return self.indexed_like(I, proto, name + '[]', to_int(i))
            return SList(elem, n, name)
        if isinstance(cur, SList):
            n = c.const(name + '.len!h', IntS)
            c.assume(n >= 0)
            proto = cur.elem(z3.IntVal(0))
            return SList(lambda i, proto=proto, name=name: self.indexed_like(I, proto, name + '[]!h', to_int(i)),
                         n, name)
        if isinstance(cur, (dict, SDict)):
            hf = z3.Function(c.fname(name + '.has!h'), IntS, BoolS)
            raise Unsupported('havoc of dict %s: declare a shape in the loop contract' % name)
        if isinstance(cur, (SFunc, StructRef, Opaque)) or callable(cur):
            return cur
        raise Unsupported('cannot havoc %s = %r' % (name, cur))

    def indexed_like(self, I, proto, name, idx):
        """value of the same shape as proto whose leaves are functions of idx"""
        def leaf(sort, suffix=''):
            return z3.Function(name + suffix, IntS, sort)(idx)
        if isinstance(proto, bool) or (is_sym(proto) and z3.is_bool(proto)):
            return leaf(BoolS)
        if isinstance(proto, int) or (is_sym(proto) and z3.is_int(proto)):
            return leaf(IntS)
        if is_strlike(proto):
            return leaf(StrS)
        if isinstance(proto, Code):
            return Code(leaf(BoolS, '.isname'), leaf(StrS, '.name'), leaf(IntS, '.raw'))
        from .vals import SOpt
        if isinstance(proto, SOpt):
            return SOpt(self.indexed_like(I, proto.isnone, name + '.isnone', idx), self.indexed_like(I, proto.val, name, idx))
        if isinstance(proto, SRec):
            if proto.tag is not None:
                raise Unsupported('havoc of a list of tagged records: declare a shape in the loop contract')
            return SRec({k: self.indexed_like(I, v, name + '.' + k, idx) for k, v in proto.fields.items()}, proto.kind)
        if isinstance(proto, tuple):
            return tuple(self.indexed_like(I, v, '%s.%d' % (name, i), idx) for i, v in enumerate(proto))
        if isinstance(proto, (SBytes, bytes)):
            return SBytes(leaf(ArrS, '.arr'), 0, leaf(IntS, '.len'))
        if proto is None:
            return None
        if isinstance(proto, SObj):
            return SObj(proto.cls, {k: self.indexed_like(I, v, name + '.' + k, idx) if not isinstance(v, (SObj, SStream)) else v
                                    for k, v in proto.attrs.items()})
        raise Unsupported('indexed_like %r' % (proto,))

    # -------------------------------------------------------------- sequences
    def concrete_iter(self, I, it, node=None):
        """python list of elements when the iterable has a concrete length, else None"""
        if isinstance(it, (list, tuple)):
            return list(it)
        if isinstance(it, (set, frozenset)):
            return sorted(it, key=repr)
        if isinstance(it, dict):
            return list(it.keys())
        if isinstance(it, range):
            return list(it) if len(it) <= 100000 else None
        if isinstance(it, (str, bytes)):
            return list(it)
        if isinstance(it, SGen):
            return self.concrete_iter(I, it.seq, node)
        if isinstance(it, SList):
            if not is_sym(it.n):
                return [it.elem(i) for i in range(it.n)]
            return None
        if isinstance(it, SBytes):
            if not is_sym(it.n):
                return [it.at(i) for i in range(it.n)]
            return None
        if isinstance(it, SymRange):
            if not is_sym(it.lo) and not is_sym(it.hi):
                return list(range(it.lo, it.hi))
            return None
        if isinstance(it, CountIter):
            return None
        if isinstance(it, SRec):
            return list(it.fields.keys())
        if isinstance(it, Enumerated):
            inner = self.concrete_iter(I, it.inner, node)
            if inner is None:
                return None
            return [(it.start + i, x) for i, x in enumerate(inner)]
        if isinstance(it, Zipped):
            parts = [self.concrete_iter(I, x, node) for x in it.parts]
            if any(p is None for p in parts):
                return None
            return list(zip(*parts))
        raise Unsupported('iteration over %r (line %s)' % (type(it).__name__, line_of(node)))

    def as_seq(self, I, it, node=None):
        """view an iterable as SList (symbolic length allowed)"""
        if isinstance(it, SList):
            return it
        if isinstance(it, SGen):
            return self.as_seq(I, it.seq, node)
        if isinstance(it, (list, tuple)):
            items = list(it)
            return SList(lambda i, items=items: self.getitem(I, items, i, node), len(items), 'lit')
        if isinstance(it, SymRange):
            n = zmax(0, to_int(it.hi) - to_int(it.lo))
            return SList(lambda i, lo=it.lo: to_int(lo) + to_int(i), n, 'range')
        if isinstance(it, range):
            if it.step != 1:
                raise Unsupported('range step in cut loop')
            return SList(lambda i, lo=it.start: lo + to_int(i), len(it), 'range')
        if isinstance(it, CountIter):
            return SList(lambda i, lo=it.start: to_int(lo) + to_int(i), InfLen, 'count')
        if isinstance(it, SBytes):
            return SList(lambda i, b=it: b.at(i), it.n, 'bytes')
        if isinstance(it, Enumerated):
            inner = self.as_seq(I, it.inner, node)
            return SList(lambda i, inner=inner, st=it.start: (to_int(st) + to_int(i), inner.elem(i)), inner.n, 'enum')
        raise Unsupported('as_seq of %r (line %s)' % (type(it).__name__, line_of(node)))


class SymRange:
    def __init__(self, lo, hi):
        self.lo, self.hi = lo, hi


class CountIter:
    def __init__(self, start=0):
        self.start = start


class Enumerated:
    def __init__(self, inner, start=0):
        self.inner, self.start = inner, start


class Zipped:
    def __init__(self, parts):
        self.parts = parts


# length of itertools.count(): larger than any index (guard k < n always true)
InfLen = z3.Int('inf!len')
