"""Methods of bytes / list / dict / str model values."""
import z3

from .ctx import Unsupported, PyExc
from .models import line_of, zmax, zmin
from .vals import (is_sym, is_strlike, to_int, to_bool, to_str, zand, zor, znot,
                   Code, SBytes, SList, SDict, SRec, Opaque, IntS, ArrS)


class JoinView:
    pass


class ValueMethods:
    def bytes_method(self, I, obj, name, args, kw, node):
        ln = line_of(node)
        if name == 'decode':
            # the decoded text is modelled as an abstract string determined by the bytes
            b = self.to_sbytes(I, obj) if not isinstance(obj, SBytes) else obj
            if isinstance(obj, bytes):
                try:
                    return obj.decode(*args, **kw)
                except UnicodeDecodeError:
                    raise PyExc('UnicodeDecodeError', ln)
            enc = args[0] if args else kw.get('encoding', 'utf-8')
            errors = args[1] if len(args) > 1 else kw.get('errors', 'strict')
            f = z3.Function('decode!%s!%s' % (enc, errors), ArrS, IntS, IntS, z3.StringSort())
            if errors == 'strict' and enc.lower().replace('-', '') in ('utf8', 'ascii') and not I.pure:
                okf = z3.Function('decodable!%s' % enc, ArrS, IntS, IntS, z3.BoolSort())
                from .vals import view_args
                if not I.ctx.branch(okf(*view_args(b))):
                    raise PyExc('UnicodeDecodeError', ln)
            from .vals import view_args
            return f(*view_args(b))
        if name == 'find':
            b = self.to_sbytes(I, obj) if not isinstance(obj, SBytes) else obj
            needle = args[0]
            if not isinstance(needle, bytes) or len(needle) != 1 or len(args) > 1:
                raise Unsupported('bytes.find of multi-byte needle')
            c = needle[0]
            r = I.ctx.const('find', IntS)
            n = to_int(b.n)
            off = to_int(b.off)
            j = z3.Int('j!find')
            # r = least index with b[r]==c, or -1 (absolute array indices, so that the
            # facts match Select(arr, j) patterns of the invariants)
            I.ctx.assume(z3.Or(
                z3.And(r == -1, z3.ForAll([j], z3.Implies(z3.And(j >= off, j < off + n), z3.Select(b.arr, j) != c),
                                          patterns=[z3.Select(b.arr, j)])),
                z3.And(r >= 0, r < n, z3.Select(b.arr, off + r) == c,
                       z3.ForAll([j], z3.Implies(z3.And(j >= off, j < off + r), z3.Select(b.arr, j) != c),
                                 patterns=[z3.Select(b.arr, j)]))))
            return r
        if name == 'join':
            # b''.join(chunks)
            if isinstance(obj, bytes) and obj == b'':
                seq = args[0]
                if isinstance(seq, (list, tuple)):
                    out = b''
                    for x in seq:
                        out = I.models.bytes_concat(I, out, x) if not (isinstance(out, bytes) and out == b'') else x
                    return out
                if isinstance(seq, ChunkList):
                    return seq.joined()
            raise Unsupported('bytes.join')
        if name == 'startswith':
            b = self.to_sbytes(I, obj) if not isinstance(obj, SBytes) else obj
            p = args[0]
            if isinstance(p, bytes):
                return zand(to_int(b.n) >= len(p), *[b.at(i) == c for i, c in enumerate(p)])
        if name == 'hex':
            return Opaque('hex')
        if name in ('rstrip', 'strip', 'split', 'lstrip', 'partition'):
            raise Unsupported('bytes.%s' % name)
        raise Unsupported('bytes.%s' % name)

    def list_method(self, I, obj, name, args, kw, node):
        ln = line_of(node)
        if name == 'append':
            obj.append(args[0])
            return None
        if name == 'extend':
            seq = self.concrete_iter(I, args[0], node)
            if seq is None:
                raise Unsupported('extend with symbolic sequence')
            obj.extend(seq)
            return None
        if name == 'insert':
            if is_sym(args[0]):
                raise Unsupported('insert at symbolic index')
            obj.insert(args[0], args[1])
            return None
        if name == 'pop':
            if not obj:
                raise PyExc('IndexError', ln, 'pop from empty list')
            if args and is_sym(args[0]):
                raise Unsupported('pop symbolic index')
            try:
                return obj.pop(*args)
            except IndexError:
                raise PyExc('IndexError', ln)
        if name == 'index':
            for i, x in enumerate(obj):
                t = I.equal(x, args[0])
                if t is True or (not isinstance(t, bool) and I.ctx.branch(t)):
                    return i
            raise PyExc('ValueError', ln)
        if name == 'copy':
            return list(obj)
        if name == 'reverse':
            obj.reverse()
            return None
        if name == 'sort':
            if any(is_sym(x) for x in obj) or kw:
                raise Unsupported('sort of symbolic data')
            obj.sort()
            return None
        if name == 'clear':
            del obj[:]
            return None
        if name == 'count':
            raise Unsupported('list.count')
        raise Unsupported('list.%s' % name)

    def dict_method(self, I, obj, name, args, kw, node):
        ln = line_of(node)
        if name == 'get':
            return self.dict_get(I, obj, args[0], ln, args[1] if len(args) > 1 else None, False)
        if name == 'items':
            return list(obj.items())
        if name == 'keys':
            return list(obj.keys())
        if name == 'values':
            return list(obj.values())
        if name == 'update':
            for a in args:
                if isinstance(a, dict):
                    obj.update(a)
                elif isinstance(a, SRec):
                    obj.update(a.fields)
                else:
                    raise Unsupported('dict.update with %r' % (a,))
            obj.update(kw)
            return None
        if name == 'copy':
            return dict(obj)
        if name == 'pop':
            k = args[0]
            if is_sym(k):
                raise Unsupported('dict.pop symbolic')
            if k in obj:
                return obj.pop(k)
            if len(args) > 1:
                return args[1]
            raise PyExc('KeyError', ln)
        if name == 'setdefault':
            k = args[0]
            if is_sym(k):
                raise Unsupported('setdefault symbolic')
            return obj.setdefault(k, args[1] if len(args) > 1 else None)
        raise Unsupported('dict.%s' % name)

    def str_method(self, I, obj, name, args, kw, node):
        if isinstance(obj, str) and not any(is_sym(a) for a in args):
            if name == 'format':
                return Opaque('formatted')
            if name == 'join':
                seq = self.concrete_iter(I, args[0], node)
                if seq is not None and all(isinstance(x, str) for x in seq):
                    return obj.join(seq)
                return Opaque('joined')
            try:
                return getattr(obj, name)(*args, **kw)
            except Exception as e:
                raise Unsupported('str.%s: %s' % (name, e))
        s = to_str(obj)
        if name == 'startswith':
            p = args[0]
            if isinstance(p, tuple):
                return zor(*[z3.PrefixOf(to_str(x), s) for x in p])
            return z3.PrefixOf(to_str(p), s)
        if name == 'endswith':
            return z3.SuffixOf(to_str(args[0]), s)
        if name == 'encode':
            raise Unsupported('str.encode of symbolic string')
        raise Unsupported('str.%s on symbolic string' % name)


class ChunkList:
    """list of byte chunks whose concatenation is one contiguous view of an array
    (used for the chunked C-string reader)"""

    def __init__(self, view):
        self.view = view

    def append(self, I, M, chunk):
        chunk = M.to_sbytes(I, chunk) if not isinstance(chunk, SBytes) else chunk
        v = self.view
        if not is_sym(chunk.n):
            if chunk.n == 0:
                return
        elif I.ctx.branch(to_int(chunk.n) == 0):
            return
        same = is_sym(v.arr) and is_sym(chunk.arr) and v.arr.eq(chunk.arr)
        if not same or not I.ctx.provable(to_int(v.off) + to_int(v.n) == to_int(chunk.off)):
            raise Unsupported('appended chunk is not adjacent to the accumulated view')
        self.view = SBytes(v.arr, v.off, z3.simplify(to_int(v.n) + to_int(chunk.n)))

    def joined(self):
        return self.view
